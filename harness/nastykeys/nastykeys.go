// Package nastykeys builds the rank -> concrete key tables used by the index /
// utility drivers (DESIGN.md 3.4): the specs work on ranks 1..K, the real code
// gets byte strings that stress byte-level handling (shared long prefixes around
// the 255-byte prefix-length limit, embedded \x00 / \x00\x00 / \x00\x01, \xff runs,
// the empty key, long keys up to the index entry limit).
// The table is sorted and checked to be strictly monotone under strings.Compare.
package nastykeys

import (
	"fmt"
	"math/rand"
	"sort"
	"strings"
)

// MaxKey is ixkey.Max; every generated key is strictly below it
const MaxKey = "\xff\xff\xff\xff\xff\xff\xff\xff"

// MaxLen is the index entry limit (ixkey.maxEntry)
const MaxLen = 4096

// Style selects the flavour of a universe
type Style int

const (
	Mixed    Style = iota // fixed pool of boundary keys + random small-alphabet keys
	Numeric               // zero padded numbers with a common prefix (dense, realistic)
	LongPfx               // long shared prefixes around 254..257 bytes and up to MaxLen
	Alphabet              // random strings over {\x00,\x01,a,b,\xfe,\xff}, length 0..6
	Composite             // two-field ixkey style keys  <p>\x00\x00<s>
	NStyles
)

func (s Style) String() string {
	return [...]string{"mixed", "numeric", "longpfx", "alphabet", "composite"}[s]
}

var pool = []string{
	"", "\x00", "\x00\x00", "\x00\x01", "\x00\x00\x00", "\x00\xff", "\x01",
	"a", "a\x00", "a\x00\x00", "a\x00\x00b", "a\x00\x01", "a\x00\x01b", "a\x01", "aa", "ab", "a\xff", "a\xff\xff",
	"b", "b\x00", "\xfe", "\xfe\xff",
	"\xff", "\xff\x00", "\xff\xff", "\xff\xff\xff\xff\xff\xff\xff", "\xff\xff\xff\xff\xff\xff\xff\xfe",
	"\xff\xff\xff\xff\xff\xff\xff\x00x",
}

func alphaKey(rnd *rand.Rand, maxlen int) string {
	const alpha = "\x00\x01ab\xfe\xff"
	n := rnd.Intn(maxlen + 1)
	b := make([]byte, n)
	for i := range b {
		b[i] = alpha[rnd.Intn(len(alpha))]
	}
	return string(b)
}

// longKeys: nearMax adds the family of keys just below the index entry limit (4096 bytes);
// two of their separators do not fit into one tree node, which the btree handles badly
// (known finding node-too-large-near-max-keys) -- they are only used by the LongPfx style so
// that the other styles stay clear of it
func longKeys(rnd *rand.Rand, nearMax bool) []string {
	var ks []string
	for _, n := range []int{253, 254, 255, 256, 257, 300} {
		p := strings.Repeat("p", n)
		ks = append(ks, p, p+"\x00", p+"a", p+"ab", p+"b", p+"\xff", p+"a\x00\x00z")
	}
	// different first byte so that leaf prefixes shrink/grow when they are mixed
	for _, n := range []int{255, 256, 1000} {
		q := "q" + strings.Repeat("\x00", n)
		ks = append(ks, q, q+"\x01", q+"\x00")
	}
	if nearMax {
		big := strings.Repeat("L", MaxLen-3)
		ks = append(ks, big, big+"a", big+"ab", big+"abc", big+"b", big+"\xff\xff\xff")
	} else {
		big := strings.Repeat("L", 1500)
		ks = append(ks, big, big+"a", big+"ab", big+"abc", big+"b", big+"\xff\xff\xff")
	}
	mid := strings.Repeat("M", 2040)
	ks = append(ks, mid, mid+"1", mid+"2", mid+"3", mid+"4", mid+"5")
	return ks
}

// Universe returns n (or fewer if the style cannot supply that many) distinct keys, sorted.
func Universe(rnd *rand.Rand, n int, style Style) []string {
	set := map[string]bool{}
	add := func(k string) {
		if len(k) <= MaxLen && k < MaxKey {
			set[k] = true
		}
	}
	switch style {
	case Mixed:
		for _, i := range rnd.Perm(len(pool)) {
			if len(set) < n*2/3 {
				add(pool[i])
			}
		}
		lk := longKeys(rnd, false)
		for _, i := range rnd.Perm(len(lk)) {
			if len(set) < n*5/6 {
				add(lk[i])
			}
		}
		for tries := 0; len(set) < n && tries < 100*n; tries++ {
			add(alphaKey(rnd, 5))
		}
	case Numeric:
		pre := []string{"", "k", "key\x00\x00", strings.Repeat("n", 260)}[rnd.Intn(4)]
		step := 1 + rnd.Intn(3)
		for i := 0; len(set) < n; i++ {
			add(fmt.Sprintf("%s%06d", pre, 1000+i*step))
		}
	case LongPfx:
		lk := longKeys(rnd, true)
		for _, i := range rnd.Perm(len(lk)) {
			if len(set) < n {
				add(lk[i])
			}
		}
		p := strings.Repeat("p", 250)
		for tries := 0; len(set) < n && tries < 100*n; tries++ {
			add(p + alphaKey(rnd, 8))
		}
	case Alphabet:
		for tries := 0; len(set) < n && tries < 200*n; tries++ {
			add(alphaKey(rnd, 6))
		}
	case Composite:
		// ixkey encoding: fields joined by \x00\x00, embedded \x00 escaped as \x00\x01,
		// trailing empty fields trimmed
		pf := []string{"", "a", "a\x00\x01", "b", "b\xff", "c"}
		sf := []string{"", "0", "1", "1\x00\x01", "2", "3", "\xff"}
		for tries := 0; len(set) < n && tries < 200*n; tries++ {
			p, s := pf[rnd.Intn(len(pf))], sf[rnd.Intn(len(sf))]
			k := p + "\x00\x00" + s
			if rnd.Intn(4) == 0 {
				k += "\x00\x00" + sf[rnd.Intn(len(sf))]
			}
			for strings.HasSuffix(k, "\x00\x00") {
				k = k[:len(k)-2]
			}
			add(k)
		}
	}
	ks := make([]string, 0, len(set))
	for k := range set {
		ks = append(ks, k)
	}
	sort.Strings(ks)
	if len(ks) > n {
		// keep a random subset (sorted)
		idx := rnd.Perm(len(ks))[:n]
		sort.Ints(idx)
		out := make([]string, n)
		for i, j := range idx {
			out[i] = ks[j]
		}
		ks = out
	}
	return ks
}

// Check returns an error text unless ks is strictly increasing and below MaxKey
func Check(ks []string) string {
	for i, k := range ks {
		if i > 0 && strings.Compare(ks[i-1], k) >= 0 {
			return fmt.Sprintf("rank table not strictly monotone at %d: %q >= %q", i, ks[i-1], k)
		}
		if k >= MaxKey {
			return fmt.Sprintf("key %d not below ixkey.Max", i)
		}
	}
	return ""
}

// SplitTables computes, for composite keys, the rank of every key's prefix among the distinct
// prefixes and of its suffix among the distinct suffixes (1-based), plus the two sorted tables.
func SplitTables(keys []string, split func(string) (string, string)) (pg, sf []int, pfx, sfx []string) {
	ps, ss := map[string]bool{}, map[string]bool{}
	for _, k := range keys {
		p, s := split(k)
		ps[p], ss[s] = true, true
	}
	for p := range ps {
		pfx = append(pfx, p)
	}
	for s := range ss {
		sfx = append(sfx, s)
	}
	sort.Strings(pfx)
	sort.Strings(sfx)
	for _, k := range keys {
		p, s := split(k)
		pg = append(pg, sort.SearchStrings(pfx, p)+1)
		sf = append(sf, sort.SearchStrings(sfx, s)+1)
	}
	return
}

// OffOf maps a small positive offset id to a 40 bit record offset (bijective on ids < 2^40):
// the drivers log ids (TLC has 32 bit integers), the real code sees 5 byte offsets.
func OffOf(id int) uint64 {
	if id == 0 {
		return 0
	}
	return (uint64(id) * 0x9E3779B97) & 0xffffffffff
}

// IdOf is the inverse of OffOf for ids registered in the table
type OffTable struct{ ids map[uint64]int }

func NewOffTable(maxid int) *OffTable {
	t := &OffTable{ids: make(map[uint64]int, maxid)}
	for id := 1; id <= maxid; id++ {
		t.ids[OffOf(id)] = id
	}
	return t
}

// Id returns the id of a real offset, 0 for 0, and -1 for an offset that was never handed out
func (t *OffTable) Id(off uint64) int {
	if off == 0 {
		return 0
	}
	if id, ok := t.ids[off]; ok {
		return id
	}
	return -1
}
