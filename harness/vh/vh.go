// Package vh is the shared part of the verification harness drivers:
// ndjson trace writer, installation of the verif event sink, seeds.
package vh

import (
	"bufio"
	"encoding/json"
	"fmt"
	"os"
	"strconv"
	"sync"

	"github.com/apmckinlay/gsuneido/util/verif"
)

// Seed returns VERIF_SEED (default 1)
func Seed() int64 {
	if s := os.Getenv("VERIF_SEED"); s != "" {
		if n, err := strconv.ParseInt(s, 10, 64); err == nil {
			return n
		}
	}
	return 1
}

// Thorough reports whether VERIF_TIER=thorough
func Thorough() bool { return os.Getenv("VERIF_TIER") == "thorough" }

// Ev is one trace line; keys are emitted in insertion order
type Ev struct {
	keys []string
	vals []any
}

func E(name string, kv ...any) *Ev {
	e := &Ev{}
	e.Add("e", name)
	e.AddKV(kv)
	return e
}

func (e *Ev) Add(k string, v any) *Ev {
	e.keys = append(e.keys, k)
	e.vals = append(e.vals, v)
	return e
}

func (e *Ev) AddKV(kv []any) *Ev {
	for i := 0; i+1 < len(kv); i += 2 {
		e.Add(kv[i].(string), kv[i+1])
	}
	return e
}

func (e *Ev) Get(k string) any {
	for i, kk := range e.keys {
		if kk == k {
			return e.vals[i]
		}
	}
	return nil
}

func (e *Ev) MarshalJSON() ([]byte, error) {
	buf := []byte{'{'}
	for i, k := range e.keys {
		if i > 0 {
			buf = append(buf, ',')
		}
		kb, _ := json.Marshal(k)
		buf = append(buf, kb...)
		buf = append(buf, ':')
		vb, err := json.Marshal(e.vals[i])
		if err != nil {
			return nil, fmt.Errorf("key %s: %w", k, err)
		}
		buf = append(buf, vb...)
	}
	return append(buf, '}'), nil
}

var flushEach = os.Getenv("VERIF_FLUSH") == "1"

// Trace is a concurrent-safe ndjson writer
type Trace struct {
	mu sync.Mutex
	f  *os.File
	w  *bufio.Writer
	N  int
}

func Create(path string) *Trace {
	f, err := os.Create(path)
	if err != nil {
		Fatal("create trace: %v", err)
	}
	return &Trace{f: f, w: bufio.NewWriterSize(f, 1<<20)}
}

func (t *Trace) Emit(e *Ev) {
	b, err := json.Marshal(e)
	if err != nil {
		Fatal("marshal: %v", err)
	}
	t.mu.Lock()
	t.w.Write(b)
	t.w.WriteByte('\n')
	t.N++
	if flushEach {
		t.w.Flush()
	}
	t.mu.Unlock()
}

func (t *Trace) Reset() { t.Emit(E("Reset")) }

func (t *Trace) Close() {
	t.mu.Lock()
	defer t.mu.Unlock()
	t.w.Flush()
	t.f.Close()
}

// Fatal reports a harness (infrastructure) error: exit status 2, never a violation
func Fatal(format string, a ...any) {
	fmt.Fprintf(os.Stderr, "HARNESS-ERROR: "+format+"\n", a...)
	os.Exit(97)
}

// SetSink installs f as the receiver of verif events (nil removes it)
func SetSink(f func(seq int64, ev string, kv []any)) {
	if !verif.On {
		Fatal("harness built without -tags verif")
	}
	if f == nil {
		verif.Sink.Store(nil)
		return
	}
	verif.Sink.Store(&f)
}

// SetGate installs f as the gate function (nil removes it)
func SetGate(f func(point string, kv []any)) {
	if f == nil {
		verif.GateFn.Store(nil)
		return
	}
	verif.GateFn.Store(&f)
}

// Summary prints a one-line machine readable summary for the runner
func Summary(kv ...any) {
	e := &Ev{}
	e.AddKV(kv)
	b, _ := json.Marshal(e)
	fmt.Printf("SUMMARY %s\n", b)
}
