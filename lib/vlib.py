"""Shared runner library for /verif checks.

Every check is a python module checks/<id>.py with a function run(ctx).
Verdict policy (DESIGN.md 2.5):
  exit 0  property held on everything explored (KNOWN-FINDING lines allowed)
  exit 1  a recorded REAL execution was rejected by the trace spec  -> VIOLATION line
  exit 2  infrastructure problem (build failure, TLC crash, spec-only counterexample,
          dead driver, timeout, vacuity) -- never a violation
"""
import json, os, re, shutil, subprocess, sys, time, glob, hashlib

VERIF = os.path.dirname(os.path.dirname(os.path.abspath(__file__)))
REPO = os.environ.get("VERIF_REPO", "/repo")
HARNESS = os.path.join(VERIF, "harness")
SPEC = os.path.join(VERIF, "spec")
OVERLAY_DIR = os.path.join(HARNESS, "overlay")
TLA_JAR = "/opt/veriftools/tla/tla2tools.jar"


class Infra(Exception):
    """infrastructure error -> exit 2"""


class Violation(Exception):
    def __init__(self, msg, replay=None):
        super().__init__(msg)
        self.replay = replay


def goenv():
    env = dict(os.environ)
    env["GOFLAGS"] = "-mod=mod"
    env["GOPROXY"] = "off"
    env.pop("GOSUMDB", None)
    env.setdefault("GOTOOLCHAIN", "auto")
    if env.get("GOTOOLCHAIN") == "local":
        env["GOTOOLCHAIN"] = "auto"
    return env


def ensure_overlay():
    """generate throw-away cert pair + overlay.json (needed to build dbms & friends).
    Returns (overlay path, extra go flags). With VERIF_REPO set to another checkout
    (scratch worktree for mutation testing) an alternative go.mod is used via -modfile."""
    if REPO == "/repo":
        odir, extra = OVERLAY_DIR, []
        shutil.copyfile(os.path.join(REPO, "go.sum"), os.path.join(HARNESS, "go.sum"))
    else:
        tag = hashlib.sha1(REPO.encode()).hexdigest()[:10]
        odir = os.path.join(VERIF, ".work", "alt-" + tag)
        os.makedirs(odir, exist_ok=True)
        mod = open(os.path.join(HARNESS, "go.mod")).read().replace("=> /repo", "=> " + REPO)
        with open(os.path.join(odir, "go.mod"), "w") as f:
            f.write(mod)
        shutil.copyfile(os.path.join(REPO, "go.sum"), os.path.join(odir, "go.sum"))
        extra = ["-modfile", os.path.join(odir, "go.mod")]
    ov = os.path.join(odir, "overlay.json")
    if os.path.exists(ov) and os.path.exists(os.path.join(odir, "server.crt")):
        return ov, extra
    r = subprocess.run(["go", "run"] + extra + ["./cmd/gencert", odir, REPO], cwd=HARNESS,
                       env=goenv(), capture_output=True, text=True)
    if r.returncode != 0:
        raise Infra("gencert failed: " + r.stdout + r.stderr)
    return ov, extra


class Ctx:
    def __init__(self, pid, tier, seed, replay=None):
        self.id = pid
        self.tier = tier
        self.seed = seed
        self.replay = replay
        self.t0 = time.time()
        self.work = os.path.join(VERIF, ".work", "%s-%s-%d" % (pid, tier, os.getpid()))
        shutil.rmtree(self.work, ignore_errors=True)
        os.makedirs(self.work)
        self.ntlc = 0
        self.cov = {
            "states": 0, "transitions": 0, "traces_validated_against_impl": 0,
            "events_validated": 0, "samples": [], "exhaustive": True,
            "tlc_runs": [], "driver_runs": [], "hooks_on": True,
        }
        self.assumptions = []
        self.violations = 0
        self.known = []
        self.level = "model_checking"
        self._known_entries = None

    # ---------------------------------------------------------------- utils
    def log(self, *a):
        print("[%s %s %5.1fs]" % (self.id, self.tier, time.time() - self.t0), *a, flush=True)

    def thorough(self):
        return self.tier == "thorough"

    def run(self, cmd, timeout, cwd=None, env=None, check=False):
        e = dict(os.environ)
        e["VERIF_SEED"] = str(self.seed)
        e["VERIF_TIER"] = self.tier
        if env:
            e.update(env)
        try:
            r = subprocess.run(cmd, cwd=cwd or self.work, env=e, capture_output=True,
                               text=True, timeout=timeout, errors="replace")
        except subprocess.TimeoutExpired as ex:
            out = (ex.stdout or b"")
            if isinstance(out, bytes):
                out = out.decode(errors="replace")
            raise Infra("timeout after %ss: %s\n%s" % (timeout, cmd, out[-2000:]))
        if check and r.returncode != 0:
            raise Infra("command failed rc=%d: %s\n%s" % (r.returncode, cmd, (r.stdout + r.stderr)[-4000:]))
        return r.returncode, r.stdout, r.stderr

    # ---------------------------------------------------------------- go
    def go_build(self, name, tags="verif"):
        """build harness/cmd/<name> from /repo's current working tree with hooks on"""
        ov, extra = ensure_overlay()
        out = os.path.join(self.work, "bin", name)
        os.makedirs(os.path.dirname(out), exist_ok=True)
        cmd = ["go", "build"] + extra + ["-tags", tags, "-overlay", ov, "-o", out, "./cmd/" + name]
        r = subprocess.run(cmd, cwd=HARNESS, env=goenv(), capture_output=True, text=True)
        if r.returncode != 0:
            raise Infra("go build %s failed:\n%s" % (name, (r.stdout + r.stderr)[-6000:]))
        return out

    def driver(self, binpath, args, timeout, env=None, name=None):
        """run a driver; returns (rc, stdout, summary dict from the last SUMMARY line)"""
        t = time.time()
        rc, out, err = self.run([binpath] + [str(a) for a in args], timeout, env=env)
        if rc == 97 or "HARNESS-ERROR" in err:
            raise Infra("driver error: %s %s\n%s" % (binpath, args, (out + err)[-4000:]))
        summ = {}
        for line in out.splitlines():
            if line.startswith("SUMMARY "):
                try:
                    summ = json.loads(line[8:])
                except Exception:
                    pass
        self.cov["driver_runs"].append({"driver": name or os.path.basename(binpath),
                                        "args": [str(a) for a in args], "rc": rc,
                                        "wall_s": round(time.time() - t, 2), "summary": summ})
        return rc, out + err, summ

    # ---------------------------------------------------------------- TLC
    def _tlc_dir(self, files):
        self.ntlc += 1
        d = os.path.join(self.work, "tlc%d" % self.ntlc)
        os.makedirs(d)
        for sub in ("", "mc", "trace"):
            for f in glob.glob(os.path.join(SPEC, sub, "*.tla")) + glob.glob(os.path.join(SPEC, sub, "*.cfg")):
                shutil.copy(f, d)
        for f in files:
            shutil.copy(f, d)
        return d

    def tlc_mc(self, module, cfg, workers=16, timeout=600, simulate=None, expect_violation=None,
               coverage=False, extra_args=(), count=True, label=None, heap=None):
        """exhaustive (or simulation) model checking of spec/mc config.
        Returns dict. A property violation on the SPEC ALONE is an infrastructure error
        (spec-only counterexample, DESIGN 2.5) unless expect_violation names it."""
        d = self._tlc_dir([])
        cmd = ["tlc", "-workers", str(workers), "-metadir", os.path.join(d, "md"),
               "-config", cfg]
        if coverage:
            cmd += ["-coverage", "1"]
        if simulate:
            cmd += ["-simulate", simulate]
        cmd += list(extra_args) + [module]
        t = time.time()
        env = {}
        if heap:
            env["TLC_HEAP"] = heap
        try:
            rc, out, err = self.run(cmd, timeout, cwd=d, env=env)
        except Infra as ex:
            if simulate:   # simulation under an outer timeout is expected to be cut
                out, rc = str(ex), -1
            else:
                raise
        out = out + (err if rc >= 0 else "")
        res = {"module": module, "cfg": cfg, "rc": rc, "wall_s": round(time.time() - t, 2),
               "simulate": simulate or ""}
        m = re.findall(r"(\d+) states generated, (\d+) distinct states found, (\d+) states left", out)
        if m:
            res["generated"], res["distinct"], res["left"] = map(int, m[-1])
        m = re.search(r"depth of the complete state graph search is (\d+)", out)
        if m:
            res["depth"] = int(m.group(1))
        viol = re.search(r"Error: (Invariant (\S+) is violated|The invariant of (\S+) is equal to FALSE|Action property (\S+) is violated|Temporal properties were violated|Deadlock reached)", out)
        res["violated"] = viol.group(0) if viol else None
        res["completed"] = "Model checking completed. No error has been found." in out
        if label:
            res["label"] = label
        shutil.rmtree(os.path.join(d, "md"), ignore_errors=True)
        if expect_violation:
            if not viol or expect_violation not in viol.group(0):
                raise Infra("self-test: expected %s to be violated in %s/%s, got: %s\n%s" %
                            (expect_violation, module, cfg, res["violated"], out[-2000:]))
            res["expected_violation"] = expect_violation
            self.cov["tlc_runs"].append(res)
            self.log("TLC %s/%s: deviation config violates %s as expected (anti-vacuity)" % (module, cfg, expect_violation))
            return res
        if viol:
            with open(os.path.join(self.work, "spec-counterexample.txt"), "w") as f:
                f.write(out)
            keep = os.path.join(VERIF, "replays", "%s-spec-counterexample.txt" % self.id)
            shutil.copy(os.path.join(self.work, "spec-counterexample.txt"), keep)
            raise Infra("spec-only counterexample in %s/%s: %s (kept at %s) -- not a verdict about the code"
                        % (module, cfg, viol.group(0), keep))
        if not simulate and not res["completed"]:
            raise Infra("TLC did not complete %s/%s rc=%s:\n%s" % (module, cfg, rc, out[-3000:]))
        if simulate:
            self.cov["exhaustive"] = False
        if count and "distinct" in res:
            self.cov["states"] += res["distinct"]
            self.cov["transitions"] += res["generated"]
        res["out_tail"] = ""
        if coverage:
            res["never_enabled"] = re.findall(r"<(\w+) line \d+, col \d+ to line \d+, col \d+ of module \w+>: 0:0", out)
        self.cov["tlc_runs"].append(res)
        self.log("TLC %s/%s: %s distinct, %s generated, %.1fs" % (module, cfg, res.get("distinct"), res.get("generated"), res["wall_s"]))
        self._last_out = out
        return res

    def tlc_trace(self, module, cfg, tracefile, timeout=600, dfs=False, ntraces=None, extra_env=None):
        """validate a recorded trace of the REAL code against a trace spec.
        Returns dict(accepted, line, reason). Does not raise on rejection."""
        d = self._tlc_dir([])
        env = {"VERIF_TRACE": os.path.abspath(tracefile)}
        if extra_env:
            env.update(extra_env)
        # TLC evaluates long traces / large records recursively: the default 1 MB thread stack
        # overflows (StackOverflowError is an infrastructure problem, not a verdict)
        jopts = "-Xss512m"
        if dfs:
            jopts += " -Dtlc2.tool.queue.IStateQueue=StateDeque"
        if "JAVA_TOOL_OPTIONS" not in env:
            env["JAVA_TOOL_OPTIONS"] = jopts
        cmd = ["tlc", "-workers", "1", "-metadir", os.path.join(d, "md"), "-config", cfg, module]
        t = time.time()
        rc, out, err = self.run(cmd, timeout, cwd=d, env=env)
        out += err
        shutil.rmtree(os.path.join(d, "md"), ignore_errors=True)
        nlines = sum(1 for _ in open(tracefile))
        res = {"module": module, "cfg": cfg, "rc": rc, "events": nlines,
               "wall_s": round(time.time() - t, 2)}
        m = re.findall(r"(\d+) states generated, (\d+) distinct states found", out)
        if m:
            res["generated"], res["distinct"] = map(int, m[-1])
            self.cov["trace_validation_states"] = self.cov.get("trace_validation_states", 0) + res["distinct"]
        rej = re.search(r'"REJECTED",\s*(\d+)', out)
        inv = re.search(r"Error: (Invariant (\S+) is violated|Action property (\S+) is violated)", out)
        if "TRACE-ACCEPTED" in out and not inv and rc == 0:
            res["accepted"] = True
        elif rej:
            res["accepted"] = False
            res["line"] = int(rej.group(1))
            res["reason"] = "no spec action explains trace line %d" % res["line"]
        elif inv:
            res["accepted"] = False
            ls = re.findall(r"\bl = (\d+)", out)
            res["line"] = int(ls[-1]) - 1 if ls else 0
            res["reason"] = inv.group(1) + " after trace line %d" % res["line"]
        else:
            raise Infra("trace validation did not produce a verdict (%s/%s rc=%d):\n%s" % (module, cfg, rc, out[-4000:]))
        res["out"] = out[-3000:]
        if res["accepted"]:
            self.cov["events_validated"] += nlines
            if ntraces is None:
                ntraces = sum(1 for l in open(tracefile) if '"e":"Reset"' in l) + 1
            self.cov["traces_validated_against_impl"] += ntraces
        self.log("trace %s %s: %d events, %s, %.1fs" % (module, os.path.basename(tracefile), nlines,
                 "accepted" if res["accepted"] else "REJECTED line %s" % res.get("line"), res["wall_s"]))
        return res

    # ---------------------------------------------------------------- verdicts
    def known_entries(self):
        if self._known_entries is None:
            self._known_entries = []
            p = os.path.join(VERIF, "known-findings.txt")
            if os.path.exists(p):
                for line in open(p):
                    line = line.strip()
                    m = re.match(r"finding:\s+property=(\S+)\s+key=(\S+)\s*(.*)", line)
                    if m:
                        self._known_entries.append((m.group(1), m.group(2), m.group(3)))
        return self._known_entries

    def is_known(self, key):
        for pid, k, desc in self.known_entries():
            if pid == self.id and k == key:
                return desc or key
        return None

    def report_rejection(self, tracefile, res, key=None, what=None):
        """a real execution was rejected. key identifies the specific failing step for
        known-findings matching."""
        if key is not None:
            desc = self.is_known(key)
            if desc is not None:
                msg = "KNOWN-FINDING: property=%s key=%s %s" % (self.id, key, desc)
                if msg not in self.known:
                    self.known.append(msg)
                    print(msg, flush=True)
                return False
        os.makedirs(os.path.join(VERIF, "replays"), exist_ok=True)
        dst = os.path.join(VERIF, "replays", "%s%s-%s-seed%d%s" % ("" if REPO == "/repo" else "scratch-", self.id, self.tier, self.seed,
                           os.path.splitext(tracefile)[1] or ".ndjson"))
        # keep only the trace (segment) containing the rejected line, if we can tell
        try:
            lines = open(tracefile).read().splitlines()
            ln = res.get("line", 0)
            start = 0
            for i in range(min(ln, len(lines)) - 1, -1, -1):
                if '"e":"Reset"' in lines[i]:
                    start = i
                    break
            end = len(lines)
            for i in range(max(ln, 0), len(lines)):
                if '"e":"Reset"' in lines[i]:
                    end = i
                    break
            seg = lines[start:end]
            if seg and '"e":"Reset"' in seg[0]:
                seg = seg[1:]
            with open(dst, "w") as f:
                f.write("\n".join(seg) + "\n")
            bad = lines[ln - 1] if 0 < ln <= len(lines) else ""
        except Exception:
            shutil.copy(tracefile, dst)
            bad = ""
        self.violations += 1
        print("REJECTED: %s: %s" % (what or res.get("reason", ""), bad[:600]), flush=True)
        print("VIOLATION property=%s replay=%s" % (self.id, dst), flush=True)
        return True

    def violation(self, replay_path, what):
        self.violations += 1
        print("REJECTED: %s" % what, flush=True)
        print("VIOLATION property=%s replay=%s" % (self.id, replay_path), flush=True)

    def sample(self, s):
        if len(self.cov["samples"]) < 8:
            self.cov["samples"].append(s)

    def sample_trace_lines(self, tracefile, n=3, kind="real trace excerpt"):
        try:
            with open(tracefile) as f:
                lines = [next(f).strip() for _ in range(n)]
            self.sample({"kind": kind, "file": os.path.basename(tracefile), "lines": [l[:400] for l in lines]})
        except Exception:
            pass

    # ---------------------------------------------------------------- evidence
    def write_evidence(self):
        cov = dict(self.cov)
        for r in cov["tlc_runs"]:
            r.pop("out_tail", None)
        if not cov["samples"]:
            cov["samples"] = ["(no sample recorded)"]
        ev = {
            "property_id": self.id, "tier": self.tier, "seed": self.seed,
            "level": self.level, "coverage": cov,
            "assumptions": self.assumptions,
            "wall_s": round(time.time() - self.t0, 2),
            "violations": self.violations,
            "known_findings_reported": self.known,
        }
        # evidence/ only ever describes runs against /repo itself with the full check;
        # runs against a scratch worktree (mutation / seed testing) or with development
        # shortcuts write elsewhere
        edir = os.path.join(VERIF, "evidence")
        if REPO != "/repo" or any(os.environ.get(k) for k in os.environ if k.startswith("VERIF_") and k.endswith("SKIP_MC")):
            edir = os.path.join(VERIF, ".work", "evidence-scratch")
        os.makedirs(edir, exist_ok=True)
        p = os.path.join(edir, self.id + ".json")
        with open(p, "w") as f:
            json.dump(ev, f, indent=1)
        return p

    def cleanup(self):
        shutil.rmtree(self.work, ignore_errors=True)
        try:
            os.rmdir(os.path.join(VERIF, ".work"))
        except OSError:
            pass


def main(argv):
    import importlib.util
    if len(argv) < 3:
        print("usage: vcheck <Cnn> quick|thorough [--replay path]")
        return 2
    pid, tier = argv[1], argv[2]
    replay = None
    if tier == "--replay":
        tier, replay = "quick", argv[3]
    elif len(argv) >= 5 and argv[3] == "--replay":
        replay = argv[4]
    seed = int(os.environ.get("VERIF_SEED", "1") or 1)
    os.environ["VERIF_TIER"] = tier
    path = os.path.join(VERIF, "checks", pid + ".py")
    if not os.path.exists(path):
        print("no check for", pid)
        return 2
    spec = importlib.util.spec_from_file_location("check_" + pid, path)
    mod = importlib.util.module_from_spec(spec)
    sys.path.insert(0, os.path.join(VERIF, "lib"))
    sys.path.insert(0, os.path.join(VERIF, "checks"))
    spec.loader.exec_module(mod)
    ctx = Ctx(pid, tier, seed, replay)
    rc = 0
    try:
        mod.run(ctx)
        ctx.write_evidence()
        rc = 1 if ctx.violations else 0
    except Infra as ex:
        print("INFRA-ERROR (exit 2, not a verdict): %s" % ex, flush=True)
        rc = 2
    except Exception as ex:
        import traceback
        traceback.print_exc()
        print("INFRA-ERROR (exit 2, not a verdict): %r" % ex, flush=True)
        rc = 2
    finally:
        if os.environ.get("VERIF_KEEP") != "1":
            ctx.cleanup()
    if rc == 0:
        print("OK property=%s tier=%s seed=%d wall=%.1fs" % (pid, tier, seed, time.time() - ctx.t0))
    return rc
