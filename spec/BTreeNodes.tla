----------------------------- MODULE BTreeNodes -----------------------------
(* Node-level model of db19/index/btree/merge.go (C10, design level).          *)
(*                                                                             *)
(* MergeAndSave keeps a PATH from the root to the current leaf so that dense   *)
(* batches do not search from the root for every entry; every node on the path *)
(* carries the upper LIMIT of the key range it is responsible for (inherited   *)
(* from the ancestors when the node is the right-most child). Entries arrive   *)
(* in key order; advanceTo ascends only as far as necessary and descends       *)
(* again; modified nodes are copied (path copying: the old tree stays valid),  *)
(* full nodes are split (separator = a value in (prev, next]), emptied leaves  *)
(* are removed from their parents, emptied tree nodes likewise, a root with a  *)
(* single child is replaced by that child. This module transcribes that        *)
(* algorithm operator by operator (names as in merge.go) over an append-only   *)
(* store, and states what it must achieve:                                     *)
(*   - the new tree contains exactly MergeBatch(old content, batch)            *)
(*     (OrdMapOps, the abstract semantics the real btree is replayed against)  *)
(*   - every node respects the ordering / separator / non-empty invariants     *)
(*     that btree.Check() tests, count is exact                                *)
(*   - the OLD version still has its old content (immutable persistence)       *)
(* Keys are the even numbers 2, 4, ..; separators may be odd (strictly between *)
(* two keys) or equal to the right key -- both extremes of the code's "shortest *)
(* distinguishing prefix" are explored through SepMax.                          *)
EXTENDS OrdMapOps, Integers

CONSTANTS NK,        \* keys are 2, 4, ..., 2 * NK
          Split,     \* splitCount: a node with more than Split entries is split
          MaxBatches,
          SepMax,    \* TRUE: separator = the right key, FALSE: left key + 1
          DevContainsLE,   \* deviation (self-test): leaf range test uses key <= limit
          DevNoInherit     \* deviation (self-test): right-most child does not inherit the parent's limit

VARIABLES stor,   \* append-only sequence of nodes; a node's offset is its index
          bt,     \* current tree [root, levels, count]
          old,    \* previous tree handle
          m,      \* abstract content of bt    (sequence over 1..NK, 0 = absent, OrdMapOps)
          mold,   \* abstract content of old
          aok,    \* observation: the assertions of modify() held during the last merge
          nb

vars == <<stor, bt, old, m, mold, aok, nb>>

KeyOf(r) == 2 * r
Leaf(ks, vs) == [leaf |-> TRUE, ks |-> ks, vs |-> vs, seps |-> <<>>, kids |-> <<>>]
Tree(seps, kids) == [leaf |-> FALSE, ks |-> <<>>, vs |-> <<>>, seps |-> seps, kids |-> kids]
EmptyLeaf == Leaf(<<>>, <<>>)
Noffs(nd) == IF nd.leaf THEN Len(nd.ks) ELSE Len(nd.kids)

InsAt(s, i, x) == SubSeq(s, 1, i - 1) \o <<x>> \o SubSeq(s, i, Len(s))
DelAt(s, i) == SubSeq(s, 1, i - 1) \o SubSeq(s, i + 1, Len(s))
Last(s) == s[Len(s)]
Front(s) == SubSeq(s, 1, Len(s) - 1)
SetLast(s, x) == [s EXCEPT ![Len(s)] = x]

\* treeNode.search: the child for key = 1 + number of separators <= key
TSearch(nd, key) == 1 + Cardinality({i \in 1..Len(nd.seps) : nd.seps[i] <= key})
\* leafNode.search: position of the first key >= key
LSearch(nd, key) == 1 + Cardinality({i \in 1..Len(nd.ks) : nd.ks[i] < key})
LFound(nd, key) == \E i \in 1..Len(nd.ks) : nd.ks[i] = key

\* separator for a split between keys a < b (builder.sep / leafNode.splitTo): a value in (a, b]
Sep(a, b) == IF SepMax THEN b ELSE a + 1

----------------------------------------------------------------------------
(* the merge state (merge.go: state, treeMerge, leafMerge). limit 0 = no limit; leaf.off 0 = no leaf *)
NoLeaf == [limit |-> 0, node |-> EmptyLeaf, off |-> 0, mod |-> FALSE]
TM(off, node, limit) == [limit |-> limit, node |-> node, off |-> off, pos |-> 0, mod |-> FALSE]

HaveLeaf(st) == st.leaf.off # 0
Within(limit, key) == limit = 0 \/ (IF DevContainsLE THEN key <= limit ELSE key < limit)
HaveLast(st) == Len(st.tree) > 0 \/ HaveLeaf(st)
LastContains(st, key) == IF HaveLeaf(st) THEN Within(st.leaf.limit, key)
                         ELSE IF Len(st.tree) > 0 THEN Within(Last(st.tree).limit, key) ELSE FALSE

Write(st, nd) == [st EXCEPT !.stor = Append(st.stor, nd)]     \* the new offset is Len(result.stor)

UpdateParent(st, off) ==
    IF Len(st.tree) = 0 THEN [st EXCEPT !.root = off]
    ELSE LET tm == Last(st.tree) IN
         [st EXCEPT !.tree = SetLast(st.tree, [tm EXCEPT !.node.kids[tm.pos] = off, !.mod = TRUE])]

Ascend(st) ==
    IF HaveLeaf(st)
    THEN LET lm == st.leaf
             st1 == [st EXCEPT !.leaf = NoLeaf] IN
         IF ~lm.mod THEN st1
         ELSE LET st2 == Write(st1, lm.node) IN UpdateParent(st2, Len(st2.stor))
    ELSE LET tm == Last(st.tree)
             st1 == [st EXCEPT !.tree = Front(st.tree)] IN
         IF ~tm.mod THEN st1
         ELSE LET st2 == Write(st1, tm.node) IN UpdateParent(st2, Len(st2.stor))

\* limit of child pos of a tree node on the path
ChildLimit(tm, pos) ==
    LET own == IF pos <= Len(tm.node.seps) THEN tm.node.seps[pos] ELSE 0 IN
    IF own = 0 /\ ~DevNoInherit THEN tm.limit ELSE own

RECURSIVE DescendTree(_, _)
DescendTree(st, key) ==
    IF Len(st.tree) >= st.levels THEN st
    ELSE IF Len(st.tree) = 0
         THEN DescendTree([st EXCEPT !.tree = <<TM(st.root, st.stor[st.root], 0)>>], key)
         ELSE LET tm == Last(st.tree)
                  pos == TSearch(tm.node, key)
                  off == tm.node.kids[pos]
                  tm2 == [tm EXCEPT !.pos = pos] IN
              DescendTree([st EXCEPT !.tree = Append(SetLast(st.tree, tm2), TM(off, st.stor[off], ChildLimit(tm, pos)))], key)

DescendToLeaf(st, key) ==
    LET st1 == DescendTree(st, key) IN
    IF st1.levels = 0
    THEN [st1 EXCEPT !.leaf = [limit |-> 0, node |-> st1.stor[st1.root], off |-> st1.root, mod |-> FALSE]]
    ELSE LET tm == Last(st1.tree)
             pos == TSearch(tm.node, key)
             off == tm.node.kids[pos] IN
         [st1 EXCEPT !.tree = SetLast(st1.tree, [tm EXCEPT !.pos = pos]),
                     !.leaf = [limit |-> ChildLimit(tm, pos), node |-> st1.stor[off], off |-> off, mod |-> FALSE]]

RECURSIVE AscendWhile(_, _)
AscendWhile(st, key) == IF HaveLast(st) /\ ~LastContains(st, key) THEN AscendWhile(Ascend(st), key) ELSE st

AdvanceTo(st, key) ==
    IF Len(st.tree) = st.levels /\ HaveLeaf(st) /\ Within(st.leaf.limit, key) THEN st
    ELSE DescendToLeaf(AscendWhile(st, key), key)

\* treeNode.delete(pos): remove child pos (and a separator); the last child takes the last separator with it
TDelete(nd, pos) ==
    IF Len(nd.kids) <= 1 THEN Tree(<<>>, <<>>)
    ELSE Tree(DelAt(nd.seps, IF pos > Len(nd.seps) THEN Len(nd.seps) ELSE pos), DelAt(nd.kids, pos))

SetBtreeEmpty(st) ==
    LET st1 == Write([st EXCEPT !.levels = 0, !.tree = <<>>], EmptyLeaf) IN
    [st1 EXCEPT !.root = Len(st1.stor),
                !.leaf = [limit |-> 0, node |-> EmptyLeaf, off |-> Len(st1.stor), mod |-> FALSE]]

\* "pop single child root(s)"
RECURSIVE PopRoots(_)
PopRoots(st) ==
    IF st.levels = 0 THEN st
    ELSE LET st1 == IF Len(st.tree) = 0 THEN [st EXCEPT !.tree = <<TM(st.root, st.stor[st.root], 0)>>] ELSE st
             tm == st1.tree[1] IN
         IF Len(tm.node.kids) > 1 THEN st1
         ELSE PopRoots([st1 EXCEPT !.root = tm.node.kids[1], !.tree = SubSeq(st1.tree, 2, Len(st1.tree)),
                                   !.levels = st1.levels - 1])

\* the loop of dropLeaf over the path; returns [st, done] (done: a non-empty non-root node remained)
RECURSIVE DropUp(_)
DropUp(st) ==
    IF Len(st.tree) = 0 THEN [st |-> st, done |-> FALSE]
    ELSE LET tm == Last(st.tree)
             nd == TDelete(tm.node, tm.pos)
             pos == IF tm.pos > Len(nd.kids) THEN Len(nd.kids) ELSE tm.pos
             st1 == [st EXCEPT !.tree = SetLast(st.tree, [tm EXCEPT !.node = nd, !.pos = pos, !.mod = TRUE])] IN
         IF Len(st.tree) = 1 THEN [st |-> st1, done |-> FALSE]
         ELSE IF Len(nd.kids) > 0 THEN [st |-> st1, done |-> TRUE]
         ELSE DropUp([st1 EXCEPT !.tree = Front(st1.tree)])

DropLeaf(st) ==
    LET r == DropUp([st EXCEPT !.leaf = NoLeaf]) IN
    IF r.done THEN r.st
    ELSE IF r.st.levels = 0 \/ Len(r.st.tree[1].node.kids) = 0 THEN SetBtreeEmpty(r.st)
    ELSE PopRoots(r.st)

\* propagate a split (leftOff, rightOff, splitKey) up the path
RECURSIVE SplitUp(_, _, _, _)
SplitUp(st, leftOff, rightOff, splitKey) ==
    IF Len(st.tree) = 0
    THEN LET st1 == Write(st, Tree(<<splitKey>>, <<leftOff, rightOff>>)) IN      \* new root
         [st1 EXCEPT !.levels = st.levels + 1, !.root = Len(st1.stor),
                     !.tree = <<TM(Len(st1.stor), Tree(<<splitKey>>, <<leftOff, rightOff>>), 0)>>]
    ELSE LET tm == Last(st.tree)
             nd == Tree(InsAt(tm.node.seps, tm.pos, splitKey),
                        InsAt([tm.node.kids EXCEPT ![tm.pos] = rightOff], tm.pos, leftOff))
             st1 == [st EXCEPT !.tree = SetLast(st.tree, [tm EXCEPT !.node = nd, !.mod = TRUE])] IN
         IF Len(nd.kids) <= Split THEN st1
         ELSE LET sp == Len(nd.seps) \div 2                     \* 0-based position of the key that moves up
                  left == Tree(SubSeq(nd.seps, 1, sp), SubSeq(nd.kids, 1, sp + 1))
                  right == Tree(SubSeq(nd.seps, sp + 2, Len(nd.seps)), SubSeq(nd.kids, sp + 2, Len(nd.kids)))
                  st2 == Write(Write([st1 EXCEPT !.tree = Front(st1.tree)], left), right) IN
              SplitUp(st2, Len(st2.stor) - 1, Len(st2.stor), nd.seps[sp + 1])

SplitLeaf(st) ==
    LET nd == st.leaf.node
        n == Len(nd.ks)
        sp == n \div 2
        left == Leaf(SubSeq(nd.ks, 1, sp), SubSeq(nd.vs, 1, sp))
        right == Leaf(SubSeq(nd.ks, sp + 1, n), SubSeq(nd.vs, sp + 1, n))
        st1 == Write(Write([st EXCEPT !.leaf = NoLeaf], left), right) IN
    SplitUp(st1, Len(st1.stor) - 1, Len(st1.stor), Sep(nd.ks[sp], nd.ks[sp + 1]))

\* updateLeaf + modify; c = [k (rank), op, off]; the asserts of modify are part of ValidBatch
UpdateLeaf(st, c) ==
    LET key == KeyOf(c.k)
        nd == st.leaf.node
        i == LSearch(nd, key)
        nd2 == CASE c.op = "add" -> Leaf(InsAt(nd.ks, i, key), InsAt(nd.vs, i, c.off))
                 [] c.op = "upd" -> Leaf(nd.ks, [nd.vs EXCEPT ![i] = c.off])
                 [] OTHER        -> Leaf(DelAt(nd.ks, i), DelAt(nd.vs, i))
        cnt == CASE c.op = "add" -> st.count + 1 [] c.op = "del" -> st.count - 1 [] OTHER -> st.count
        st1 == [st EXCEPT !.leaf.node = nd2, !.leaf.mod = TRUE, !.count = cnt] IN
    IF Len(nd2.ks) = 0 THEN DropLeaf(st1)
    ELSE IF Len(nd2.ks) > Split THEN SplitLeaf(st1)
    ELSE st1

RECURSIVE MergeLoop(_, _)
MergeLoop(st, b) == IF b = <<>> THEN st
                    ELSE MergeLoop(UpdateLeaf(AdvanceTo(st, KeyOf(Head(b).k)), Head(b)), Tail(b))
RECURSIVE Flush(_)
Flush(st) == IF HaveLeaf(st) \/ Len(st.tree) > 0 THEN Flush(Ascend(st)) ELSE st

\* the precondition the code asserts in modify(): the leaf reached really is the place of the key
RECURSIVE ModifyAsserts(_, _)
ModifyAsserts(st, b) ==
    IF b = <<>> THEN TRUE
    ELSE LET st1 == AdvanceTo(st, KeyOf(Head(b).k)) IN
         /\ (Head(b).op = "add") = ~LFound(st1.leaf.node, KeyOf(Head(b).k))
         /\ ModifyAsserts(UpdateLeaf(st1, Head(b)), Tail(b))

MergeAndSave(s, t, b) ==
    LET st0 == [stor |-> s, root |-> t.root, levels |-> t.levels, tree |-> <<>>, leaf |-> NoLeaf, count |-> 0]
        st == Flush(MergeLoop(st0, b)) IN
    [stor |-> st.stor, bt |-> [root |-> st.root, levels |-> st.levels, count |-> t.count + st.count],
     asserts |-> ModifyAsserts(st0, b)]

----------------------------------------------------------------------------
(* observation of a stored tree *)
RECURSIVE Entries(_, _, _), EntriesOf(_, _, _, _)
\* in-order <<key, value>> pairs of the subtree at off, lv tree levels above the leaves
Entries(s, off, lv) ==
    LET nd == s[off] IN
    IF lv = 0 THEN [i \in 1..Len(nd.ks) |-> <<nd.ks[i], nd.vs[i]>>]
    ELSE EntriesOf(s, nd.kids, 1, lv - 1)
EntriesOf(s, kids, i, lv) ==
    IF i > Len(kids) THEN <<>> ELSE Entries(s, kids[i], lv) \o EntriesOf(s, kids, i + 1, lv)
Content(s, t) == Entries(s, t.root, t.levels)
\* as a map over ranks (OrdMapOps representation)
AsMap(es) == [r \in 1..NK |-> IF \E i \in 1..Len(es) : es[i][1] = KeyOf(r)
                              THEN es[CHOOSE i \in 1..Len(es) : es[i][1] = KeyOf(r)][2] ELSE 0]

RECURSIVE TLookup(_, _, _, _)
TLookup(s, off, lv, key) ==
    LET nd == s[off] IN
    IF lv = 0 THEN (IF LFound(nd, key) THEN nd.vs[LSearch(nd, key)] ELSE 0)
    ELSE TLookup(s, nd.kids[TSearch(nd, key)], lv - 1, key)

\* what btree.Check() verifies, plus separator bounds: every key under child i lies in [seps[i-1], seps[i])
RECURSIVE NodeOK(_, _, _, _, _, _)
NodeOK(s, off, lv, lo, hi, isRoot) ==       \* lo <= keys < hi  (hi = 0: unbounded)
    LET nd == s[off] IN
    IF lv = 0
    THEN /\ nd.leaf
         /\ isRoot \/ Len(nd.ks) >= 1
         /\ Len(nd.ks) <= Split
         /\ \A i \in 1..(Len(nd.ks) - 1) : nd.ks[i] < nd.ks[i + 1]
         /\ \A i \in 1..Len(nd.ks) : lo <= nd.ks[i] /\ (hi = 0 \/ nd.ks[i] < hi)
    ELSE /\ ~nd.leaf
         /\ Len(nd.kids) = Len(nd.seps) + 1
         /\ Len(nd.kids) <= Split
         /\ isRoot => Len(nd.kids) >= 2
         /\ \A i \in 1..(Len(nd.seps) - 1) : nd.seps[i] < nd.seps[i + 1]
         /\ \A i \in 1..Len(nd.seps) : lo < nd.seps[i] /\ (hi = 0 \/ nd.seps[i] < hi)
         /\ \A i \in 1..Len(nd.kids) :
                NodeOK(s, nd.kids[i], lv - 1,
                       IF i = 1 THEN lo ELSE nd.seps[i - 1],
                       IF i <= Len(nd.seps) THEN nd.seps[i] ELSE hi, FALSE)
TreeOK(s, t) == NodeOK(s, t.root, t.levels, 0, 0, TRUE)

----------------------------------------------------------------------------
Init == /\ stor = <<EmptyLeaf>>
        /\ bt = [root |-> 1, levels |-> 0, count |-> 0]
        /\ old = bt
        /\ m = EmptyMap(NK) /\ mold = m
        /\ aok = TRUE
        /\ nb = 0

\* every valid batch for the current content: per key nothing or the change that is valid for it
\* (an update writes offset 2 so that it is observable)
Choices(mm, k) == IF mm[k] = 0 THEN {[k |-> k, op |-> "add", off |-> 1]}
                  ELSE {[k |-> k, op |-> "upd", off |-> 2], [k |-> k, op |-> "del", off |-> mm[k]]}
RECURSIVE BatchesFrom(_, _)
BatchesFrom(mm, k) == IF k > NK THEN {<<>>}
                      ELSE LET rest == BatchesFrom(mm, k + 1) IN
                           rest \cup {<<c>> \o r : c \in Choices(mm, k), r \in rest}

DoBatch(b) ==
    /\ b # <<>>
    /\ LET r == MergeAndSave(stor, bt, b) IN
        /\ aok' = r.asserts
        /\ stor' = r.stor
        /\ bt' = r.bt
    /\ old' = bt /\ mold' = m
    /\ m' = MergeBatch(m, b)
    /\ nb' = nb + 1

Next == nb < MaxBatches /\ \E b \in BatchesFrom(m, 1) : DoBatch(b)
Spec == Init /\ [][Next]_vars

----------------------------------------------------------------------------
\* modify() found every added key absent and every updated / deleted key present in the leaf it was
\* led to (assert.That(found) / assert.That(!found) in the code)
ModifyAssertsOK == aok
\* the new tree has exactly the batch applied (ordered, no duplicates), lookups agree, count exact
ContentOK == /\ AsMap(Content(stor, bt)) = m
             /\ Len(Content(stor, bt)) = Count(m)
             /\ \A r \in 1..NK : TLookup(stor, bt.root, bt.levels, KeyOf(r)) = m[r]
             /\ bt.count = Count(m)
\* every node respects ordering, separator and size invariants; no empty node except an empty root leaf
NodesOK == TreeOK(stor, bt)
\* immutable persistence: the previous version is untouched by the merge that produced the current one
OldVersionOK == /\ AsMap(Content(stor, old)) = mold
                /\ TreeOK(stor, old)
=============================================================================
