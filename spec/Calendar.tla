------------------------------ MODULE Calendar ------------------------------
(* Proleptic Gregorian calendar in mixed radix (C33; core/sudate.go,         *)
(* builtin/date.go).  A date-time is a 7-tuple of small integers             *)
(*     <<year, month, day, hour, minute, second, millisecond>>               *)
(* and NO operator of this module ever forms a total count of milliseconds   *)
(* (or seconds) since an epoch: TLC integers are 32-bit.  The largest        *)
(* quantities are a day number (days since 1700-01-01, a few 100 000) and a  *)
(* millisecond of the day (< 86 400 000).                                    *)
(*                                                                          *)
(* The module is purely definitional (no constants, no variables) so that    *)
(* the exhaustive model (mc/MC_Calendar.tla) and the trace specification     *)
(* (trace/TraceCalendar.tla) share one source of truth.  Two kinds of        *)
(* definitions:                                                              *)
(*  - the SPECIFICATION: leap rule, days in a month, the day number as the   *)
(*    count of days of the preceding years and months, the date of a day     *)
(*    number as its unique inverse, normalisation of overflowed fields by    *)
(*    carries/borrows (Normalize, Plus), differences (MinusDays, MinusMs as  *)
(*    a <<days, ms of day>> pair), chronological order (Cmp), the literal    *)
(*    text yyyymmdd[.hhmm[ss[mmm]]] (ParseLit);                              *)
(*  - TRANSCRIPTIONS of what the code does where it does something else:     *)
(*    julianDayNumber (MinusDays), SuDate.String.  TLC checks on a boundary  *)
(*    grid that they agree with the specification.                           *)
(* What "normalising the overflowed fields" means is taken from the code's   *)
(* documentation (NormalizeDate = Go's time.Date: "month, day, hour, min,    *)
(* sec, and nsec values may be outside their usual ranges and will be        *)
(* normalized during the conversion. For example, October 32 converts to     *)
(* November 1"): the month overflows into the year first, the time fields    *)
(* carry upwards into the day, and the (possibly overflowed) day is counted  *)
(* from the first of the normalised month.  So Jan 31 + 1 month = "Feb 31"   *)
(* = Mar 3 (Mar 2 in a leap year); nothing is clamped to the end of month.   *)
(* suneidoc date.Plus.md says only "returns a copy of the date with the      *)
(* specified units added" and does not contradict this.                      *)
EXTENDS Integers, Sequences

Yr(t)  == t[1]
Mon(t) == t[2]
Day(t)  == t[3]
Hr(t)  == t[4]
Mnt(t) == t[5]
Sec(t)  == t[6]
Msec(t) == t[7]

MinYear == 1700        \* core.DateBegin = 1700-01-01
MaxYear == 3000        \* core.DateEnd   = 3000-01-01 00:00:00.000 (the only value of that year)

MsPerDay == 86400000

----------------------------------------------------------------------------
(* The calendar *)

IsLeap(y) == (y % 4 = 0 /\ y % 100 # 0) \/ y % 400 = 0
YearLen(y) == IF IsLeap(y) THEN 366 ELSE 365
DaysInMonth(y, m) == IF m = 2 THEN (IF IsLeap(y) THEN 29 ELSE 28)
                     ELSE IF m \in {4, 6, 9, 11} THEN 30 ELSE 31

\* days of year y before the first of month m (m in 1..13; 13 = the whole year)
RECURSIVE SumMonths(_, _)
SumMonths(y, m) == IF m <= 1 THEN 0 ELSE SumMonths(y, m - 1) + DaysInMonth(y, m - 1)
CumNonLeap == <<0, 31, 59, 90, 120, 151, 181, 212, 243, 273, 304, 334, 365>>
DaysBeforeMonth(y, m) == CumNonLeap[m] + (IF m > 2 /\ IsLeap(y) THEN 1 ELSE 0)
ASSUME \A y \in {1900, 2000, 2023, 2024} : \A m \in 1..13 : DaysBeforeMonth(y, m) = SumMonths(y, m)

\* days from 0001-01-01 to the first of January of year y.  \div is the floor,
\* so the closed form is right for every integer y; its defining property is
\* the ASSUME below: consecutive values differ by the length of the year
DaysBeforeYear(y) == 365 * (y - 1) + (y - 1) \div 4 - (y - 1) \div 100 + (y - 1) \div 400
ASSUME \A y \in -1000..4500 : DaysBeforeYear(y + 1) - DaysBeforeYear(y) = YearLen(y)

\* day number: days since 1700-01-01 of the d-th day (d may be any integer:
\* overflowed days count on from the first of the month) of month m in 1..12
Base == DaysBeforeYear(MinYear)                 \* a constant: evaluated once by TLC
YearStart(y) == DaysBeforeYear(y) - Base        \* day number of y-01-01
DayNum3(y, m, d) == YearStart(y) + DaysBeforeMonth(y, m) + d - 1
DayNum(t) == DayNum3(Yr(t), Mon(t), Day(t))

\* the date of a day number: the unique <<y, m, d>> with 1 <= d <= DaysInMonth
\* and DayNum3(y, m, d) = n.  400 years are exactly 146097 days, so the year is
\* located with a linear estimate inside the 400-year cycle (no product exceeds
\* 146097 * 400) and then CHOSEN by the defining condition; no candidate =
\* TLC error, so the estimate is checked wherever it is used
YearOfDay(n) == LET e == MinYear + (n \div 146097) * 400 + ((n % 146097) * 400) \div 146097 IN
                CHOOSE y \in (e - 1)..(e + 1) : YearStart(y) <= n /\ n < YearStart(y + 1)
\* (TLC re-evaluates a LET definition at every use; values that are used several
\* times are therefore bound with  CHOOSE r \in {f(x) : x \in {e}} : TRUE, which
\* evaluates e once.  Only(S) = the element of a singleton.)
Only(S) == CHOOSE x \in S : TRUE
\* months have 28..31 days, so month m of the 0-based day k satisfies k/31 < m <= k/28 + 1
MonthOfDay(y, k) == CHOOSE m \in (k \div 32 + 1)..(IF k >= 308 THEN 12 ELSE k \div 28 + 1) :
                        DaysBeforeMonth(y, m) <= k /\ k < DaysBeforeMonth(y, m + 1)
DateYK(y, k) == Only({<<y, m, k - DaysBeforeMonth(y, m) + 1>> : m \in {MonthOfDay(y, k)}})  \* k = 0-based day of the year
DateInYear(n, y) == Only({DateYK(y, k) : k \in {n - YearStart(y)}})
DateOfDay(n) == Only({DateInYear(n, y) : y \in {YearOfDay(n)}})

\* well-formed = a date of the calendar (any year), in range = a SuDate value of
\* the supported range [1700-01-01, 3000-01-01 00:00:00.000]
WellFormed(t) == /\ Mon(t) \in 1..12
                 /\ Day(t) >= 1 /\ Day(t) <= DaysInMonth(Yr(t), Mon(t))
                 /\ Hr(t) \in 0..23 /\ Mnt(t) \in 0..59 /\ Sec(t) \in 0..59 /\ Msec(t) \in 0..999
InRange(t) == /\ WellFormed(t)
              /\ \/ Yr(t) >= MinYear /\ Yr(t) < MaxYear
                 \/ t = <<MaxYear, 1, 1, 0, 0, 0, 0>>

----------------------------------------------------------------------------
(* Normalisation of overflowed fields, addition *)

\* carry of a field with radix r: floor division, so that borrows of negative
\* values come out right (-1 ms = 999 ms and a borrow of one second)
Carry(x, r) == x \div r
Rest(x, r)  == x % r

\* any seven integers (|fields| small enough for 32 bits, see Bounded) -> date
Normalize(t) ==
    LET s1  == Sec(t) + Carry(Msec(t), 1000)
        mi1 == Mnt(t) + Carry(s1, 60)
        h1  == Hr(t) + Carry(mi1, 60)
        d1  == Day(t) + Carry(h1, 24)
        y1  == Yr(t) + Carry(Mon(t) - 1, 12)
        mo1 == Rest(Mon(t) - 1, 12) + 1
    IN Only({Only({<<ymd[1], ymd[2], ymd[3], Rest(hh, 24), Rest(mm, 60), Rest(ss, 60), Rest(Msec(t), 1000)>> :
                      ymd \in {DateOfDay(DayNum3(y1, mo1, Day(t) + Carry(hh, 24)))}}) :
                 ss \in {s1}, mm \in {mi1}, hh \in {h1}})

\* t + offsets o (7-tuple years..milliseconds), field by field, then normalised
\* (SuDate.Plus).  xd = extra days: a millisecond offset too large for 32 bits
\* is passed as xd * 86 400 000 + o[7].
PlusX(t, o, xd) == Normalize(<<Yr(t) + o[1], Mon(t) + o[2], Day(t) + o[3] + xd,
                               Hr(t) + o[4], Mnt(t) + o[5], Sec(t) + o[6], Msec(t) + o[7]>>)
Plus(t, o) == PlusX(t, o, 0)

Abs(x) == IF x < 0 THEN -x ELSE x
\* offsets for which every intermediate value above stays inside 32 bits and
\* the day number inside the range of YearOfDay
Bounded(o, xd) == /\ Abs(o[1]) <= 5000 /\ Abs(o[2]) <= 60000
                  /\ Abs(o[3]) <= 1000000 /\ Abs(xd) <= 1000000
                  /\ Abs(o[4]) <= 20000000 /\ Abs(o[5]) <= 1000000000
                  /\ Abs(o[6]) <= 2000000000 /\ Abs(o[7]) <= 2000000000

----------------------------------------------------------------------------
(* Differences and order *)

\* SuDate.MinusDays: whole days, times ignored
MinusDays(a, b) == DayNum(a) - DayNum(b)

\* millisecond of the day (< 86 400 000)
MsOfDay(t) == ((Hr(t) * 60 + Mnt(t)) * 60 + Sec(t)) * 1000 + Msec(t)

\* SuDate.MinusMs as <<q, r>> with a - b = q * 86 400 000 + r ms, 0 <= r < 86 400 000
MinusMs(a, b) == LET td == MsOfDay(a) - MsOfDay(b) IN
                 <<DayNum(a) - DayNum(b) + Carry(td, MsPerDay), Rest(td, MsPerDay)>>

\* time offsets (hours..milliseconds of o, plus o[3] + xd days) reduced on their
\* own to <<days, ms of day>>: the difference a date must have to the date it was
\* added to (when no years/months were added)
OffsetAsMs(o, xd) ==
    LET s1  == o[6] + Carry(o[7], 1000)
        mi1 == o[5] + Carry(s1, 60)
        h1  == o[4] + Carry(mi1, 60)
    IN <<o[3] + xd + Carry(h1, 24),
         ((Rest(h1, 24) * 60 + Rest(mi1, 60)) * 60 + Rest(s1, 60)) * 1000 + Rest(o[7], 1000)>>

Sign(x) == IF x < 0 THEN -1 ELSE IF x > 0 THEN 1 ELSE 0

\* chronological order = lexicographic order of the fields (SuDate.Compare)
RECURSIVE CmpFrom(_, _, _)
CmpFrom(a, b, i) == IF i > 7 THEN 0
                    ELSE IF a[i] < b[i] THEN -1
                    ELSE IF a[i] > b[i] THEN 1
                    ELSE CmpFrom(a, b, i + 1)
Cmp(a, b) == CmpFrom(a, b, 1)

\* order by elapsed time: sign of the <<days, ms>> difference
CmpByDiff(a, b) == LET q == MinusMs(a, b) IN IF q[1] # 0 THEN Sign(q[1]) ELSE Sign(q[2])

----------------------------------------------------------------------------
(* Transcriptions of the code *)

\* core/sudate.go julianDayNumber (Go's int64 division truncates; all operands
\* are positive here so it coincides with \div)
JulianDay(t) == LET a == (14 - Mon(t)) \div 12
                    y == Yr(t) + 4800 - a
                    m == Mon(t) + 12 * a - 3
                IN Day(t) + (153 * m + 2) \div 5 + 365 * y + y \div 4 - y \div 100 + y \div 400 - 32045

\* SuDate.String as a sequence of character codes: "#yyyymmdd", then nothing if
\* the time is 00:00:00.000, else ".hhmm", "ss" unless s = ms = 0, "mmm" unless ms = 0
Dig2(n) == <<48 + n \div 10, 48 + (n % 10)>>
Dig3(n) == <<48 + n \div 100, 48 + ((n \div 10) % 10), 48 + (n % 10)>>
Dig4(n) == <<48 + n \div 1000, 48 + ((n \div 100) % 10), 48 + ((n \div 10) % 10), 48 + (n % 10)>>
Literal(t) == <<35>> \o Dig4(Yr(t)) \o Dig2(Mon(t)) \o Dig2(Day(t)) \o
              (IF Hr(t) = 0 /\ Mnt(t) = 0 /\ Sec(t) = 0 /\ Msec(t) = 0 THEN <<>>
               ELSE <<46>> \o Dig2(Hr(t)) \o Dig2(Mnt(t)) \o
                    (IF Sec(t) = 0 /\ Msec(t) = 0 THEN <<>>
                     ELSE Dig2(Sec(t)) \o (IF Msec(t) = 0 THEN <<>> ELSE Dig3(Msec(t)))))

----------------------------------------------------------------------------
(* The literal format (DateFromLiteral): [#]yyyymmdd[.hhmm[ss[mmm]]] *)

IsDigit(c) == c >= 48 /\ c <= 57
\* value of the decimal digits s[from..to] (1-based, inclusive), 0 if beyond the end
RECURSIVE NumAt(_, _, _)
NumAt(s, from, to) == IF to > Len(s) \/ to < from THEN 0
                      ELSE NumAt(s, from, to - 1) * 10 + (s[to] - 48)
StripHash(s) == IF Len(s) > 0 /\ s[1] = 35 THEN Tail(s) ELSE s
\* shape: 8 digits, optionally '.' and 4, 6 or 9 digits
LitShape(s0) == LET s == StripHash(s0) IN
    /\ Len(s) \in {8, 13, 15, 18}
    /\ \A i \in 1..Len(s) : IF i = 9 THEN s[i] = 46 ELSE IsDigit(s[i])
\* the date-time a well-shaped literal denotes (fields as written)
LitFields(s0) == LET s == StripHash(s0) IN
    <<NumAt(s, 1, 4), NumAt(s, 5, 6), NumAt(s, 7, 8),
      NumAt(s, 10, 11), NumAt(s, 12, 13), NumAt(s, 14, 15), NumAt(s, 16, 18)>>
=============================================================================
