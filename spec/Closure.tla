------------------------------ MODULE Closure ------------------------------
(* Reference semantics of block scoping in Suneido (docs/Closures.md,        *)
(* docs/Closure_Changes.md; compile/ast/blocks.go, core/frame.go,            *)
(* core/interp.go, core/suclosure.go) as an environment-of-cells             *)
(* interpreter for a tiny language.                                          *)
(*                                                                           *)
(* A program is the body of the outermost function F plus the blocks nested  *)
(* in it.  Statements (records with the fields k v w c a id r b b2 vs):      *)
(*   const  v = c            inc  v = w + 1      dec  v = w - 1              *)
(*   copy   v = w            blk  v = {|a| b ; r }   (a = "": no parameter,  *)
(*                                 r = "": the block's value is 0)           *)
(*   call0  v = w()          call1c v = w(c)     call1v v = w(a)             *)
(*   ret    return w         throw  throw "boom"                             *)
(*   try    try { b } catch { b2 }                ifnz  if w isnt 0 { b }    *)
(*   rep    for v in ..c { b }      (v = 0, 1, .. c-1, and c after the loop) *)
(*   obs    return Object(vs...)                                             *)
(* Scopes: 0 = F, a block's id otherwise (ids are assigned in preorder).     *)
(*                                                                           *)
(* SCOPING MODEL (the property, C29):                                        *)
(*  - a name used in a scope denotes the storage of that name in the nearest *)
(*    enclosing scope (starting with the scope itself for parameters) that   *)
(*    uses it: Owner;  parameters hide outer variables;                      *)
(*  - storage used by more than one scope (shared) exists once per           *)
(*    invocation of F: every closure sees the others' updates, a captured    *)
(*    block parameter is one cell that each call of the block overwrites;    *)
(*  - storage used by a single block is private to each call of that block.  *)
(* Whether a block is compiled as a closure or as a plain function is not    *)
(* part of the model (so it can never change a result).                      *)
EXTENDS Integers, Sequences, FiniteSets, TLC

CONSTANTS MaxCallDepth      \* recursion fuel of the reference interpreter

Names == {"x", "y", "z", "f", "g", "h", "p", "q", "t", "u", "i"}

\* values: <<"I", n>> integer, <<"B", id>> block, <<"U", 0>> uninitialized, <<"N", 0>> no value
\* exceptions <<"E", code>>
U == <<"U", 0>>
I(n) == <<"I", n>>
B(id) == <<"B", id>>
E(c) == <<"E", c>>
EUninit == 1    \* uninitialized variable
EType == 2      \* arithmetic on a block
ECall == 3      \* call of a number
EArgs == 4      \* wrong number of arguments
EUser == 5      \* throw "boom"

Range(s) == {s[i] : i \in 1..Len(s)}

----------------------------------------------------------------------------
(* static analysis *)

RECURSIVE NamesIn(_)
NamesOfStmt(s) ==
    CASE s.k = "const" -> {s.v}
      [] s.k \in {"inc", "dec", "copy"} -> {s.v, s.w}
      [] s.k = "blk" -> {s.v}
      [] s.k \in {"call0", "call1c"} -> {s.v, s.w}
      [] s.k = "call1v" -> {s.v, s.w, s.a}
      [] s.k = "ret" -> {s.w}
      [] s.k = "throw" -> {}
      [] s.k = "try" -> NamesIn(s.b) \cup NamesIn(s.b2)
      [] s.k = "ifnz" -> {s.w} \cup NamesIn(s.b)
      [] s.k = "rep" -> {s.v} \cup NamesIn(s.b)
      [] s.k = "obs" -> Range(s.vs)
\* names used directly in a statement list (not inside nested blocks)
NamesIn(body) == UNION {NamesOfStmt(body[i]) : i \in 1..Len(body)}

RECURSIVE BlocksIn(_, _)
BlocksOfStmt(s, par) ==
    CASE s.k = "blk" -> {[id |-> s.id, parent |-> par, param |-> s.a,
                          names |-> NamesIn(s.b) \cup (IF s.r = "" THEN {} ELSE {s.r}),
                          node |-> s]} \cup BlocksIn(s.b, s.id)
      [] s.k = "try" -> BlocksIn(s.b, par) \cup BlocksIn(s.b2, par)
      [] s.k \in {"ifnz", "rep"} -> BlocksIn(s.b, par)
      [] OTHER -> {}
BlocksIn(body, par) == UNION {BlocksOfStmt(body[i], par) : i \in 1..Len(body)}

\* scope table: id -> [parent, param, names, node]; scope 0 is F
ScopeTable(body) ==
    LET bs == BlocksIn(body, 0)
        ids == {b.id : b \in bs}
    IN [i \in ids \cup {0} |->
          IF i = 0 THEN [id |-> 0, parent |-> -1, param |-> "", names |-> NamesIn(body), node |-> [b |-> body]]
          ELSE CHOOSE b \in bs : b.id = i]

Uses(sc, S, x) == x \in sc[S].names \/ (x # "" /\ x = sc[S].param)

RECURSIVE NearestUser(_, _, _)
NearestUser(sc, A, x) == IF A = -1 THEN -1
                         ELSE IF Uses(sc, A, x) THEN A ELSE NearestUser(sc, sc[A].parent, x)

\* the scope whose storage the name x denotes when used in scope S
RECURSIVE Owner(_, _, _)
Owner(sc, S, x) ==
    IF x = sc[S].param THEN S
    ELSE LET A == NearestUser(sc, sc[S].parent, x) IN
         IF A = -1 THEN S ELSE Owner(sc, A, x)

\* storage <<O, x>> is shared when some scope other than O denotes it
SharedKeys(sc) ==
    {<<Owner(sc, S, x), x>> : <<S, x>> \in {<<S, x>> \in (DOMAIN sc) \X Names :
                                              Uses(sc, S, x) /\ Owner(sc, S, x) # S}}

\* location table: <<S, x>> -> owner if the storage is shared, else -1 (private to the call of S)
LocTable(sc) ==
    LET sk == SharedKeys(sc) IN
    [sx \in (DOMAIN sc) \X Names |->
        LET o == Owner(sc, sx[1], sx[2]) IN IF <<o, sx[2]>> \in sk THEN o ELSE -1]

----------------------------------------------------------------------------
(* the interpreter.  A run threads [ctl, val, loc, sh]:                       *)
(*   ctl  "norm" | "exc" (val = <<"E", code>>) | "ret" (return from F, val)   *)
(*        | "obs" (return Object(...), val = sequence of values)              *)
(*        | "undef" (outside the model: recursion fuel exhausted, or return   *)
(*          from a block after F has exited)                                  *)
(*   loc  private variables of the running scope invocation                   *)
(*   sh   the shared cells of this invocation of F                            *)

Res(ctl, val, loc, sh) == [ctl |-> ctl, val |-> val, loc |-> loc, sh |-> sh]
NoLoc == [x \in Names |-> U]

Read(lt, S, x, loc, sh) == IF lt[<<S, x>>] = -1 THEN loc[x] ELSE sh[<<lt[<<S, x>>], x>>]
\* Write returns <<loc, sh>>
WriteLoc(lt, S, x, val, loc) == IF lt[<<S, x>>] = -1 THEN [loc EXCEPT ![x] = val] ELSE loc
WriteSh(lt, S, x, val, sh) == IF lt[<<S, x>>] = -1 THEN sh ELSE [sh EXCEPT ![<<lt[<<S, x>>], x>>] = val]

RECURSIVE Exec(_, _, _, _, _, _, _, _, _), ExecStmt(_, _, _, _, _, _, _, _), CallBlock(_, _, _, _, _, _, _),
          RepLoop(_, _, _, _, _, _, _, _, _)

\* assign val to s.v and continue
Assign(lt, S, s, val, loc, sh) ==
    Res("norm", val, WriteLoc(lt, S, s.v, val, loc), WriteSh(lt, S, s.v, val, sh))

\* sc, lt: static tables; S: running scope; d: call depth; ex: TRUE when F has exited
ExecStmt(sc, lt, s, S, loc, sh, d, ex) ==
    CASE s.k = "const" -> Assign(lt, S, s, I(s.c), loc, sh)
      [] s.k \in {"inc", "dec"} ->
            LET r == Read(lt, S, s.w, loc, sh) IN
            IF r[1] = "U" THEN Res("exc", E(EUninit), loc, sh)
            ELSE IF r[1] # "I" THEN Res("exc", E(EType), loc, sh)
            ELSE Assign(lt, S, s, I(IF s.k = "inc" THEN r[2] + 1 ELSE r[2] - 1), loc, sh)
      [] s.k = "copy" ->
            LET r == Read(lt, S, s.w, loc, sh) IN
            IF r[1] = "U" THEN Res("exc", E(EUninit), loc, sh) ELSE Assign(lt, S, s, r, loc, sh)
      [] s.k = "blk" -> Assign(lt, S, s, B(s.id), loc, sh)
      [] s.k \in {"call0", "call1c", "call1v"} ->
            \* arguments are evaluated before the callee
            LET arg == IF s.k = "call1v" THEN Read(lt, S, s.a, loc, sh) ELSE I(s.c)
                args == IF s.k = "call0" THEN <<>> ELSE <<arg>>
                fv == Read(lt, S, s.w, loc, sh)
            IN IF arg[1] = "U" \/ fv[1] = "U" THEN Res("exc", E(EUninit), loc, sh)
               ELSE IF fv[1] # "B" THEN Res("exc", E(ECall), loc, sh)
               ELSE LET r == CallBlock(sc, lt, fv[2], args, sh, d + 1, ex) IN
                    IF r.ctl = "norm" THEN Assign(lt, S, s, r.val, loc, r.sh)
                    ELSE Res(r.ctl, r.val, loc, r.sh)
      [] s.k = "ret" ->
            LET r == Read(lt, S, s.w, loc, sh) IN
            IF r[1] = "U" THEN Res("exc", E(EUninit), loc, sh)
            ELSE IF ex THEN Res("undef", U, loc, sh)
            ELSE Res("ret", r, loc, sh)
      [] s.k = "throw" -> Res("exc", E(EUser), loc, sh)
      [] s.k = "try" ->
            LET r == Exec(sc, lt, s.b, 1, S, loc, sh, d, ex) IN
            IF r.ctl = "exc" THEN Exec(sc, lt, s.b2, 1, S, r.loc, r.sh, d, ex) ELSE r
      [] s.k = "ifnz" ->
            LET r == Read(lt, S, s.w, loc, sh) IN
            IF r[1] = "U" THEN Res("exc", E(EUninit), loc, sh)
            ELSE IF r # I(0) THEN Exec(sc, lt, s.b, 1, S, loc, sh, d, ex)
            ELSE Res("norm", U, loc, sh)
      [] s.k = "rep" -> RepLoop(sc, lt, s, 0, S, loc, sh, d, ex)
      [] s.k = "obs" ->
            LET vals == [i \in 1..Len(s.vs) |-> Read(lt, S, s.vs[i], loc, sh)] IN
            IF \E i \in 1..Len(vals) : vals[i][1] = "U" THEN Res("exc", E(EUninit), loc, sh)
            ELSE IF ex THEN Res("undef", U, loc, sh)
            ELSE Res("obs", vals, loc, sh)

\* iteration j of  for v in ..c { b }: the counter is kept outside the variable, the variable
\* is set from it before every test, also before the last (failing) one
RepLoop(sc, lt, s, j, S, loc, sh, d, ex) ==
    IF j >= s.c THEN Res("norm", U, WriteLoc(lt, S, s.v, I(s.c), loc), WriteSh(lt, S, s.v, I(s.c), sh))
    ELSE LET r == Exec(sc, lt, s.b, 1, S, WriteLoc(lt, S, s.v, I(j), loc), WriteSh(lt, S, s.v, I(j), sh), d, ex) IN
         IF r.ctl = "norm" THEN RepLoop(sc, lt, s, j + 1, S, r.loc, r.sh, d, ex) ELSE r

Exec(sc, lt, body, i, S, loc, sh, d, ex) ==
    IF i > Len(body) THEN Res("norm", U, loc, sh)
    ELSE LET r == ExecStmt(sc, lt, body[i], S, loc, sh, d, ex) IN
         IF r.ctl = "norm" THEN Exec(sc, lt, body, i + 1, S, r.loc, r.sh, d, ex) ELSE r

\* the loc of the result is meaningless to the caller
CallBlock(sc, lt, id, args, sh, d, ex) ==
    LET node == sc[id].node
        p == node.a
        np == IF p = "" THEN 0 ELSE 1
    IN IF d > MaxCallDepth THEN Res("undef", U, NoLoc, sh)
       ELSE IF Len(args) # np THEN Res("exc", E(EArgs), NoLoc, sh)
       ELSE LET loc0 == IF np = 1 THEN WriteLoc(lt, id, p, args[1], NoLoc) ELSE NoLoc
                sh0 == IF np = 1 THEN WriteSh(lt, id, p, args[1], sh) ELSE sh
                r == Exec(sc, lt, node.b, 1, id, loc0, sh0, d, ex)
            IN IF r.ctl # "norm" THEN r
               ELSE IF node.r = "" THEN Res("norm", I(0), r.loc, r.sh)
               ELSE LET v == Read(lt, id, node.r, r.loc, r.sh) IN
                    IF v[1] = "U" THEN Res("exc", E(EUninit), r.loc, r.sh)
                    ELSE Res("norm", v, r.loc, r.sh)

\* run F: result [ctl, val, sh] with ctl "nil" (fell off the end), "exc", "ret", "obs", "undef"
RunF(body) ==
    LET sc == TLCEval(ScopeTable(body))
        lt == TLCEval(LocTable(sc))
        sh0 == TLCEval([k \in SharedKeys(sc) |-> U])
        r == Exec(sc, lt, body, 1, 0, NoLoc, sh0, 0, FALSE)
    IN [ctl |-> IF r.ctl = "norm" THEN "nil" ELSE r.ctl, val |-> r.val, sh |-> r.sh, sc |-> sc, lt |-> lt]

\* after F has returned: call the block with id, with the given arguments
PostCall(run, id, args, sh) == CallBlock(run.sc, run.lt, id, args, sh, 1, TRUE)

----------------------------------------------------------------------------
(* The slot assignment of compile/ast/blocks.go (assignShared), transcribed: *)
(* scopes are visited top down (preorder = ascending id); for every          *)
(* non-parameter name of a block the parent chain is searched for the first  *)
(* scope that has the name; if that scope's entry is already a shared slot   *)
(* it is reused, else a new shared slot is given to both.                    *)
(* vars[S][x]: -3 absent, -2 parameter, -1 unassigned, >= 0 shared slot      *)

RECURSIVE SetToSeq(_)
SetToSeq(s) == IF s = {} THEN <<>> ELSE LET x == CHOOSE y \in s : TRUE IN <<x>> \o SetToSeq(s \ {x})

InitVars(sc) == [S \in DOMAIN sc |-> [x \in Names |->
                    IF x # "" /\ x = sc[S].param THEN -2 ELSE IF x \in sc[S].names THEN -1 ELSE -3]]

RECURSIVE FindUp(_, _, _, _)
FindUp(sc, vars, A, x) == IF A = -1 THEN -1
                          ELSE IF vars[A][x] # -3 THEN A ELSE FindUp(sc, vars, sc[A].parent, x)

\* st = [vars, next]; handle name x of scope S
AssignName(sc, st, S, x, DevNoParamShare) ==
    LET A == FindUp(sc, st.vars, sc[S].parent, x) IN
    IF A = -1 THEN st
    ELSE IF st.vars[A][x] >= 0 THEN [st EXCEPT !.vars[S][x] = st.vars[A][x]]
    ELSE IF st.vars[A][x] = -2 /\ DevNoParamShare THEN st
    ELSE [vars |-> [st.vars EXCEPT ![S][x] = st.next, ![A][x] = st.next], next |-> st.next + 1]

RECURSIVE AssignNames(_, _, _, _, _)
AssignNames(sc, st, S, xs, dev) ==
    IF xs = <<>> THEN st ELSE AssignNames(sc, AssignName(sc, st, S, Head(xs), dev), S, Tail(xs), dev)

RECURSIVE AssignScopes(_, _, _, _)
AssignScopes(sc, st, ids, dev) ==
    IF ids = <<>> THEN st
    ELSE LET S == Head(ids)
             xs == SetToSeq({x \in Names : st.vars[S][x] = -1})
         IN AssignScopes(sc, AssignNames(sc, st, S, xs, dev), Tail(ids), dev)

\* ascending ids = preorder
RECURSIVE SortedIds(_)
SortedIds(s) == IF s = {} THEN <<>> ELSE LET m == CHOOSE a \in s : \A b \in s : a <= b IN <<m>> \o SortedIds(s \ {m})

SlotVars(sc, dev) == AssignScopes(sc, [vars |-> InitVars(sc), next |-> 0], SortedIds(DOMAIN sc \ {0}), dev).vars

\* two uses denote the same storage cell of one F invocation
SameCellModel(sc, S1, S2, x) ==
    LET lt == LocTable(sc) IN lt[<<S1, x>>] # -1 /\ lt[<<S1, x>>] = lt[<<S2, x>>]
SameCellSlots(vars, S1, S2, x) == vars[S1][x] >= 0 /\ vars[S1][x] = vars[S2][x]

\* the slot assignment implements the scoping model
SlotsImplementModel(body, dev) ==
    LET sc == ScopeTable(body)
        vars == SlotVars(sc, dev)
    IN \A S1 \in DOMAIN sc, S2 \in DOMAIN sc : \A x \in Names :
          (Uses(sc, S1, x) /\ Uses(sc, S2, x) /\ S1 # S2)
              => (SameCellModel(sc, S1, S2, x) <=> SameCellSlots(vars, S1, S2, x))

\* a block that may be compiled as a plain function (no shared slot, no return) touches no shared cell
RECURSIVE HasRet(_)
HasRet(body) == \E i \in 1..Len(body) :
                    \/ body[i].k \in {"ret", "obs"}
                    \/ (body[i].k = "try" /\ (HasRet(body[i].b) \/ HasRet(body[i].b2)))
                    \/ (body[i].k \in {"ifnz", "rep"} /\ HasRet(body[i].b))
FunctionBlocksShareNothing(body) ==
    LET sc == ScopeTable(body)
        vars == SlotVars(sc, FALSE)
        lt == LocTable(sc)
    IN \A S \in DOMAIN sc \ {0} :
          (\A x \in Names : vars[S][x] < 0)
              => \A x \in Names : Uses(sc, S, x) => lt[<<S, x>>] = -1
=============================================================================
