----------------------------- MODULE Container -----------------------------
(* Suneido containers (core/suobject.go, also the container part of         *)
(* SuRecord, builtin/object.go): an ordered list plus a keyed map.          *)
(*                                                                          *)
(* State of one object: list (sequence), named (finite map), ro (read-only).*)
(* Operations are transcribed from the code:                                *)
(*   Add       append, then migrate: while named has the key Len(list),     *)
(*             move that member to the end of the list                      *)
(*   Insert    0 <= at <= Len: shift right; otherwise named[at]; migrate    *)
(*   Put       integer key = Len: Add; inside the list: replace; else named *)
(*   Delete    list member: following members shift down; else named delete *)
(*   Erase     list member: following members keep their keys (move to      *)
(*             named), the list is cut; else named delete                   *)
(*   Sort      stable sort of the list by value comparison; named untouched *)
(*   Unique    drops list members equal to their predecessor                *)
(*   RangeTo / RangeLen   list slices (negative = from the end, clamped)    *)
(*   Find, Get, Size, Members   queries                                     *)
(*   SetRO     read-only: every mutator is rejected and changes nothing     *)
(*   Copy      an independent, writable copy (copy-on-write in the code)    *)
(*                                                                          *)
(* Keys are integers; keys >= StrBase stand for strings (never list keys).  *)
(* Values are pairs <<v, t>>: t = 0 is the number v; t > 0 is the object    *)
(* #(v, t: t).  Comparison ignores named members, so #(1, t: 1) and         *)
(* #(1, t: 2) compare equal but are not equal: tags make stability visible. *)
EXTENDS Integers, Sequences, FiniteSets, TLC

CONSTANTS
    Objs,       \* object ids; object 1 exists initially
    Keys,       \* keys used by Put/Delete/Erase/Get
    Ats,        \* positions used by Insert
    Vals,       \* values <<v, t>>
    MaxSize,    \* no additions beyond this many members (bounds the model)
    SliceArgs,  \* arguments used for slices
    Dev         \* "none" | "migrate1" | "unstable" | "roleak"   (self-test deviations)

StrBase == 100
IsInt(k) == k < StrBase
NONE == <<-1, -1>>                  \* "no such member"

\* value order: numbers before objects; objects by their list part only
Rank(x) == IF x[2] = 0 THEN x[1] ELSE 10 + x[1]

VARIABLES objs, out
vars == <<objs, out>>

NoObj == [none |-> TRUE]
EmptyObj == [list |-> <<>>, named |-> <<>>, ro |-> FALSE]   \* <<>> = the empty function
Exists(o) == objs[o] # NoObj

----------------------------------------------------------------------------
(* finite maps *)
MPut(m, k, x) == [j \in DOMAIN m \cup {k} |-> IF j = k THEN x ELSE m[j]]
MDel(m, k) == [j \in DOMAIN m \ {k} |-> m[j]]

InList(s, k) == IsInt(k) /\ 0 <= k /\ k < Len(s.list)
HasKey(s, k) == InList(s, k) \/ k \in DOMAIN s.named
Lookup(s, k) == IF InList(s, k) THEN s.list[k + 1]
                ELSE IF k \in DOMAIN s.named THEN s.named[k] ELSE NONE
Size(s) == Len(s.list) + Cardinality(DOMAIN s.named)

RemoveAt(q, i) == SubSeq(q, 1, i - 1) \o SubSeq(q, i + 1, Len(q))      \* i is 1-based
InsertAt(q, i, x) == SubSeq(q, 1, i - 1) \o <<x>> \o SubSeq(q, i, Len(q))

\* SuObject.migrate
RECURSIVE Migrate(_)
Migrate(s) ==
    LET n == Len(s.list) IN
    IF n \in DOMAIN s.named
    THEN LET s1 == [s EXCEPT !.list = Append(@, s.named[n]), !.named = MDel(@, n)] IN
         IF Dev = "migrate1" THEN s1 ELSE Migrate(s1)
    ELSE s

AddTo(s, x) == Migrate([s EXCEPT !.list = Append(@, x)])

PutTo(s, k, x) ==
    IF IsInt(k) /\ k = Len(s.list) THEN AddTo(s, x)
    ELSE IF InList(s, k) THEN [s EXCEPT !.list[k + 1] = x]
    ELSE [s EXCEPT !.named = MPut(@, k, x)]

InsertTo(s, at, x) ==
    IF 0 <= at /\ at <= Len(s.list)
    THEN Migrate([s EXCEPT !.list = InsertAt(@, at + 1, x)])
    ELSE Migrate(PutTo(s, at, x))

DeleteFrom(s, k) ==
    IF InList(s, k) THEN [s EXCEPT !.list = RemoveAt(@, k + 1)]
    ELSE [s EXCEPT !.named = MDel(@, k)]

EraseFrom(s, k) ==
    IF InList(s, k)
    THEN [s EXCEPT !.list = SubSeq(@, 1, k),
                   !.named = [j \in DOMAIN s.named \cup (k + 1)..(Len(s.list) - 1) |->
                                 IF j \in DOMAIN s.named THEN s.named[j] ELSE s.list[j + 1]]]
    ELSE [s EXCEPT !.named = MDel(@, k)]

\* stable insertion sort: x goes after every element that is not greater
RECURSIVE InsSorted(_, _)
InsSorted(q, x) ==
    IF q = <<>> THEN <<x>>
    ELSE IF (IF Dev = "unstable" THEN Rank(q[Len(q)]) < Rank(x) ELSE Rank(q[Len(q)]) <= Rank(x))
         THEN Append(q, x)
         ELSE Append(InsSorted(SubSeq(q, 1, Len(q) - 1), x), q[Len(q)])
RECURSIVE StableSort(_)
StableSort(q) == IF q = <<>> THEN <<>> ELSE InsSorted(StableSort(SubSeq(q, 1, Len(q) - 1)), q[Len(q)])

RECURSIVE UniqueSeq(_)
UniqueSeq(q) ==
    IF Len(q) < 2 THEN q
    ELSE LET r == UniqueSeq(SubSeq(q, 1, Len(q) - 1)) IN
         IF q[Len(q)] = q[Len(q) - 1] THEN r ELSE Append(r, q[Len(q)])

\* core/ops.go prepFrom, prepTo, prepLen
Min(a, b) == IF a < b THEN a ELSE b
Max(a, b) == IF a > b THEN a ELSE b
PrepFrom(from, size) == Min(IF from < 0 THEN Max(from + size, 0) ELSE from, size)
PrepTo(from, to, size) == Min(Max(IF to < 0 THEN to + size ELSE to, from), size)
PrepLen(n, size) == Min(Max(n, 0), size)
RangeToSeq(q, i, j) == LET f == PrepFrom(i, Len(q)) t == PrepTo(f, j, Len(q)) IN SubSeq(q, f + 1, t)
RangeLenSeq(q, i, n) == LET f == PrepFrom(i, Len(q)) m == PrepLen(n, Len(q) - f) IN SubSeq(q, f + 1, f + m)

\* keys whose member equals x: the first such list index if any, else any such named key
FindSet(s, x) ==
    LET li == {i \in 1..Len(s.list) : s.list[i] = x} IN
    IF li # {} THEN {(CHOOSE i \in li : \A j \in li : i <= j) - 1}
    ELSE {k \in DOMAIN s.named : s.named[k] = x}

----------------------------------------------------------------------------
\* observation: op, object, key/position, value, second int argument, result, error class
Out(op, o, k, x, n, res, err) == [op |-> op, o |-> o, k |-> k, x |-> x, n |-> n, res |-> res, err |-> err]

Init == /\ objs = [o \in Objs |-> IF o = 1 THEN EmptyObj ELSE NoObj]
        /\ out = Out("init", 0, 0, NONE, 0, 0, "")

\* a mutator: rejected on a read-only object (state unchanged), else applies f
Mutate(op, o, k, x, s2, res) ==
    LET s == objs[o]
        leak == Dev = "roleak" /\ op = "Erase"          \* deviation: one mutator forgets the check
    IN IF s.ro /\ ~leak
       THEN /\ out' = Out(op, o, k, x, 0, 0, "ro")
            /\ UNCHANGED objs
       ELSE /\ objs' = [objs EXCEPT ![o] = s2]
            /\ out' = Out(op, o, k, x, 0, res, "")

Add(o, x) == Exists(o) /\ Size(objs[o]) < MaxSize /\ Mutate("Add", o, 0, x, AddTo(objs[o], x), 0)
Insert(o, at, x) == Exists(o) /\ Size(objs[o]) < MaxSize
                    /\ Mutate("Insert", o, at, x, InsertTo(objs[o], at, x), 0)
Put(o, k, x) == Exists(o) /\ (HasKey(objs[o], k) \/ Size(objs[o]) < MaxSize)
                /\ Mutate("Put", o, k, x, PutTo(objs[o], k, x), 0)
Delete(o, k) == Exists(o) /\ Mutate("Delete", o, k, NONE, DeleteFrom(objs[o], k),
                                    IF HasKey(objs[o], k) THEN 1 ELSE 0)
Erase(o, k) == Exists(o) /\ Mutate("Erase", o, k, NONE, EraseFrom(objs[o], k),
                                   IF HasKey(objs[o], k) THEN 1 ELSE 0)
Sort(o) == Exists(o) /\ Mutate("Sort", o, 0, NONE, [objs[o] EXCEPT !.list = StableSort(@)], 0)
Unique(o) == Exists(o) /\ Mutate("Unique", o, 0, NONE, [objs[o] EXCEPT !.list = UniqueSeq(@)], 0)

SetRO(o) == /\ Exists(o)
            /\ objs' = [objs EXCEPT ![o].ro = TRUE]
            /\ out' = Out("SetRO", o, 0, NONE, 0, 0, "")

Copy(o, q) == /\ Exists(o) /\ o # q
              /\ objs' = [objs EXCEPT ![q] = [objs[o] EXCEPT !.ro = FALSE]]
              /\ out' = Out("Copy", o, q, NONE, 0, 0, "")

\* queries (no state change); res is the result
Query(op, o, k, x, n, res) == /\ out' = Out(op, o, k, x, n, res, "") /\ UNCHANGED objs
Get(o, k) == Exists(o) /\ Query("Get", o, k, NONE, 0, Lookup(objs[o], k))
Find(o, x) == Exists(o) /\ \E r \in (IF FindSet(objs[o], x) = {} THEN {-1} ELSE FindSet(objs[o], x)) :
                              Query("Find", o, 0, x, 0, r)
SizeOp(o) == Exists(o) /\ Query("Size", o, 0, NONE, 0, <<Len(objs[o].list), Cardinality(DOMAIN objs[o].named)>>)
\* Members: the list keys 0..n-1 in order, then the named keys in any order
Members(o) == Exists(o) /\ Query("Members", o, 0, NONE, 0, <<Len(objs[o].list), DOMAIN objs[o].named>>)
RangeTo(o, i, j) == Exists(o) /\ Query("RangeTo", o, i, NONE, j, RangeToSeq(objs[o].list, i, j))
RangeLen(o, i, n) == Exists(o) /\ Query("RangeLen", o, i, NONE, n, RangeLenSeq(objs[o].list, i, n))

Next == \E o \in Objs :
          \/ \E x \in Vals : Add(o, x) \/ Find(o, x)
                             \/ (\E at \in Ats : Insert(o, at, x))
                             \/ (\E k \in Keys : Put(o, k, x))
          \/ \E k \in Keys : Delete(o, k) \/ Erase(o, k) \/ Get(o, k)
          \/ Sort(o) \/ Unique(o) \/ SetRO(o) \/ SizeOp(o) \/ Members(o)
          \/ \E q \in Objs : Copy(o, q)
          \/ \E i \in SliceArgs, j \in SliceArgs : RangeTo(o, i, j) \/ RangeLen(o, i, j)

Spec == Init /\ [][Next]_vars

----------------------------------------------------------------------------
(* Properties (C36), stated on the abstract key -> value mapping *)

AllKeys == Keys \cup Ats \cup 0..(MaxSize + 1)

\* list and map never disagree: no named member has a key that belongs to the list or is the next list key
KeysDisjoint == \A o \in Objs : Exists(o) =>
                    \A k \in DOMAIN objs[o].named : ~(IsInt(k) /\ 0 <= k /\ k <= Len(objs[o].list))

Changed(o) == objs'[o] # objs[o]
Op(name) == out'.op = name /\ out'.err = ""
S(o) == objs[o]
T(o) == objs'[o]

\* map semantics: Put changes exactly one key (migration never changes what a key denotes)
PutIsMapUpdate == [][\A o \in Objs : (Op("Put") /\ out'.o = o) =>
                        \A k \in AllKeys : Lookup(T(o), k) = IF k = out'.k THEN out'.x ELSE Lookup(S(o), k)]_vars
\* Add stores under the key Len(list) and changes nothing else
AddIsAppend == [][\A o \in Objs : (Op("Add") /\ out'.o = o) =>
                        \A k \in AllKeys : Lookup(T(o), k) = IF k = Len(S(o).list) THEN out'.x ELSE Lookup(S(o), k)]_vars
\* Erase removes exactly one key
EraseIsMapDelete == [][\A o \in Objs : (Op("Erase") /\ out'.o = o) =>
                        \A k \in AllKeys : Lookup(T(o), k) = IF k = out'.k THEN NONE ELSE Lookup(S(o), k)]_vars
\* Delete of a list member shifts the list members after it and leaves the named members alone;
\* Delete of a named member removes exactly that key
DeleteIsListDelete == [][\A o \in Objs : (Op("Delete") /\ out'.o = o) =>
        IF InList(S(o), out'.k)
        THEN /\ T(o).list = RemoveAt(S(o).list, out'.k + 1)
             /\ T(o).named = S(o).named
        ELSE \A k \in AllKeys : Lookup(T(o), k) = IF k = out'.k THEN NONE ELSE Lookup(S(o), k)]_vars
\* Insert inside the list shifts later list members up by one; elsewhere it is a Put
InsertIsListInsert == [][\A o \in Objs : (Op("Insert") /\ out'.o = o) =>
        IF 0 <= out'.k /\ out'.k <= Len(S(o).list)
        THEN /\ SubSeq(T(o).list, 1, Len(S(o).list) + 1) = InsertAt(S(o).list, out'.k + 1, out'.x)
             /\ \A k \in DOMAIN S(o).named : Lookup(T(o), k) = S(o).named[k]
        ELSE \A k \in AllKeys : Lookup(T(o), k) = IF k = out'.k THEN out'.x ELSE Lookup(S(o), k)]_vars
\* members are never lost or invented by migration
SizeAccounting == [][\A o \in Objs : (out'.o = o /\ out'.err = "" /\ Exists(o)) =>
        Size(T(o)) = Size(S(o)) + (CASE out'.op = "Add" -> 1
                                     [] out'.op = "Insert" ->
                                            IF out'.k \in DOMAIN S(o).named THEN 0 ELSE 1
                                     [] out'.op = "Put" -> IF HasKey(S(o), out'.k) THEN 0 ELSE 1
                                     [] out'.op \in {"Delete", "Erase"} -> -out'.res
                                     [] out'.op = "Unique" -> Len(T(o).list) - Len(S(o).list)
                                     [] OTHER -> 0)]_vars

\* Unique leaves no list member equal to its predecessor, keeps the first of each run and the named members
UniqueOK == [][\A o \in Objs : (Op("Unique") /\ out'.o = o) =>
        /\ \A i \in 1..(Len(T(o).list) - 1) : T(o).list[i] # T(o).list[i + 1]
        /\ Len(T(o).list) <= Len(S(o).list)
        /\ {T(o).list[i] : i \in 1..Len(T(o).list)} = {S(o).list[i] : i \in 1..Len(S(o).list)}
        /\ T(o).named = S(o).named]_vars

\* sorting: ordered by value comparison, and stable (per rank the subsequence is unchanged)
RanksOf(q) == {Rank(q[i]) : i \in 1..Len(q)}
SortIsStable == [][\A o \in Objs : (Op("Sort") /\ out'.o = o) =>
        /\ \A i \in 1..(Len(T(o).list) - 1) : Rank(T(o).list[i]) <= Rank(T(o).list[i + 1])
        /\ \A r \in RanksOf(S(o).list) \cup RanksOf(T(o).list) :
              SelectSeq(T(o).list, LAMBDA x : Rank(x) = r) = SelectSeq(S(o).list, LAMBDA x : Rank(x) = r)
        /\ T(o).named = S(o).named]_vars

\* read-only objects reject every mutation
ReadOnlyRejects == [][\A o \in Objs : (Exists(o) /\ S(o).ro /\ out'.op # "Copy") => T(o) = S(o)]_vars
ReadOnlyErrors == [][\A o \in Objs : (Exists(o) /\ S(o).ro /\ out'.o = o
                        /\ out'.op \in {"Add", "Insert", "Put", "Delete", "Erase", "Sort", "Unique"})
                            => out'.err = "ro"]_vars

\* an operation on one object never changes another (copies are independent)
Independent == [][\A o \in Objs : (out'.o # o /\ ~(out'.op = "Copy" /\ out'.k = o)) => T(o) = S(o)]_vars

TypeOK == \A o \in Objs : Exists(o) => Size(objs[o]) <= MaxSize + 1
=============================================================================
