------------------------------ MODULE DbModel ------------------------------
(* Logical model of a gSuneido database shared by Tran.tla (exhaustive model *)
(* checking), Pipeline.tla and the trace specification TraceDb.tla.           *)
(*                                                                           *)
(* A schema S is a sequence of table descriptors                             *)
(*   [name, ncols, idx : Seq([cols, kcols, kcols2, mode, fktable, fkix,      *)
(*                             fkmode, fkn])]                                *)
(* cols   = columns of the index as declared (1-based column numbers)        *)
(* kcols  = columns that form the stored index entry key (for a non-unique   *)
(*          index the key columns are appended), kcols2 = columns appended   *)
(*          only when all kcols are empty (unique indexes)                   *)
(* mode   = "k" key, "i" index, "u" unique index                             *)
(* fk*    = foreign key: target table name ("" = none), index number in the  *)
(*          target, mode bits (0 block, 1 cascade updates, 2 cascade deletes)*)
(* A row is a sequence of naturals; 0 stands for the empty value (which       *)
(* sorts before every other value, like "" in Suneido).                      *)
(* A database is a function  table name -> set of rows.                      *)
EXTENDS Naturals, Sequences, FiniteSets

TabOf(S, name) == S[CHOOSE i \in 1..Len(S) : S[i].name = name]
Names(S) == {S[i].name : i \in 1..Len(S)}
EmptyDb(S) == [n \in Names(S) |-> {}]

\* a column beyond the fields stored in the row (added to the table later) reads as empty
Proj(row, cols) == [i \in 1..Len(cols) |-> IF cols[i] <= Len(row) THEN row[cols[i]] ELSE 0]
AllZero(k) == \A i \in 1..Len(k) : k[i] = 0
IxKey(ixd, row) == Proj(row, ixd.cols)
EntryKey(ixd, row) ==
    LET k == Proj(row, ixd.kcols)
    IN  IF AllZero(k) THEN k \o Proj(row, ixd.kcols2) ELSE k

Get(a, i) == IF i <= Len(a) THEN a[i] ELSE 0
MaxN(a, b) == IF a > b THEN a ELSE b
\* lexicographic order on tuples, shorter tuples padded with empty values
SeqLess(a, b) == \E i \in 1..MaxN(Len(a), Len(b)) :
                    /\ Get(a, i) < Get(b, i)
                    /\ \A j \in 1..(i-1) : Get(a, j) = Get(b, j)
SeqLeq(a, b) == ~SeqLess(b, a)

Ran(s) == {s[i] : i \in 1..Len(s)}

----------------------------------------------------------------------------
(* Key and unique constraints (C07) *)

DupWith(ixd, r1, r2) ==
    \/ ixd.mode = "k" /\ IxKey(ixd, r1) = IxKey(ixd, r2)
    \/ ixd.mode = "u" /\ IxKey(ixd, r1) = IxKey(ixd, r2) /\ ~AllZero(IxKey(ixd, r1))

\* would adding row to content violate a key / unique index of tab?
DupExists(content, tab, row) ==
    \E r \in content : \E i \in 1..Len(tab.idx) : DupWith(tab.idx[i], r, row)

\* no two rows with the same key / the same non-empty unique value
\* (stated through cardinalities: equivalent to the pairwise statement, linear to evaluate)
UniqueOK(content, tab) ==
    \A i \in 1..Len(tab.idx) :
        LET ixd == tab.idx[i] IN
        IF ixd.mode = "k"
        THEN Cardinality({ IxKey(ixd, r) : r \in content }) = Cardinality(content)
        ELSE IF ixd.mode = "u"
        THEN LET ne == { r \in content : ~AllZero(IxKey(ixd, r)) } IN
             Cardinality({ IxKey(ixd, r) : r \in ne }) = Cardinality(ne)
        ELSE TRUE

AllUnique(db, S) == \A i \in 1..Len(S) : UniqueOK(db[S[i].name], S[i])

----------------------------------------------------------------------------
(* Foreign keys (C08), following suneidoc "Foreign Keys" *)

HasFk(ixd) == ixd.fktable # ""
FkVal(ixd, row) == Proj(row, SubSeq(ixd.cols, 1, ixd.fkn))
FkTargetIx(S, ixd) == TabOf(S, ixd.fktable).idx[ixd.fkix]
FkTargetExists(db, S, ixd, row) ==
    \E r \in db[ixd.fktable] : IxKey(FkTargetIx(S, ixd), r) = FkVal(ixd, row)

\* a non-empty foreign key value of row (in table tab) has no target
FkMissing(db, S, tab, row) ==
    \E i \in 1..Len(tab.idx) :
        /\ HasFk(tab.idx[i])
        /\ ~AllZero(FkVal(tab.idx[i], row))
        /\ ~FkTargetExists(db, S, tab.idx[i], row)

FkIntegrity(db, S) ==
    \A i \in 1..Len(S) : \A r \in db[S[i].name] : ~FkMissing(db, S, S[i], r)

CascadesDeletes(mode) == mode \in {2, 3}
CascadesUpdates(mode) == mode \in {1, 3}

\* references to target row (table T, index number ti of T, key value kv):
\* set of [tbl, ix, row, mode]
RefsTo(db, S, T, ti, kv) ==
    IF AllZero(kv) THEN {} ELSE
    UNION { UNION { { [tbl |-> S[x].name, ix |-> j, row |-> s, mode |-> S[x].idx[j].fkmode]
                      : s \in { s \in db[S[x].name] : FkVal(S[x].idx[j], s) = kv } }
                    : j \in { j \in 1..Len(S[x].idx) :
                                /\ S[x].idx[j].fktable = T
                                /\ S[x].idx[j].fkix = ti } }
            : x \in 1..Len(S) }

RefsToRow(db, S, T, row) ==
    UNION { RefsTo(db, S, T, ti, IxKey(TabOf(S, T).idx[ti], row)) : ti \in 1..Len(TabOf(S, T).idx) }

\* rows removed by deleting row from T: the row itself plus, recursively, the
\* rows referencing it through cascading foreign keys
RECURSIVE DelSet(_, _, _, _)
DelSet(db, S, T, row) ==
    {<<T, row>>} \cup
    UNION { DelSet(db, S, ref.tbl, ref.row) :
            ref \in { r \in RefsToRow(db, S, T, row) : CascadesDeletes(r.mode) /\ <<r.tbl, r.row>> # <<T, row>> } }

\* a delete is refused if some row to be removed is referenced through a foreign key
\* that does not cascade deletes (by a row that is not itself being removed)
DelBlocked(db, S, T, row) ==
    \E p \in DelSet(db, S, T, row) :
        \E ref \in RefsToRow(db, S, p[1], p[2]) :
            ~CascadesDeletes(ref.mode) /\ <<ref.tbl, ref.row>> \notin DelSet(db, S, T, row)

DelEffect(db, S, T, row) ==
    [n \in DOMAIN db |-> db[n] \ { p[2] : p \in { q \in DelSet(db, S, T, row) : q[1] = n } }]

\* update of a row: the target-side indexes whose key value changes
ChangedIx(tab, old, new) ==
    { i \in 1..Len(tab.idx) : IxKey(tab.idx[i], old) # IxKey(tab.idx[i], new) }

\* source rows that must follow a key change of old -> new in T (one level; the
\* schemas used do not chain cascading updates)
UpdRefs(db, S, T, old, new) ==
    UNION { RefsTo(db, S, T, ti, IxKey(TabOf(S, T).idx[ti], old)) : ti \in ChangedIx(TabOf(S, T), old, new) }

UpdBlocked(db, S, T, old, new) ==
    \E ref \in UpdRefs(db, S, T, old, new) : ~CascadesUpdates(ref.mode)

\* the rewritten source row: foreign key columns take the new target key values
Rewrite(S, T, ref, new) ==
    LET sx == TabOf(S, ref.tbl).idx[ref.ix]
        tx == FkTargetIx(S, sx)
    IN  [c \in 1..Len(ref.row) |->
            IF \E p \in 1..sx.fkn : sx.cols[p] = c
            THEN new[tx.cols[CHOOSE p \in 1..sx.fkn : sx.cols[p] = c]]
            ELSE ref.row[c]]

\* set of <<tbl, oldrow, newrow>> changes made by updating old -> new in T
UpdChanges(db, S, T, old, new) ==
    {<<T, old, new>>} \cup
    { <<ref.tbl, ref.row, Rewrite(S, T, ref, new)>> :
        ref \in { r \in UpdRefs(db, S, T, old, new) : CascadesUpdates(r.mode) } }

\* a change is <<table, old row or <<>>, new row or <<>> >>
ApplyChanges(db, chg) ==
    [n \in DOMAIN db |->
        (db[n] \ { c[2] : c \in { d \in chg : d[1] = n } })
            \cup { c[3] : c \in { d \in chg : d[1] = n /\ d[3] # <<>> } }]

RECURSIVE ApplyAll(_, _)
ApplyAll(db, ws) == IF ws = <<>> THEN db ELSE ApplyAll(ApplyChanges(db, Head(ws)), Tail(ws))

DelChanges(db, S, T, row) == { <<p[1], p[2], <<>> >> : p \in DelSet(db, S, T, row) }

\* would applying chg create a duplicate in some table?
ChangesDup(db, S, chg) ==
    LET after == ApplyChanges(db, chg)
    IN  \/ \E i \in 1..Len(S) : ~UniqueOK(after[S[i].name], S[i])
        \/ \E n \in DOMAIN db :
             Cardinality(after[n]) + Cardinality({ c[2] : c \in { d \in chg : d[1] = n } }) #
             Cardinality(db[n]) + Cardinality({ c[3] : c \in { d \in chg : d[1] = n } })

----------------------------------------------------------------------------
(* Outcome of the row operations on a view (snapshot plus own writes).        *)
(* Result classes: "ok", "dup" (duplicate key), "fk" (blocked by foreign key).*)
(* Where more than one refusal applies the code reports whichever it meets    *)
(* first; the property does not say which, so both are allowed.               *)

OutputAllowed(db, S, T, row) ==
    LET tab == TabOf(S, T)
        dup == DupExists(db[T], tab, row)
        fkm == FkMissing(db, S, tab, row)
    IN  IF ~dup /\ ~fkm THEN {"ok"}
        ELSE (IF dup THEN {"dup"} ELSE {}) \cup (IF fkm THEN {"fk"} ELSE {})

OutputEffect(db, T, row) == [db EXCEPT ![T] = @ \cup {row}]

DeleteAllowed(db, S, T, row) ==
    IF DelBlocked(db, S, T, row) THEN {"fk"} ELSE {"ok"}

UpdateAllowed(db, S, T, old, new) ==
    LET tab == TabOf(S, T)
        chg == UpdChanges(db, S, T, old, new)
        dup == ChangesDup(db, S, chg)
        fkm == FkMissing(db, S, tab, new)
        blk == UpdBlocked(db, S, T, old, new)
    IN  IF ~dup /\ ~fkm /\ ~blk THEN {"ok"}
        ELSE (IF dup THEN {"dup"} ELSE {}) \cup (IF fkm \/ blk THEN {"fk"} ELSE {})

----------------------------------------------------------------------------
(* Reads *)

LookupRows(db, S, T, ix, key) ==
    { r \in db[T] : IxKey(TabOf(S, T).idx[ix], r) = key }

InRange(ixd, r, lo, hi) ==
    \/ lo = <<>> /\ hi = <<>>
    \/ SeqLeq(lo, IxKey(ixd, r)) /\ SeqLeq(IxKey(ixd, r), hi)

\* rows: the sequence an iteration returned; dir 1 forward, -1 backward; limit 0 =
\* read to the end; eof 1 = the iteration reported end of range
ScanOK(content, ixd, dir, lo, hi, limit, eof, rows) ==
    LET inr == { r \in content : InRange(ixd, r, lo, hi) }
        ek(r) == EntryKey(ixd, r)
        before(a, b) == IF dir = 1 THEN SeqLess(ek(a), ek(b)) ELSE SeqLess(ek(b), ek(a))
    IN  /\ Ran(rows) \subseteq inr
        /\ \A i \in 1..(Len(rows) - 1) : before(rows[i], rows[i+1])      \* sorted, no repeats
        /\ IF eof = 1
           THEN Ran(rows) = inr                                        \* exactly the live keys
           ELSE /\ Len(rows) = limit
                /\ \A r \in inr \ Ran(rows) : before(rows[Len(rows)], r)  \* nothing skipped

=============================================================================
