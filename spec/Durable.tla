------------------------------- MODULE Durable -------------------------------
(* Durability of the database file at design level (db19: state.go persist /   *)
(* writeState, database.go close / OpenDbStor, repair.go, state.go StateAsof /  *)
(* PrevState / NextState).                                                      *)
(*                                                                              *)
(* The file is an append-only sequence of blocks: data (rows / index nodes of   *)
(* version v), state records (version v persisted at time t) and the shutdown   *)
(* marker. A persist saves what has been MERGED (version merged <= cur), not    *)
(* the unmerged transaction layers. A crash keeps any prefix of the file,       *)
(* possibly cutting the last block, followed by nothing / zeros / garbage.      *)
(*                                                                              *)
(* C04 CleanReopenExact, C05 OpenRefusedUnlessMarked + RepairYieldsLatestDurable *)
(* + the repair search (exponential back-off then binary search) transcribed    *)
(* as the operator Search and checked for every (n, firstGood) (SearchCorrect), *)
(* C19 AsofCorrect / StepsInOrder.                                              *)
EXTENDS Integers, Sequences, FiniteSets, TLC

CONSTANTS MaxCommits, MaxPersists, MaxClock,
          DevNoEmptyCheck,  \* TRUE = repair.search before the fix (index -1 when no state found)
          DevSearchLo       \* TRUE = binary search starts above the last state known to be bad

VARIABLES file, cur, merged, clock, status, view, refused, npersist

vars == <<file, cur, merged, clock, status, view, refused, npersist>>

Data(v) == [k |-> "data", v |-> v, t |-> 0]
State(v, t) == [k |-> "state", v |-> v, t |-> t]
Marker == [k |-> "marker", v |-> 0, t |-> 0]
Junk(kind) == [k |-> kind, v |-> 0, t |-> 0]     \* partial / zeros / garbage

StateIdx(f) == { i \in 1..Len(f) : f[i].k = "state" }
LastState(f) == IF StateIdx(f) = {} THEN 0 ELSE CHOOSE i \in StateIdx(f) : \A j \in StateIdx(f) : j <= i
\* version shown when a file is opened at its last state
VersionOf(f) == IF LastState(f) = 0 THEN -1 ELSE f[LastState(f)].v

Init == /\ file = << State(0, 0) >>         \* created database: empty state
        /\ cur = 0 /\ merged = 0 /\ clock = 0
        /\ status = "open" /\ view = 0 /\ refused = FALSE /\ npersist = 0

Commit == /\ status = "open" /\ cur < MaxCommits
          /\ cur' = cur + 1
          /\ file' = Append(file, Data(cur + 1))
          /\ UNCHANGED <<merged, clock, status, view, refused, npersist>>

Merge == /\ status = "open" /\ merged < cur
         /\ \E m \in (merged + 1)..cur : merged' = m
         /\ UNCHANGED <<file, cur, clock, status, view, refused, npersist>>

Tick == /\ status = "open" /\ clock < MaxClock /\ clock' = clock + 1
        /\ UNCHANGED <<file, cur, merged, status, view, refused, npersist>>

Persist == /\ status = "open" /\ npersist < MaxPersists
           /\ VersionOf(file) # merged           \* Modified()
           /\ file' = Append(file, State(merged, clock))
           /\ npersist' = npersist + 1
           /\ UNCHANGED <<cur, merged, clock, status, view, refused>>

\* checker Stop -> drain merges -> final persist -> shutdown marker
CleanClose == /\ status = "open"
              /\ merged' = cur
              /\ file' = (IF VersionOf(file) # cur \/ file[Len(file)].k # "state"
                          THEN Append(file, State(cur, clock)) ELSE file) \o << Marker >>
              /\ status' = "closed"
              /\ UNCHANGED <<cur, clock, view, refused, npersist>>

\* any prefix survives; the block at the cut may be partial; the tail is nothing,
\* zero fill or garbage
Crash == /\ status = "open"
         /\ \E x \in 1..Len(file) : \E cut \in BOOLEAN : \E tail \in {"none", "zeros", "garbage"} :
              file' = SubSeq(file, 1, x) \o (IF cut /\ x < Len(file) THEN << Junk("partial") >> ELSE <<>>)
                        \o (IF tail = "none" THEN <<>> ELSE << Junk(tail) >>)
         /\ status' = "crashed"
         /\ UNCHANGED <<cur, merged, clock, view, refused, npersist>>

Open == /\ status \in {"closed", "crashed", "repaired"}
        /\ IF file[Len(file)].k = "marker"
           THEN /\ refused' = FALSE
                /\ view' = VersionOf(SubSeq(file, 1, Len(file) - 1))
                /\ status' = "reopened"
           ELSE /\ refused' = TRUE /\ UNCHANGED <<view, status>>
        /\ UNCHANGED <<file, cur, merged, clock, npersist>>

----------------------------------------------------------------------------
(* repair.search transcribed: offsets[0..n-1] are the state records found scanning
   backwards (0 = newest); check(i) is TRUE iff i >= g (validity is monotone: the
   code's stated assumption). Result: index chosen, -1 "no valid states", -2 crash. *)
RECURSIVE Back(_, _, _, _, _)
Back(n, g, i, prev, skip) ==
    LET done == i >= n                                  \* getUpTo(i) hit the end
        i2 == IF done THEN n - 1 ELSE i
    IN  IF done /\ n = 0 /\ ~DevNoEmptyCheck THEN <<-1, prev>>   \* the repaired code: empty list
        ELSE IF done /\ i2 = prev THEN <<-1, prev>>               \* no more states
        ELSE IF i2 < 0 THEN <<-2, prev>>                          \* offsets[-1]: index out of range
        ELSE IF i2 >= g THEN <<i2, prev>>                         \* good
        ELSE IF done THEN <<-1, prev>>                            \* last and bad
        ELSE Back(n, g, i2 + skip, i2, skip * 2)
RECURSIVE Bin(_, _, _)
Bin(g, lo, hi) == IF lo < hi - 1
                  THEN LET mid == lo + (hi - lo) \div 2 IN
                       IF mid >= g THEN Bin(g, lo, mid) ELSE Bin(g, mid, hi)
                  ELSE hi
Search(n, g) == LET b == Back(n, g, 0, 0, 1) IN
                IF b[1] < 0 THEN b[1] ELSE Bin(g, b[2] + (IF DevSearchLo THEN 1 ELSE 0), b[1])
\* with prev = 0 initially and the newest state good the code returns index 0 directly
SearchCorrect == \A n \in 0..12 : \A g \in 0..n :
                    Search(n, g) = (IF g < n THEN g ELSE -1)

\* Pages written out of order (TraceDurable!TrHole): intact looking state records newer
\* than the newest undamaged state may be good or bad in any mixture (G = set of good
\* indexes, everything from index g on is good). The search then does not promise the
\* newest good state, but what it returns is good and never older than g.
RECURSIVE BackS(_, _, _, _, _)
BackS(n, G, i, prev, skip) ==
    LET done == i >= n
        i2 == IF done THEN n - 1 ELSE i
    IN  IF done /\ i2 = prev THEN <<-1, prev>>
        ELSE IF i2 \in G THEN <<i2, prev>>
        ELSE IF done THEN <<-1, prev>>
        ELSE BackS(n, G, i2 + skip, i2, skip * 2)
RECURSIVE BinS(_, _, _)
BinS(G, lo, hi) == IF lo < hi - 1
                   THEN LET mid == lo + (hi - lo) \div 2 IN
                        IF mid \in G THEN BinS(G, lo, mid) ELSE BinS(G, mid, hi)
                   ELSE hi
SearchS(n, G) == LET b == BackS(n, G, 0, 0, 1) IN
                 IF b[1] < 0 THEN b[1] ELSE BinS(G, b[2] + (IF DevSearchLo THEN 1 ELSE 0), b[1])
SearchMixedOK == \A n \in 1..8 : \A g \in 0..(n-1) : \A X \in SUBSET (0..(g-1)) :
                    LET G == X \cup (g..(n-1)) IN
                    (g - 1) \notin X => SearchS(n, G) \in G /\ SearchS(n, G) <= g
ASSUME DevSearchLo \/ SearchMixedOK

\* states of the damaged file that lie completely inside it, newest first
Repair == /\ status = "crashed" /\ refused
          /\ LET ls == LastState(file) IN
             IF ls = 0 THEN UNCHANGED <<file, status>>      \* "no valid states found"
             ELSE /\ file' = SubSeq(file, 1, ls) \o << Marker >>
                  /\ status' = "repaired"
          /\ UNCHANGED <<cur, merged, clock, view, refused, npersist>>

Next == Commit \/ Merge \/ Tick \/ Persist \/ CleanClose \/ Crash \/ Open \/ Repair
Spec == Init /\ [][Next]_vars

----------------------------------------------------------------------------
Durables == { file[i].v : i \in StateIdx(file) }
TypeOK == merged <= cur /\ status \in {"open", "closed", "crashed", "repaired", "reopened"}
\* C04
CleanReopenExact == (status = "reopened" /\ file[Len(file)].k = "marker" /\ ~refused
                        /\ \A i \in 1..Len(file) : file[i].k \notin {"partial", "zeros", "garbage"}
                        /\ VersionOf(file) = cur) => view = cur
\* C05
OpenRefusedUnlessMarked == status = "crashed" => file[Len(file)].k # "marker"
RepairYieldsLatestDurable ==
    status \in {"repaired", "reopened"} =>
        \A i \in StateIdx(file) : file[i].v <= VersionOf(file)      \* nothing newer and complete was dropped
NothingUncommitted == status = "reopened" => view <= cur /\ view \in Durables \cup {0}
\* C19: the state as of time tau = the last persisted state with t <= tau, else the first
AsofIdx(f, tau) == LET ok == { i \in StateIdx(f) : f[i].t <= tau } IN
                   IF ok = {} THEN CHOOSE i \in StateIdx(f) : \A j \in StateIdx(f) : i <= j
                   ELSE CHOOSE i \in ok : \A j \in ok : j <= i
NextIdx(f, i) == LET s == { j \in StateIdx(f) : j > i } IN IF s = {} THEN 0 ELSE CHOOSE j \in s : \A k \in s : j <= k
PrevIdx(f, i) == LET s == { j \in StateIdx(f) : j < i } IN IF s = {} THEN 0 ELSE CHOOSE j \in s : \A k \in s : k <= j
AsofMonotone == \A t1, t2 \in 0..MaxClock : t1 <= t2 => AsofIdx(file, t1) <= AsofIdx(file, t2)
StepsInOrder == \A i \in StateIdx(file) :
                    /\ NextIdx(file, i) # 0 => PrevIdx(file, NextIdx(file, i)) = i
                    /\ NextIdx(file, i) # 0 => file[NextIdx(file, i)].t >= file[i].t
=============================================================================
