-------------------------------- MODULE Fkey --------------------------------
(* Exhaustive check that the row-operation semantics of DbModel.tla (the ones  *)
(* the trace specification TraceDb.tla holds the real code to) preserve the    *)
(* foreign key and uniqueness invariants for ALL sequential histories over a   *)
(* small universe: target table tg(id,x) key(id) and three source tables       *)
(* referencing it in the three modes (block, cascade, cascade update).         *)
(* DevDeleteUnderCascadeUpdate = TRUE models the behaviour before fix 5890207   *)
(* (delete of a target referenced through a cascade-update-only key allowed).  *)
EXTENDS DbModel, TLC

CONSTANTS Ids, Sks, MaxSteps, DevDeleteUnderCascadeUpdate

NoFk == [fktable |-> "", fkix |-> 1, fkmode |-> 0, fkn |-> 0]
KeyIx(c) == [cols |-> <<c>>, kcols |-> <<c>>, kcols2 |-> <<>>, mode |-> "k"] @@ NoFk
SrcIx(mode) == [cols |-> <<2>>, kcols |-> <<2, 1>>, kcols2 |-> <<>>, mode |-> "i",
                fktable |-> "tg", fkix |-> 1, fkmode |-> mode, fkn |-> 1]
S == << [name |-> "tg", ncols |-> 2, idx |-> << KeyIx(1) >>],
        [name |-> "sb", ncols |-> 2, idx |-> << KeyIx(1), SrcIx(0) >>],
        [name |-> "sc", ncols |-> 2, idx |-> << KeyIx(1), SrcIx(3) >>],
        [name |-> "su", ncols |-> 2, idx |-> << KeyIx(1), SrcIx(1) >>] >>

VARIABLES db, steps
vars == <<db, steps>>

Rows(T) == IF T = "tg" THEN { <<i, 1>> : i \in Ids }
           ELSE { <<k, i>> : k \in Sks, i \in Ids \cup {0} }

Init == db = EmptyDb(S) /\ steps = 0

DeleteAllowedDev(d, T, row) ==
    IF DevDeleteUnderCascadeUpdate
    THEN IF \E p \in DelSet(d, S, T, row) : \E ref \in RefsToRow(d, S, p[1], p[2]) :
              ref.mode = 0 /\ <<ref.tbl, ref.row>> \notin DelSet(d, S, T, row)
         THEN {"fk"} ELSE {"ok"}
    ELSE DeleteAllowed(d, S, T, row)

Output(T, row) == /\ "ok" \in OutputAllowed(db, S, T, row)
                  /\ db' = OutputEffect(db, T, row)
Delete(T, row) == /\ row \in db[T]
                  /\ "ok" \in DeleteAllowedDev(db, T, row)
                  /\ db' = ApplyChanges(db, DelChanges(db, S, T, row))
Update(T, old, new) == /\ old \in db[T] /\ old # new
                       /\ "ok" \in UpdateAllowed(db, S, T, old, new)
                       /\ db' = ApplyChanges(db, UpdChanges(db, S, T, old, new))

Next == /\ steps < MaxSteps /\ steps' = steps + 1
        /\ \E T \in Names(S) : \E r \in Rows(T) :
              \/ Output(T, r) \/ Delete(T, r)
              \/ \E n \in Rows(T) : Update(T, r, n)

Spec == Init /\ [][Next]_vars

FkOK == FkIntegrity(db, S)
UniqueOK_ == AllUnique(db, S)
\* refused operations are really refused for a reason the documentation gives
RefusalsJustified ==
    \A T \in Names(S) : \A r \in db[T] :
        "fk" \in DeleteAllowed(db, S, T, r) =>
            \E ref \in RefsToRow(db, S, T, r) : ~CascadesDeletes(ref.mode)
=============================================================================
