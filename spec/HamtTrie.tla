------------------------------ MODULE HamtTrie ------------------------------
(* Hash-trie level of util/hamt (property C15, "generation-based path        *)
(* copying"): Hamt.Mutable / Put (node.with) / Delete (node.without, pullUp) *)
(* / Freeze on a heap of nodes that several versions share.                  *)
(*                                                                           *)
(* A node has a generation, per slot an optional value and an optional child *)
(* (bmVal/vals, bmPtr/ptrs in the code); below the last bitmap level nodes   *)
(* are overflow nodes holding a list.  A mutable version may change a node   *)
(* in place only if the node carries the version's generation, otherwise it  *)
(* copies it first (path copy).  The operators transcribe the code; the      *)
(* property is stated against an abstract map per version (amap).            *)
(*                                                                           *)
(* The real code is bound to this by the trace check of MetaChain (Get/All   *)
(* of every retained version after every action); this module checks the     *)
(* algorithm itself exhaustively at small scale, including hash collisions    *)
(* on every level and overflow nodes.                                        *)
EXTENDS Integers, Sequences, FiniteSets, TLC

CONSTANTS
    Keys,       \* keys
    Vals,       \* values (positive integers)
    Slots,      \* slot numbers of a bitmap node (code: 0..31)
    Depth,      \* number of bitmap levels (code: 7); level Depth+1 is the overflow node
    Hash,       \* Hash[k] = <<slot on level 1, ..., slot on level Depth>>
    MaxVers,    \* bound: versions alive at the same time
    MaxOps,     \* bound: operations
    DevNoCopy   \* deviation for self-test: "" (the code), or "pullUp" / "without" /
                \* "mutable" = path copy left out there

VARIABLES
    nodes,      \* heap: node id -> [gen, vals, ptrs, ovf]
    vers,       \* version id -> [root (0 = nil), gen, mut]
    amap,       \* version id -> [Keys -> value or 0]: what the version must contain
    nops

vars == <<nodes, vers, amap, nops>>

None == [k |-> 0, v |-> 0]
EmptyNode(gen) == [gen |-> gen, vals |-> [s \in Slots |-> None], ptrs |-> [s \in Slots |-> 0], ovf |-> <<>>]

NewId(h) == CHOOSE i \in 1..(Cardinality(DOMAIN h) + 1) : i \notin DOMAIN h
Max(S) == CHOOSE x \in S : \A y \in S : y <= x

\* node.dup + generation := gen (the path copy at the top of with/without/pullUp)
Copy(h, id, gen, on) ==
    IF h[id].gen # gen /\ on
    THEN LET n == NewId(h) IN [h |-> (n :> [h[id] EXCEPT !.gen = gen]) @@ h, id |-> n]
    ELSE [h |-> h, id |-> id]

IndexOf(q, k) == IF \E i \in 1..Len(q) : q[i].k = k THEN CHOOSE i \in 1..Len(q) : q[i].k = k ELSE 0

\* node.with: returns [h, id]
RECURSIVE With(_, _, _, _, _)
With(h0, id0, gen, it, d) ==
    LET c == Copy(h0, id0, gen, TRUE)
        h == c.h
        id == c.id
        nd == h[id]
    IN IF d > Depth
       THEN LET i == IndexOf(nd.ovf, it.k)
            IN [h |-> [h EXCEPT ![id].ovf = IF i # 0 THEN [@ EXCEPT ![i] = it] ELSE Append(@, it)], id |-> id]
       ELSE LET s == Hash[it.k][d] IN
            IF nd.vals[s] = None \/ nd.vals[s].k = it.k
            THEN [h |-> [h EXCEPT ![id].vals[s] = it], id |-> id]
            ELSE IF nd.ptrs[s] # 0
            THEN LET r == With(h, nd.ptrs[s], gen, it, d + 1)
                 IN [h |-> [r.h EXCEPT ![id].ptrs[s] = r.id], id |-> id]
            ELSE LET cid == NewId(h)
                     r == With((cid :> EmptyNode(gen)) @@ h, cid, gen, it, d + 1)
                 IN [h |-> [r.h EXCEPT ![id].ptrs[s] = r.id], id |-> id]

IsEmpty(nd) == /\ \A s \in Slots : nd.vals[s] = None /\ nd.ptrs[s] = 0
               /\ nd.ovf = <<>>
HasPtrs(nd) == \E s \in Slots : nd.ptrs[s] # 0

\* node.pullUp: removes and returns a value from the subtree; [h, id (0 = emptied), item]
RECURSIVE PullUp(_, _, _)
PullUp(h0, id0, gen) ==
    LET c == Copy(h0, id0, gen, DevNoCopy # "pullUp")
        h == c.h
        id == c.id
        nd == h[id]
    IN IF HasPtrs(nd)
       THEN LET s == Max({x \in Slots : nd.ptrs[x] # 0})     \* the last child
                r == PullUp(h, nd.ptrs[s], gen)
            IN [h |-> [r.h EXCEPT ![id].ptrs[s] = r.id], id |-> id, item |-> r.item]
       ELSE IF nd.ovf # <<>>
       THEN LET n == Len(nd.ovf) IN
            IF n = 1 THEN [h |-> h, id |-> 0, item |-> nd.ovf[1]]
            ELSE [h |-> [h EXCEPT ![id].ovf = SubSeq(@, 1, n - 1)], id |-> id, item |-> nd.ovf[n]]
       ELSE LET used == {x \in Slots : nd.vals[x] # None}
                s == Max(used)                                \* the last value
            IN IF Cardinality(used) = 1 THEN [h |-> h, id |-> 0, item |-> nd.vals[s]]
               ELSE [h |-> [h EXCEPT ![id].vals[s] = None], id |-> id, item |-> nd.vals[s]]

\* node.without: [h, id (0 = emptied), ok]
RECURSIVE Without(_, _, _, _, _)
Without(h0, id0, gen, key, d) ==
    LET c == Copy(h0, id0, gen, DevNoCopy # "without" \/ d = 1)
        h == c.h
        id == c.id
        nd == h[id]
    IN IF d > Depth
       THEN LET i == IndexOf(nd.ovf, key)
                n == Len(nd.ovf)
            IN IF i = 0 THEN [h |-> h, id |-> id, ok |-> FALSE]
               ELSE LET q == SubSeq([nd.ovf EXCEPT ![i] = nd.ovf[n]], 1, n - 1)
                    IN [h |-> [h EXCEPT ![id].ovf = q], id |-> IF n = 1 THEN 0 ELSE id, ok |-> TRUE]
       ELSE LET s == Hash[key][d] IN
            IF nd.vals[s] # None /\ nd.vals[s].k = key
            THEN IF nd.ptrs[s] = 0
                 THEN LET h2 == [h EXCEPT ![id].vals[s] = None]
                      IN [h |-> h2, id |-> IF IsEmpty(h2[id]) THEN 0 ELSE id, ok |-> TRUE]
                 ELSE LET r == PullUp(h, nd.ptrs[s], gen)
                      IN [h |-> [r.h EXCEPT ![id].vals[s] = r.item, ![id].ptrs[s] = r.id], id |-> id, ok |-> TRUE]
            ELSE IF nd.ptrs[s] = 0
            THEN [h |-> h, id |-> id, ok |-> FALSE]
            ELSE LET r == Without(h, nd.ptrs[s], gen, key, d + 1)
                 IN [h |-> [r.h EXCEPT ![id].ptrs[s] = r.id], id |-> id, ok |-> r.ok]

\* Hamt.get: 0 if not found
RECURSIVE Get(_, _, _, _)
Get(h, id, key, d) ==
    IF id = 0 THEN 0
    ELSE IF d > Depth
    THEN LET i == IndexOf(h[id].ovf, key) IN IF i = 0 THEN 0 ELSE h[id].ovf[i].v
    ELSE LET s == Hash[key][d] IN
         IF h[id].vals[s] # None /\ h[id].vals[s].k = key THEN h[id].vals[s].v
         ELSE Get(h, h[id].ptrs[s], key, d + 1)

\* Hamt.All as a bag of items: the sequence of everything forEach visits
RECURSIVE AllSeq(_, _)
RECURSIVE ChildrenSeq(_, _, _)
ChildrenSeq(h, id, S) == IF S = {} THEN <<>>
                         ELSE LET s == CHOOSE x \in S : \A y \in S : x <= y
                              IN (IF h[id].ptrs[s] = 0 THEN <<>> ELSE AllSeq(h, h[id].ptrs[s]))
                                 \o ChildrenSeq(h, id, S \ {s})
RECURSIVE ValsSeq(_, _, _)
ValsSeq(h, id, S) == IF S = {} THEN <<>>
                     ELSE LET s == CHOOSE x \in S : \A y \in S : x <= y
                          IN (IF h[id].vals[s] = None THEN <<>> ELSE <<h[id].vals[s]>>) \o ValsSeq(h, id, S \ {s})
AllSeq(h, id) == IF id = 0 THEN <<>> ELSE ValsSeq(h, id, Slots) \o h[id].ovf \o ChildrenSeq(h, id, Slots)

RECURSIVE Reach(_, _)
Reach(h, id) == IF id = 0 THEN {} ELSE {id} \cup UNION {Reach(h, h[id].ptrs[s]) : s \in Slots}

GC(h, vs) == LET live == UNION {Reach(h, vs[v].root) : v \in DOMAIN vs} IN [i \in live |-> h[i]]

----------------------------------------------------------------------------
NewVer == CHOOSE i \in 1..(Cardinality(DOMAIN vers) + 1) : i \notin DOMAIN vers

Init == /\ nodes = [i \in {} |-> 0]
        /\ vers = (0 :> [root |-> 0, gen |-> 0, mut |-> FALSE])
        /\ amap = (0 :> [k \in Keys |-> 0])
        /\ nops = 0

\* Hamt.Mutable, only from a frozen version (as db19/meta uses it)
Mutable(v) ==
    /\ ~vers[v].mut /\ Cardinality(DOMAIN vers) < MaxVers /\ nops < MaxOps
    /\ LET gen == vers[v].gen + (IF DevNoCopy = "mutable" THEN 0 ELSE 1)
           w == NewVer
           n == NewId(nodes)
           nd == IF vers[v].root = 0 THEN EmptyNode(gen) ELSE [nodes[vers[v].root] EXCEPT !.gen = gen]
       IN /\ nodes' = (n :> nd) @@ nodes
          /\ vers' = (w :> [root |-> n, gen |-> gen, mut |-> TRUE]) @@ vers
          /\ amap' = (w :> amap[v]) @@ amap
    /\ nops' = nops + 1

Put(w, k, val) ==
    /\ vers[w].mut /\ nops < MaxOps
    /\ LET r == With(nodes, vers[w].root, vers[w].gen, [k |-> k, v |-> val], 1)
       IN nodes' = GC(r.h, vers)
    /\ amap' = [amap EXCEPT ![w][k] = val]
    /\ nops' = nops + 1
    /\ UNCHANGED vers

\* Hamt.Delete: the root stays even when it is emptied (the result of without is ignored)
Delete(w, k) ==
    /\ vers[w].mut /\ nops < MaxOps
    /\ LET r == Without(nodes, vers[w].root, vers[w].gen, k, 1)
       IN /\ nodes' = GC(r.h, vers)
          /\ r.ok = (amap[w][k] # 0)              \* Delete reports whether the key was there
    /\ amap' = [amap EXCEPT ![w][k] = 0]
    /\ nops' = nops + 1
    /\ UNCHANGED vers

Freeze(w) == /\ vers[w].mut
             /\ vers' = [vers EXCEPT ![w].mut = FALSE]
             /\ UNCHANGED <<nodes, amap, nops>>

Forget(v) == /\ v # 0 /\ Cardinality(DOMAIN vers) > 1
             /\ vers' = [x \in DOMAIN vers \ {v} |-> vers[x]]
             /\ amap' = [x \in DOMAIN amap \ {v} |-> amap[x]]
             /\ nodes' = GC(nodes, vers')
             /\ UNCHANGED nops

Next == \E v \in DOMAIN vers :
            \/ Mutable(v) \/ Freeze(v) \/ Forget(v)
            \/ \E k \in Keys : Delete(v, k) \/ \E val \in Vals : Put(v, k, val)

Spec == Init /\ [][Next]_vars

----------------------------------------------------------------------------
(* Properties *)

\* every version (frozen or mutable) is exactly its abstract map: through Get ...
GetOK == \A v \in DOMAIN vers : \A k \in Keys : Get(nodes, vers[v].root, k, 1) = amap[v][k]

\* ... and through All (no key twice, nothing extra, nothing missing)
AllOK == \A v \in DOMAIN vers :
            LET q == AllSeq(nodes, vers[v].root)
            IN /\ \A i, j \in 1..Len(q) : i # j => q[i].k # q[j].k
               /\ \A i \in 1..Len(q) : q[i].k \in Keys /\ amap[v][q[i].k] = q[i].v /\ q[i].v # 0
               /\ Len(q) = Cardinality({k \in Keys : amap[v][k] # 0})

\* older frozen versions never change (amap of a frozen version is constant by
\* construction, so together with GetOK/AllOK this says their tries never change)
FrozenNeverChange == [][\A v \in DOMAIN vers \cap DOMAIN vers' :
                           (~vers[v].mut /\ ~vers'[v].mut) => amap'[v] = amap[v]]_vars

\* structure: a child only below a value; values sit on the path their hash prescribes;
\* nodes a mutable version may write in place are not visible to any other version
RECURSIVE PathOK(_, _, _, _)
PathOK(h, id, pre, d) ==
    \/ id = 0
    \/ /\ d <= Depth
       /\ h[id].ovf = <<>>
       /\ \A s \in Slots :
            /\ h[id].ptrs[s] # 0 => h[id].vals[s] # None
            /\ h[id].vals[s] # None => SubSeq(Hash[h[id].vals[s].k], 1, d) = Append(pre, s)
            /\ PathOK(h, h[id].ptrs[s], Append(pre, s), d + 1)
    \/ /\ d > Depth
       /\ \A s \in Slots : h[id].vals[s] = None /\ h[id].ptrs[s] = 0
       /\ h[id].ovf # <<>>
       /\ \A i \in 1..Len(h[id].ovf) : Hash[h[id].ovf[i].k] = pre
StructOK == \A v \in DOMAIN vers : PathOK(nodes, vers[v].root, <<>>, 1)

OwnNodesPrivate ==
    \A w \in DOMAIN vers : vers[w].mut =>
        \A n \in Reach(nodes, vers[w].root) : nodes[n].gen = vers[w].gen =>
            \A v \in DOMAIN vers \ {w} : n \notin Reach(nodes, vers[v].root)

=============================================================================
