------------------------------- MODULE IxBuf -------------------------------
(* C11, design level: every valid sequence of adds / updates / deletes per    *)
(* key (validity = add only when absent, update / delete only when present),  *)
(* distributed over up to MaxBufs consecutive buffers. Each buffer combines   *)
(* the changes it receives (ixbuf.Insert -> Combine); the merge of the        *)
(* buffers must have exactly the effect of applying all changes one after     *)
(* another to the base state, must itself be a valid change for the base      *)
(* state, never hit an invalid combination, and must not depend on how the    *)
(* merging is bracketed (layers are merged in several steps in db19).         *)
(* Buffers are mathematical values here, so "the merge leaves its inputs      *)
(* unchanged" holds by construction; that clause is decided on the storage     *)
(* level (chunks = views into shared backing arrays, inputs still held by      *)
(* older snapshots) in IxBufStore.tla: InputsUnchanged, deviation              *)
(* DevAdoptChunk.                                                              *)
EXTENDS IxBufOps

CONSTANTS K, Offs, MaxOps, MaxBufs,
          DevDelAdd     \* deviation (self-test): Combine(delete, add) = add instead of update

VARIABLES base,   \* abstract state of every key before the first buffer (0 absent / offset)
          cur,    \* abstract state now = all changes applied in order
          bufs,   \* sequence of buffers, the last one is being filled
          nops    \* changes issued per key

vars == <<base, cur, bufs, nops>>
Keys == 1..K

Init == /\ base \in [Keys -> Offs \cup {0}]
        /\ cur = base
        /\ bufs = <<EmptyBuf(K)>>
        /\ nops = [k \in Keys |-> 0]

\* the changes a transaction can validly issue for key k now; a delete carries the current offset
ValidChanges(k) == IF cur[k] = 0 THEN {Ch("add", o) : o \in Offs}
                   ELSE {Ch("upd", o) : o \in Offs} \cup {Ch("del", cur[k])}

Change(k, c) ==
    /\ nops[k] < MaxOps
    /\ bufs' = [bufs EXCEPT ![Len(bufs)] = BInsert(@, k, c, DevDelAdd)]
    /\ cur' = [cur EXCEPT ![k] = ApplyTo(@, c)]
    /\ nops' = [nops EXCEPT ![k] = @ + 1]
    /\ UNCHANGED base

\* the current buffer is complete (transaction commits / layer is frozen), start the next one
NewBuf == /\ Len(bufs) < MaxBufs
          /\ bufs[Len(bufs)] # EmptyBuf(K)
          /\ bufs' = Append(bufs, EmptyBuf(K))
          /\ UNCHANGED <<base, cur, nops>>

Next == (\E k \in Keys : \E c \in ValidChanges(k) : Change(k, c)) \/ NewBuf
Spec == Init /\ [][Next]_vars

----------------------------------------------------------------------------
Merged == MergeSeq(bufs, DevDelAdd)

TypeOK == /\ cur \in [Keys -> Offs \cup {0}]
          /\ Len(bufs) \in 1..MaxBufs

\* valid change sequences never reach an invalid combination, neither inside a buffer nor in the merge
NoInvalid == /\ \A i \in 1..Len(bufs) : ~HasInvalid(bufs[i])
             /\ ~HasInvalid(Merged)

\* C11: merging = applying the changes in order (and the merged change is valid for the base)
MergeIsSequential == \A k \in Keys : /\ ValidOn(base[k], Merged[k])
                                      /\ ApplyTo(base[k], Merged[k]) = cur[k]

\* no entry when nothing happened to a key
NoSpurious == \A k \in Keys : nops[k] = 0 => Merged[k] = None

\* bracketing does not matter -- up to the offset carried by a delete entry: for
\* present(1): [del 1] [add 2] [del 2] the left fold gives del 2, the right fold del 1
\* (found by TLC). Consumers only use the tag of a delete (btree merge: leaf.delete(i),
\* overlay lookup / iteration: "deleted"), so the map is compared with delete offsets erased.
NormDel(b) == [k \in 1..Len(b) |-> IF b[k].op = "del" THEN Ch("del", 0) ELSE b[k]]
Associative == NormDel(MergeSeqR(bufs, DevDelAdd)) = NormDel(Merged)
=============================================================================
