----------------------------- MODULE IxBufOps -----------------------------
(* Index change buffers (db19/index/ixbuf), C11: constant-free operators      *)
(* shared by IxBuf.tla (exhaustive) and spec/trace/TraceIxBuf.tla (replay).    *)
(*                                                                             *)
(* A change is [op, off] with op in add | upd | del (the tag bits of the       *)
(* offset in the code), None = no entry. A buffer over the key universe 1..K   *)
(* is a sequence of K changes (None where the buffer has no entry): sorted and *)
(* duplicate free by construction -- the replay compares it with what the      *)
(* real Iter() yields, in order.                                               *)
(*   ixbuf.Insert/Update/Delete   BInsert: combine with an existing entry      *)
(*   ixbuf.Combine                Combine: the code's table                    *)
(*   ixbuf.Merge(b1..bn)          MergeSeq: fold the buffers in order          *)
(* The abstract meaning of a change is its effect on "absent / present(off)".  *)
EXTENDS Naturals, Sequences, FiniteSets, TLC

None == [op |-> "none", off |-> 0]
Ch(op, off) == [op |-> op, off |-> off]
Invalid == [op |-> "invalid", off |-> 0]

\* ixbuf.Combine (off1 = existing entry, off2 = new one); devDelAdd is a deviation for the
\* self-test (delete then add gives add instead of update)
Combine(c1, c2, devDelAdd) ==
    CASE c1.op = "none" -> c2
      [] c2.op = "none" -> c1
      [] c1.op = "add" /\ c2.op = "upd" -> Ch("add", c2.off)
      [] c1.op = "add" /\ c2.op = "del" -> None                   \* entry removed
      [] c1.op = "upd" /\ c2.op = "upd" -> Ch("upd", c2.off)
      [] c1.op = "upd" /\ c2.op = "del" -> Ch("del", c2.off)      \* the add is in another layer
      [] c1.op = "del" /\ c2.op = "add" -> Ch(IF devDelAdd THEN "add" ELSE "upd", c2.off)
      [] OTHER -> Invalid                                          \* the code panics
\* second result of Combine / return value of Insert: previous offset for update·update, update·delete
OldOff(c1, c2) == IF c1.op = "upd" /\ c2.op \in {"upd", "del"} THEN c1.off ELSE 0

EmptyBuf(K) == [k \in 1..K |-> None]
BInsert(b, k, c, dev) == [b EXCEPT ![k] = Combine(@, c, dev)]

\* a sequence of inserts <<k, change>> applied in order (bulk form of BInsert)
RECURSIVE BFill(_, _, _, _)
BFill(b, ks, cs, i) == IF i > Len(ks) THEN b ELSE BFill(BInsert(b, ks[i], cs[i], FALSE), ks, cs, i + 1)
\* the oldoff results of those inserts
RECURSIVE BFillOlds(_, _, _, _)
BFillOlds(b, ks, cs, i) ==
    IF i > Len(ks) THEN <<>>
    ELSE <<OldOff(b[ks[i]], cs[i])>> \o BFillOlds(BInsert(b, ks[i], cs[i], FALSE), ks, cs, i + 1)
RECURSIVE BFillValid(_, _, _, _)
BFillValid(b, ks, cs, i) ==
    IF i > Len(ks) THEN TRUE
    ELSE /\ Combine(b[ks[i]], cs[i], FALSE).op # "invalid"
         /\ BFillValid(BInsert(b, ks[i], cs[i], FALSE), ks, cs, i + 1)

MergeTwo(a, b, dev) == [k \in 1..Len(a) |-> Combine(a[k], b[k], dev)]
\* Merge(b1, ..., bn) = ((b1 + b2) + b3) ...
RECURSIVE MergeSeq(_, _)
MergeSeq(bs, dev) == IF Len(bs) = 1 THEN bs[1]
                     ELSE MergeTwo(MergeSeq(SubSeq(bs, 1, Len(bs) - 1), dev), bs[Len(bs)], dev)
\* the other bracketing b1 + (b2 + (b3 ...)): what layered merging in several steps amounts to
RECURSIVE MergeSeqR(_, _)
MergeSeqR(bs, dev) == IF Len(bs) = 1 THEN bs[1]
                      ELSE MergeTwo(bs[1], MergeSeqR(SubSeq(bs, 2, Len(bs)), dev), dev)

HasInvalid(b) == \E k \in 1..Len(b) : b[k].op = "invalid"

\* what Iter() yields: keys in order, with ops and offsets
EntKeys(b) == LET Has(k) == b[k].op # "none" IN SelectSeq([k \in 1..Len(b) |-> k], Has)
EntOps(b, ks) == [i \in 1..Len(ks) |-> b[ks[i]].op]
EntOffs(b, ks) == [i \in 1..Len(ks) |-> b[ks[i]].off]
\* presence map for the cursor operators of OrdMapOps (offset part irrelevant)
Presence(b) == [k \in 1..Len(b) |-> IF b[k].op = "none" THEN 0 ELSE 1]

(* abstract meaning: a key is absent (0) or present with an offset *)
ValidOn(s, c) == CASE c.op = "none" -> TRUE
                   [] c.op = "add" -> s = 0 /\ c.off # 0
                   [] c.op \in {"upd", "del"} -> s # 0
                   [] OTHER -> FALSE
ApplyTo(s, c) == CASE c.op = "none" -> s
                   [] c.op = "del" -> 0
                   [] OTHER -> c.off
=============================================================================
