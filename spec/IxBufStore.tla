----------------------------- MODULE IxBufStore -----------------------------
(* C11, storage level: "merging leaves the input buffers unchanged".           *)
(*                                                                             *)
(* IxBuf.tla treats buffers as mathematical values (functions key -> change),  *)
(* there a merge cannot touch its inputs by construction. In the code a buffer *)
(* is a list of chunks, a chunk is a Go slice = a VIEW <<array, lo, n>> into a  *)
(* backing array on the heap, and ixbuf.Merge is immutable-persistent: its      *)
(* result shares the chunks it passes through with its inputs, while the input  *)
(* buffers are still held by other owners (older Overlays = snapshots of        *)
(* running transactions / readers). This module models exactly that:           *)
(*   heap    the backing arrays (sequence of sequences of slots)               *)
(*   layers  the current list of buffers (db19 index overlay layers), each a   *)
(*           list of chunk views + size                                        *)
(*   snaps   the owners: every layer list that was ever current, together with *)
(*           what its owner saw in each buffer when it took it                  *)
(* and runs the code's merge algorithm (merge.merge, passthru, outputChunk,     *)
(* outputSlot, flushbuf; append / clone / reslice with Go's aliasing rules) on *)
(* ALL layouts of K keys over NB buffers, all chunkings, several goals.   *)
(*   InputsUnchanged   every owner still sees what it saw                       *)
(*   MergeMatches      the merged buffer = IxBufOps!MergeSeq of its inputs      *)
(*                     (sorted, unique, combined), whatever the chunk layout    *)
(*   SizeOK            the size field = number of entries                       *)
(* DevAdoptChunk (deviation, self-test): outputChunk adopts a small passed      *)
(* chunk as the merge buffer when the buffer is empty instead of copying it --  *)
(* the buffer then shares storage with an input chunk and later writes          *)
(* (flushbuf re-uses buf[:0], outputSlot appends / combines in place) go        *)
(* through to the input.                                                        *)
EXTENDS IxBufOps, Integers

CONSTANTS K,              \* keys 1..K
          NB,             \* number of initial buffers (layers)
          Memb,           \* allowed sets of buffers a key may occur in, e.g. {{}, {1}, {2}, {1, 2}}
          Pats,           \* change patterns for a key in several buffers, subset of {1, 2}
          Goals,          \* chunk size goals tried by a merge (code: 24, 48, 96 .. by total size)
          MaxChunk,       \* longest chunk of an initial buffer
          DevAdoptChunk

VARIABLES st,    \* [h |-> heap, ls |-> layers, snaps |-> owners, last |-> the last merge: got / want / size]
                 \* (one record so that a step evaluates the merge once: st' = ...)
          nk,    \* keys placed so far (the inputs are built key by key before the merges start)
          pat    \* change pattern for keys that occur in several buffers

vars == <<st, nk, pat>>
heap == st.h
layers == st.ls
snaps == st.snaps
last == st.last

----------------------------------------------------------------------------
(* Go slices *)
Slot(k, c) == [k |-> k, c |-> c]
ZeroSlot == Slot(0, None)
View(a, lo, n) == [a |-> a, lo |-> lo, n |-> n]
NilView == View(0, 1, 0)                                   \* nil slice
At(h, v, i) == h[v.a][v.lo + i - 1]                        \* v[i-1]
Cap(h, v) == IF v.a = 0 THEN 0 ELSE Len(h[v.a]) - v.lo + 1
Slots(h, v) == [i \in 1..v.n |-> At(h, v, i)]
Rest(v) == View(v.a, v.lo + 1, v.n - 1)                    \* v[1:]
FirstKey(h, v) == At(h, v, 1).k
LastKey(h, v) == At(h, v, v.n).k

RECURSIVE Flatten(_)
Flatten(ss) == IF ss = <<>> THEN <<>> ELSE Head(ss) \o Flatten(Tail(ss))
\* what an owner of buffer b sees (Iter)
Content(h, b) == Flatten([j \in 1..Len(b.ch) |-> Slots(h, b.ch[j])])
\* the buffer as a map key -> change (only meaningful while sorted and unique)
AbsOf(ss) == [k \in 1..K |-> IF \E i \in 1..Len(ss) : ss[i].k = k
                             THEN ss[CHOOSE i \in 1..Len(ss) : ss[i].k = k].c ELSE None]
EntriesOf(m) == LET ks == EntKeys(m) IN [i \in 1..Len(ks) |-> Slot(ks[i], m[ks[i]])]
Remove(s, i) == SubSeq(s, 1, i - 1) \o SubSeq(s, i + 1, Len(s))

----------------------------------------------------------------------------
(* the code's merge. ms = [h, rest, cur, buf, out, size, pt, goal]:           *)
(* m.in (remaining chunks per input), in (current chunk / rest of it per      *)
(* input), m.buf, m.out, m.size, passthru, m.goal                             *)

\* m.buf = append(m.buf, s): in place while there is capacity (the array may be shared!)
AppendSlot(ms, s) ==
    IF ms.buf.n < Cap(ms.h, ms.buf)
    THEN [ms EXCEPT !.h[ms.buf.a][ms.buf.lo + ms.buf.n] = s, !.buf.n = @ + 1]
    ELSE LET n == ms.buf.n
             arr == [i \in 1..(2 * n + 2) |-> IF i <= n THEN At(ms.h, ms.buf, i)
                                               ELSE IF i = n + 1 THEN s ELSE ZeroSlot]
         IN [ms EXCEPT !.h = Append(@, arr), !.buf = View(Len(ms.h) + 1, 1, n + 1)]

RECURSIVE AppendAll(_, _, _)
AppendAll(ms, c, i) == IF i > c.n THEN ms ELSE AppendAll(AppendSlot(ms, At(ms.h, c, i)), c, i + 1)

\* flushbuf: out gets a CLONE of buf, buf is re-used as buf[:0]
FlushBuf(ms) ==
    IF ms.buf.n = 0 THEN ms
    ELSE [ms EXCEPT !.h = Append(@, Slots(ms.h, ms.buf)),
                    !.out = Append(@, View(Len(ms.h) + 1, 1, ms.buf.n)),
                    !.size = @ + ms.buf.n,
                    !.buf.n = 0]

OutputSlot(ms, s2) ==
    LET lst == ms.buf.n IN
    IF lst >= 1 /\ At(ms.h, ms.buf, lst).k = s2.k
    THEN \* s1 := &m.buf[last]; s1.off = Combine(..) in place; dropped when it combines to nothing
         LET c == Combine(At(ms.h, ms.buf, lst).c, s2.c, FALSE)
             m1 == [ms EXCEPT !.h[ms.buf.a][ms.buf.lo + lst - 1].c = c]
         IN IF c = None THEN [m1 EXCEPT !.buf.n = lst - 1] ELSE m1
    ELSE AppendSlot(IF ms.buf.n > ms.goal THEN FlushBuf(ms) ELSE ms, s2)

OutputChunk(ms, c) ==
    IF c.n > ms.goal \div 2
    THEN LET m1 == FlushBuf(ms) IN [m1 EXCEPT !.out = Append(@, c), !.size = @ + c.n]   \* shared with the input
    ELSE IF DevAdoptChunk /\ ms.buf.n = 0
         THEN [ms EXCEPT !.buf = c]                     \* deviation: buf now IS the input chunk
         ELSE AppendAll(ms, c, 1)                       \* copied

CanPass(ms, i) ==
    /\ \A j \in 1..Len(ms.cur) : j # i => LastKey(ms.h, ms.cur[i]) < FirstKey(ms.h, ms.cur[j])
    /\ ~(ms.buf.n >= 1 /\ FirstKey(ms.h, ms.cur[i]) = At(ms.h, ms.buf, ms.buf.n).k)

\* index of the minimum first key, the lowest index on ties (key2 < key)
MinIdx(ms) == CHOOSE i \in 1..Len(ms.cur) :
                \A j \in 1..Len(ms.cur) :
                    \/ FirstKey(ms.h, ms.cur[i]) < FirstKey(ms.h, ms.cur[j])
                    \/ (FirstKey(ms.h, ms.cur[i]) = FirstKey(ms.h, ms.cur[j]) /\ i <= j)

RECURSIVE Run(_)
Run(ms) ==
    IF Len(ms.cur) = 0 THEN FlushBuf(ms)
    ELSE LET i == MinIdx(ms)
             pass == ms.pt /\ CanPass(ms, i)
             m1 == IF pass THEN OutputChunk(ms, ms.cur[i]) ELSE OutputSlot(ms, At(ms.h, ms.cur[i], 1))
         IN IF ~pass /\ ms.cur[i].n > 1
            THEN Run([m1 EXCEPT !.cur[i] = Rest(@)])
            ELSE IF Len(m1.rest[i]) > 0
                 THEN Run([m1 EXCEPT !.cur[i] = Head(m1.rest[i]), !.rest[i] = Tail(@), !.pt = TRUE])
                 ELSE Run([m1 EXCEPT !.cur = Remove(@, i), !.rest = Remove(@, i), !.pt = TRUE])

EmptyIx == [ch |-> <<>>, size |-> 0]

\* ixbuf.Merge(bs...) with goal g: [h |-> heap afterwards, out |-> the result]
MergeOp(h, bs, g) ==
    LET ne == SelectSeq(bs, LAMBDA b : b.size # 0) IN
    IF Len(ne) = 0 THEN [h |-> h, out |-> EmptyIx]
    ELSE IF Len(ne) = 1 THEN [h |-> h, out |-> ne[1]]       \* the input itself
    ELSE LET r == Run([h |-> h,
                       rest |-> [i \in 1..Len(ne) |-> Tail(ne[i].ch)],
                       cur |-> [i \in 1..Len(ne) |-> Head(ne[i].ch)],
                       buf |-> NilView, out |-> <<>>, size |-> 0, pt |-> FALSE, goal |-> g])
         IN [h |-> r.h, out |-> [ch |-> r.out, size |-> r.size]]

----------------------------------------------------------------------------
(* building the input buffers: key by key (ascending), each key goes into a set *)
(* of buffers m \in Memb, and in every one of them either extends the last      *)
(* chunk or starts a new one -- this reaches every assignment of keys to         *)
(* buffers and every chunking (chunks of 1..MaxChunk slots)                      *)
\* valid change sequences over the buffers in order: pattern 1 = add, update, delete, add;
\* pattern 2 = add, delete, add, update
ChangeOf(m, b) ==
    LET idx == Cardinality({b2 \in m : b2 <= b})
        ops == IF pat = 1 THEN <<"add", "upd", "del", "add">> ELSE <<"add", "del", "add", "upd">>
    IN Ch(ops[((idx - 1) % 4) + 1], b)

RECURSIVE AddTo(_, _, _, _, _, _)
AddTo(h, ls, b, k, m, nw) ==
    IF b > NB THEN [h |-> h, ls |-> ls]
    ELSE IF b \notin m THEN AddTo(h, ls, b + 1, k, m, nw)
    ELSE LET s == Slot(k, ChangeOf(m, b))
             nc == Len(ls[b].ch)
         IN IF b \in nw
            THEN AddTo(Append(h, <<s>>),
                       [ls EXCEPT ![b].ch = Append(@, View(Len(h) + 1, 1, 1)), ![b].size = @ + 1],
                       b + 1, k, m, nw)
            ELSE AddTo([h EXCEPT ![ls[b].ch[nc].a] = Append(@, s)],
                       [ls EXCEPT ![b].ch[nc].n = @ + 1, ![b].size = @ + 1],
                       b + 1, k, m, nw)

AddKey(m, nw) ==
    /\ nk < K
    /\ \A b \in m : IF b \in nw THEN TRUE
                    ELSE /\ layers[b].ch # <<>>
                         /\ layers[b].ch[Len(layers[b].ch)].n < MaxChunk
    /\ st' = AddTo(heap, layers, 1, nk + 1, m, nw) @@ [snaps |-> snaps, last |-> last]
    /\ nk' = nk + 1
    /\ UNCHANGED pat

----------------------------------------------------------------------------
Snap(h, ls) == [bufs |-> ls, saw |-> [i \in 1..Len(ls) |-> Content(h, ls[i])]]
NoLast == [got |-> <<>>, want |-> <<>>, size |-> 0]

Init == /\ st = [h |-> <<>>, ls |-> [b \in 1..NB |-> EmptyIx], snaps |-> {}, last |-> NoLast]
        /\ nk = 0
        /\ pat \in Pats

\* the merger replaces layers i..j by their merge; an owner (reader, transaction) that took the
\* layer list before keeps it, and so does everyone who takes the new list
Merged(s, i, j, g) ==
    LET ins == SubSeq(s.ls, i, j)
        r == MergeOp(s.h, ins, g)
        ls == SubSeq(s.ls, 1, i - 1) \o <<r.out>> \o SubSeq(s.ls, j + 1, Len(s.ls))
    IN [h |-> r.h,
        ls |-> ls,
        snaps |-> s.snaps \cup {Snap(s.h, s.ls), Snap(r.h, ls)},
        last |-> [got |-> Content(r.h, r.out),
                  want |-> EntriesOf(MergeSeq([x \in 1..Len(ins) |-> AbsOf(Content(s.h, ins[x]))], FALSE)),
                  size |-> r.out.size]]

MergeRange(i, j, g) ==
    /\ nk = K
    /\ st' = Merged(st, i, j, g)
    /\ UNCHANGED <<nk, pat>>

Next == \/ \E m \in Memb : \E nw \in SUBSET m : AddKey(m, nw)
        \/ \E i, j \in 1..Len(layers) : \E g \in Goals : i < j /\ MergeRange(i, j, g)

Spec == Init /\ [][Next]_vars

----------------------------------------------------------------------------
TypeOK == /\ Len(layers) \in 1..NB
          /\ \A i \in 1..Len(layers) : \A j \in 1..Len(layers[i].ch) :
                LET v == layers[i].ch[j] IN v.a \in 1..Len(heap) /\ v.n >= 1 /\ v.lo + v.n - 1 <= Len(heap[v.a])

\* C11 "input buffers left unchanged": every owner of an older layer list still sees what it saw
InputsUnchanged == \A s \in snaps : \A i \in 1..Len(s.bufs) : Content(heap, s.bufs[i]) = s.saw[i]
\* the same as an action property: no step changes what any existing owner sees
InputsUnchangedStep == [][\A s \in snaps : \A i \in 1..Len(s.bufs) : Content(heap', s.bufs[i]) = s.saw[i]]_vars

\* the chunk level algorithm (pass-through included) computes the abstract merge: sorted, unique, combined
MergeMatches == last.got = last.want
SizeOK == last.size = Len(last.got)
NoInvalidStore == \A i \in 1..Len(last.got) : last.got[i].c.op \in {"add", "upd", "del"}
=============================================================================
