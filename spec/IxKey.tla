------------------------------- MODULE IxKey -------------------------------
(* Composite index key encoding (db19/index/ixkey/ixkey.go, db19/tran.go    *)
(* rangeEnd).  Keys, fields and bounds are sequences of byte values          *)
(* (integers 0..255).  This module is purely definitional (no constants, no  *)
(* variables) so that the exhaustive model (mc/MC_IxKey.tla) and the trace   *)
(* spec (trace/TraceIxKey.tla) share one source of truth.                    *)
(*                                                                          *)
(* Two kinds of definitions:                                                *)
(*  - the SPECIFICATION of the encoding (Enc, KeyOf) and the declarative     *)
(*    meaning of the helpers in terms of field tuples (CmpTuple, Trim,       *)
(*    LeadingMatch, ...): this is what the real code is compared against;    *)
(*  - TRANSCRIPTIONS of the byte-level helper algorithms of the code         *)
(*    (Decode = Split+ReplaceAll, HasPrefixB, SplitPS, JoinPS, TruncB,       *)
(*    RangeEndB): TLC checks in the small scope that they agree with the     *)
(*    declarative meaning (design-level check of the algorithms).            *)
EXTENDS Integers, Sequences, FiniteSets

Sep    == <<0, 0>>                                  \* ixkey.Sep
MaxKey == <<255, 255, 255, 255, 255, 255, 255, 255>> \* ixkey.Max
PackString == 4                                     \* core.PackString (tag byte of packed strings)

MaxI(x, y) == IF x >= y THEN x ELSE y
MinI(x, y) == IF x <= y THEN x ELSE y

RECURSIVE SepN(_)
SepN(n) == IF n <= 0 THEN <<>> ELSE Sep \o SepN(n - 1)

----------------------------------------------------------------------------
(* The encoding *)

\* escape: every zero byte is followed by 1
RECURSIVE EncField(_)
EncField(f) == IF f = <<>> THEN <<>>
               ELSE (IF Head(f) = 0 THEN <<0, 1>> ELSE <<Head(f)>>) \o EncField(Tail(f))

\* drop trailing empty fields
RECURSIVE Trim(_)
Trim(t) == IF t # <<>> /\ t[Len(t)] = <<>> THEN Trim(SubSeq(t, 1, Len(t) - 1)) ELSE t

Pad(t, n) == IF n <= Len(t) THEN t ELSE t \o [i \in 1..(n - Len(t)) |-> <<>>]

\* encoded fields joined by separators, nothing trimmed
RECURSIVE JoinEnc(_)
JoinEnc(t) == IF t = <<>> THEN <<>>
              ELSE IF Len(t) = 1 THEN EncField(t[1])
              ELSE EncField(t[1]) \o Sep \o JoinEnc(Tail(t))

\* the composite key of a field tuple (Encoder.Add* / String, CompKey)
Enc(t) == JoinEnc(Trim(t))

AllEmpty(t) == \A i \in 1..Len(t) : t[i] = <<>>

\* Spec.Key: t = values of Spec.Fields, t2 = values of Spec.Fields2 (<<>> if none)
\*  - no fields: ""; one field and no Fields2: the raw value (not encoded)
\*  - all primary fields empty: "" without Fields2, else one separator per
\*    primary field followed by the (untrimmed) encoded secondary fields
KeyOf(t, t2) ==
    IF Len(t) = 0 THEN <<>>
    ELSE IF Len(t) = 1 /\ t2 = <<>> THEN t[1]
    ELSE IF AllEmpty(t) THEN (IF t2 = <<>> THEN <<>> ELSE SepN(Len(t)) \o JoinEnc(t2))
    ELSE Enc(t)

\* _lower! fields: packed strings (tag byte PackString) are ascii-lowercased
LowerByte(b) == IF 65 <= b /\ b <= 90 THEN b + 32 ELSE b
LowerField(f) == IF f # <<>> /\ f[1] = PackString THEN [i \in 1..Len(f) |-> LowerByte(f[i])] ELSE f
\* lo[i] = 1 means field i is a _lower! field
LowerT(t, lo) == [i \in 1..Len(t) |-> IF lo[i] = 1 THEN LowerField(t[i]) ELSE t[i]]

----------------------------------------------------------------------------
(* Orders *)

\* byte-wise comparison (strings.Compare): -1, 0, +1
RECURSIVE CmpSeq(_, _)
CmpSeq(a, b) == IF a = <<>> THEN (IF b = <<>> THEN 0 ELSE -1)
                ELSE IF b = <<>> THEN 1
                ELSE IF Head(a) < Head(b) THEN -1
                ELSE IF Head(a) > Head(b) THEN 1
                ELSE CmpSeq(Tail(a), Tail(b))

RECURSIVE CmpTup(_, _)   \* same length
CmpTup(a, b) == IF a = <<>> THEN 0
                ELSE LET c == CmpSeq(Head(a), Head(b)) IN
                     IF c # 0 THEN c ELSE CmpTup(Tail(a), Tail(b))

\* field by field, missing trailing fields count as empty
CmpTuple(a, b) == LET n == MaxI(Len(a), Len(b)) IN CmpTup(Pad(a, n), Pad(b, n))

\* Spec.Compare: primary fields, then (only if all of them are empty) the secondary
CmpRec(a, a2, b, b2) ==
    LET c == CmpTuple(a, b) IN
    IF c # 0 THEN c
    ELSE IF AllEmpty(a) /\ AllEmpty(b) THEN CmpTuple(a2, b2) ELSE 0

----------------------------------------------------------------------------
(* Byte-level helpers, transcribed from the code *)

\* position of the first 0,0 at or after i (0 if none): strings.Index(s[i:], Sep)
RECURSIVE FindSep(_, _)
FindSep(s, i) == IF i + 1 > Len(s) THEN 0
                 ELSE IF s[i] = 0 /\ s[i + 1] = 0 THEN i
                 ELSE FindSep(s, i + 1)

\* strings.Split(s, Sep)
RECURSIVE SplitSep(_)
SplitSep(s) == LET p == FindSep(s, 1) IN
               IF p = 0 THEN <<s>>
               ELSE <<SubSeq(s, 1, p - 1)>> \o SplitSep(SubSeq(s, p + 2, Len(s)))

\* strings.Count(s, Sep) (non-overlapping, leftmost)
RECURSIVE CountSep(_)
CountSep(s) == LET p == FindSep(s, 1) IN
               IF p = 0 THEN 0 ELSE 1 + CountSep(SubSeq(s, p + 2, Len(s)))

\* strings.ReplaceAll(s, "\x00\x01", "\x00")
RECURSIVE Unesc(_)
Unesc(s) == IF s = <<>> THEN <<>>
            ELSE IF Len(s) >= 2 /\ s[1] = 0 /\ s[2] = 1 THEN <<0>> \o Unesc(SubSeq(s, 3, Len(s)))
            ELSE <<Head(s)>> \o Unesc(Tail(s))

\* ixkey.Decode
Decode(k) == IF k = <<>> THEN <<>>
             ELSE LET parts == SplitSep(k) IN [i \in 1..Len(parts) |-> Unesc(parts[i])]

\* ixkey.Decode1(k, i) with i counted from 0
Decode1(k, i) == LET d == Decode(k) IN IF i + 1 <= Len(d) THEN d[i + 1] ELSE <<>>

\* ixkey.HasPrefix
HasPrefixB(s, p) ==
    LET sn == Len(s) pn == Len(p) IN
    /\ sn >= pn
    /\ SubSeq(s, 1, pn) = p
    /\ \/ sn = pn
       \/ sn >= pn + 2 /\ s[pn + 1] = 0 /\ s[pn + 2] = 0

RECURSIVE TrimSep(_)
TrimSep(s) == IF Len(s) >= 2 /\ s[Len(s) - 1] = 0 /\ s[Len(s)] = 0
              THEN TrimSep(SubSeq(s, 1, Len(s) - 2)) ELSE s

\* ixkey.SplitPrefixSuffix: <<prefix, suffix>>
RECURSIVE SplitScan(_, _, _)
SplitScan(key, i, n) ==
    IF i + 1 > Len(key) THEN <<key, <<>>>>
    ELSE IF key[i] = 0 /\ key[i + 1] = 0
         THEN (IF n = 1 THEN <<SubSeq(key, 1, i - 1), SubSeq(key, i + 2, Len(key))>>
               ELSE SplitScan(key, i + 2, n - 1))
         ELSE SplitScan(key, i + 1, n)
SplitPS(key, n) == LET r == SplitScan(key, 1, n) IN <<TrimSep(r[1]), r[2]>>

\* ixkey.JoinPrefixSuffix
JoinPS(prefix, n, suffix) == prefix \o SepN(n - CountSep(prefix)) \o suffix

\* db19 rangeEnd(key, n), transcribed: copy the key up to and including its n-th
\* separator, pad to n separators, append Max
RECURSIVE RangeEndScan(_, _, _, _)
RangeEndScan(key, i, n, out) ==   \* <<out, n>>
    IF i > Len(key) THEN <<out, n>>
    ELSE IF key[i] = 0 /\ i + 1 <= Len(key) /\ key[i + 1] = 0
         THEN (IF n - 1 = 0 THEN <<out \o <<0, 0>>, 0>>
               ELSE RangeEndScan(key, i + 2, n - 1, out \o <<0, 0>>))
         ELSE RangeEndScan(key, i + 1, n, Append(out, key[i]))
RangeEndB(key, n) == LET r == RangeEndScan(key, 1, n, <<>>) IN r[1] \o SepN(r[2]) \o MaxKey

\* ixkey.TruncFunc(spec1, spec2) for spec1 = n1 fields (+ Fields2 if f2), spec2 = n2
\* fields without Fields2, n1 >= n2.  fixTrim = FALSE is the code at the pinned
\* commit (cut before the n2-th separator, nothing trimmed; equal field counts are
\* passed through even with Fields2); TRUE trims trailing separators afterwards
\* and does not take the equal-count shortcut when spec1 has Fields2.
RECURSIVE CutAtSep(_, _, _)   \* comp up to (excluding) its n-th separator, or all of it
CutAtSep(comp, pos, n) ==
    LET p == FindSep(SubSeq(comp, pos, Len(comp)), 1) IN
    IF p = 0 THEN comp
    ELSE IF n = 1 THEN SubSeq(comp, 1, pos + p - 2)
    ELSE CutAtSep(comp, pos + p + 1, n - 1)
TruncB(comp, n1, f2, n2, fixTrim) ==
    LET enc1 == n1 > 1 \/ f2 IN
    IF ~enc1 THEN comp                            \* single to single
    ELSE IF n2 = 1 THEN Decode1(comp, 0)          \* to a single (unencoded) field
    ELSE IF n1 = n2 /\ ~(fixTrim /\ f2) THEN comp
    ELSE IF fixTrim THEN TrimSep(CutAtSep(comp, 1, n2)) ELSE CutAtSep(comp, 1, n2)

----------------------------------------------------------------------------
(* Declarative meaning of the helpers *)

\* p (trailing empties irrelevant) matches the leading fields of a; an all-empty
\* p still constrains the first field (a prefix "" is one empty field)
LeadingMatch(a, p) ==
    LET q == Trim(p)
        n == MaxI(1, Len(q))
        m == MaxI(n, Len(a)) IN
    \A i \in 1..n : Pad(a, m)[i] = Pad(q, m)[i]

\* a[1..n] / a[n+1..] with missing fields empty
Lead(a, n) == SubSeq(Pad(a, n), 1, n)
Rest(a, n) == SubSeq(a, n + 1, Len(a))

\* rangeEnd(Enc(p), n) for an n-field leading tuple p
RangeEndOf(p, n) == JoinEnc(Pad(Trim(p), n)) \o Sep \o MaxKey

\* org <= key < end bytewise
InRangeB(key, org, end) == CmpSeq(org, key) <= 0 /\ CmpSeq(key, end) < 0
=============================================================================
