----------------------------- MODULE MetaChain -----------------------------
(* Persistent metadata tables (util/hamt: Hamt, Chain, WriteChain, ReadChain;  *)
(* used by db19/meta for the schema and info tables).  Property C15.           *)
(*                                                                            *)
(* Chain level.  A version of a table is a map  key -> entry.  An entry is    *)
(* absent, live (value > 0) or a tombstone; live entries and tombstones carry *)
(* lastMod = the chain clock at the time they were put (meta.putSchema etc.). *)
(* The database file is a set of immutable chunks, each holding some items    *)
(* and the offset of the previous chunk.  The in-memory chain is              *)
(* (offs, ages, clock): offsets of the chunks of the current chain, oldest    *)
(* first, the minimum lastMod each chunk covers, and a count of the writes.   *)
(*                                                                            *)
(* The operators NMerge, ChunkItems, WriteChain, ReadChain transcribe the code*)
(* (hamt.go nmerge / Hamt.Write / Chain.WriteChain / ReadChain+read).  They   *)
(* are pure so that spec/trace/TraceMetaChain.tla replays recorded executions *)
(* of the real code through the same definitions.  The *property* is stated   *)
(* independently below (ReopenSeesPersisted etc.).                            *)
(*                                                                            *)
(* DevF7 = TRUE reproduces finding F7 (an emptied flatten writes nothing and   *)
(* keeps the old chain); DevF7 = FALSE is the repaired behaviour (empty chain).*)
EXTENDS Integers, Sequences, FiniteSets, TLC

CONSTANTS
    Keys,        \* set of keys (integers)
    Vals,        \* set of values, positive integers
    MaxChain,    \* hamt.go maxChain (7 in the code; a constant here so that
                 \* forced flattening is reached at small scale)
    DevF7,       \* deviation: emptied flatten keeps the old chain (finding F7)
    DevStaleStamp \* deviation: an item may be put with an OLDER clock than the chain's (before
                 \* fix 62705c7 Meta.LayeredOnto stamped a committed table info with the clock
                 \* of the transaction's snapshot)

TOMB == -1                  \* value of a tombstone entry
ALL == -1000000             \* hamt.All (math.MinInt): "every item, no tombstones"
Absent == [v |-> 0, lm |-> 0]
EmptyMap == [k \in Keys |-> Absent]
EmptyChain == [offs |-> <<>>, ages |-> <<>>, clock |-> 0]

Min(a, b) == IF a < b THEN a ELSE b

\* what a reader of the table sees: key -> value, 0 if absent or deleted
Live(h) == [k \in Keys |-> IF h[k].v > 0 THEN h[k].v ELSE 0]

----------------------------------------------------------------------------
(* map operations on one (mutable) version *)

MPut(h, k, v, lm) == [h EXCEPT ![k] = [v |-> v, lm |-> lm]]
MTomb(h, k, lm) == [h EXCEPT ![k] = [v |-> TOMB, lm |-> lm]]
MDelete(h, k) == [h EXCEPT ![k] = Absent]
MHas(h, k) == h[k].v # 0

----------------------------------------------------------------------------
(* the chain, as the code does it *)

RECURSIVE TrailingOnes(_)
TrailingOnes(n) == IF n % 2 = 1 THEN 1 + TrailingOnes(n \div 2) ELSE 0

\* hamt.go nmerge
NMerge(no, clock) == IF no >= MaxChain THEN no ELSE Min(no, TrailingOnes(clock))

\* the items Hamt.Write puts into a chunk: <<key, value>>, value TOMB for tombstones
ChunkItems(h, lastMod) ==
    {<<k, h[k].v>> : k \in {kk \in Keys :
        /\ h[kk].v # 0
        /\ IF lastMod = ALL THEN h[kk].v # TOMB ELSE h[kk].lm >= lastMod}}

\* Chain.WriteChain.  c = [offs, ages, clock], h = the (frozen) map, next = the
\* offset the store will hand out.  Result: wrote (was a chunk allocated), off (the
\* offset to record in the database state), c (the new chain), chunk (if wrote).
WriteChain(c, h, next) ==
    LET no == Len(c.offs)
        merge == NMerge(no, c.clock)
        oldest == IF merge > 0 THEN c.ages[no - merge + 1] ELSE c.clock
        lastMod == IF merge = no THEN ALL ELSE oldest
        prevOff == IF no > 0 /\ merge < no THEN c.offs[no - merge] ELSE 0
        items == ChunkItems(h, lastMod)
    IN  IF items = {}
        THEN IF merge = no /\ ~DevF7
             THEN \* nothing live is left after flattening: the chain is empty
                  [wrote |-> FALSE, off |-> 0,
                   c |-> [offs |-> <<>>, ages |-> <<>>, clock |-> c.clock],
                   chunk |-> [items |-> {}, prev |-> 0]]
             ELSE \* nothing to write, the current chain stays
                  [wrote |-> FALSE, off |-> IF no > 0 THEN c.offs[no] ELSE 0,
                   c |-> c, chunk |-> [items |-> {}, prev |-> 0]]
        ELSE [wrote |-> TRUE, off |-> next,
              c |-> [offs |-> Append(SubSeq(c.offs, 1, no - merge), next),
                     ages |-> Append(SubSeq(c.ages, 1, no - merge), oldest),
                     clock |-> c.clock + 1],
              chunk |-> [items |-> items, prev |-> prevOff]]

\* Hamt.read for all chunks starting at off, newest first: an item is taken only if
\* the key has not been seen in a newer chunk; lastMod = -1, -2, ... by chunk
RECURSIVE ReadFrom(_, _, _, _)
ReadFrom(file, off, lm, acc) ==
    IF off = 0 THEN acc
    ELSE LET chk == file[off]
             acc2 == [k \in Keys |->
                        IF acc[k].v # 0 THEN acc[k]
                        ELSE IF \E it \in chk.items : it[1] = k
                             THEN [v |-> (CHOOSE it \in chk.items : it[1] = k)[2], lm |-> lm]
                             ELSE Absent]
         IN ReadFrom(file, chk.prev, lm - 1, acc2)

\* offsets of the chain ending at off, oldest first
RECURSIVE OffsFrom(_, _)
OffsFrom(file, off) == IF off = 0 THEN <<>> ELSE Append(OffsFrom(file, file[off].prev), off)

\* hamt.ReadChain: map (tombstones included), offs oldest first, ages -n..-1, clock 0
ReadChain(file, off) ==
    LET offs == OffsFrom(file, off)
        n == Len(offs)
    IN [h |-> ReadFrom(file, off, -1, EmptyMap),
        c |-> [offs |-> offs, ages |-> [i \in 1..n |-> i - n - 1], clock |-> 0]]

ReadBack(file, off) == Live(ReadChain(file, off).h)

\* keys that occur (live or as tombstone) in some chunk of the chain ending at off
ChainKeys(file, off) == {k \in Keys : \E o \in {OffsFrom(file, off)[i] : i \in 1..Len(OffsFrom(file, off))} :
                                         \E it \in file[o].items : it[1] = k}

----------------------------------------------------------------------------
(* the state machine explored exhaustively: one line of versions (as db19    *)
(* derives every new Meta from the latest state), persist cycles, reopen     *)

CONSTANTS MaxWrites, MaxReopens

VARIABLES
    cur,        \* current version of the table: [Keys -> [v, lm]]
    c,          \* its chain [offs, ages, clock]
    file,       \* chunks reachable from the recorded offset: id -> [items, prev]
    next,       \* next offset the store hands out
    lastOff,    \* chain offset recorded in the last database state (0 = empty chain)
    persisted,  \* Live(cur) at the last persist: what a reopen must show
    nw, nr      \* counters bounding the exploration

vars == <<cur, c, file, next, lastOff, persisted, nw, nr>>

EmptyFile == [o \in {} |-> 0]
Init == /\ cur = EmptyMap /\ c = EmptyChain /\ file = EmptyFile /\ next = 1 /\ lastOff = 0
        /\ persisted = Live(EmptyMap) /\ nw = 0 /\ nr = 0

\* meta.putSchema / putInfo / Put / Apply / LayeredOnto: lastMod := clock
Put(k, v) == /\ ~(cur[k].v = v /\ cur[k].lm = c.clock)
             /\ cur' = MPut(cur, k, v, c.clock)
             /\ UNCHANGED <<c, file, next, lastOff, persisted, nw, nr>>

\* transaction commit before fix 62705c7: the entry is put (same or new content) with the
\* clock the transaction saw when it began
PutStale(k, v) == /\ DevStaleStamp /\ c.clock > 0
                  /\ \E lm \in 0..(c.clock - 1) :
                        /\ ~(cur[k].v = v /\ cur[k].lm = lm)
                        /\ cur' = MPut(cur, k, v, lm)
                  /\ UNCHANGED <<c, file, next, lastOff, persisted, nw, nr>>

\* meta.Drop / RenameTable: tombstone for an existing entry
Tomb(k) == /\ cur[k].v > 0
           /\ cur' = MTomb(cur, k, c.clock)
           /\ UNCHANGED <<c, file, next, lastOff, persisted, nw, nr>>

\* meta.Drop of a table created since the last persist: physical delete.  Only
\* legitimate when no chunk of the chain mentions the key (meta's `created` test
\* implies this; a delete of a persisted key without tombstone would be a caller
\* error, not a hamt defect).
Delete(k) == /\ cur[k].v # 0
             /\ k \notin ChainKeys(file, lastOff)
             /\ cur' = MDelete(cur, k)
             /\ UNCHANGED <<c, file, next, lastOff, persisted, nw, nr>>

Reachable(f, off) == {OffsFrom(f, off)[i] : i \in 1..Len(OffsFrom(f, off))}

\* Database.persist -> Meta.Write -> WriteChain, state record gets r.off
Persist ==
    /\ nw < MaxWrites
    /\ LET r == WriteChain(c, cur, next)
           f2 == IF r.wrote THEN (next :> r.chunk) @@ file ELSE file
       IN /\ c' = r.c
          /\ lastOff' = r.off
          /\ next' = IF r.wrote THEN next + 1 ELSE next
          /\ nw' = IF r.wrote THEN nw + 1 ELSE nw
          \* chunks that are no longer reachable are garbage (never read again)
          /\ file' = [o \in Reachable(f2, r.off) |-> f2[o]]
    /\ persisted' = Live(cur)
    /\ UNCHANGED <<cur, nr>>

\* close + open: the chain is rebuilt from the recorded offset; changes since
\* the last persist are lost (the database always persists before closing, the
\* harness also reopens without, like a crash after a completed persist)
Reopen ==
    /\ nr < MaxReopens
    /\ LET r == ReadChain(file, lastOff)
       IN cur' = r.h /\ c' = r.c
    /\ nr' = nr + 1
    /\ UNCHANGED <<file, next, lastOff, persisted, nw>>

Next == \/ Persist \/ Reopen
        \/ \E k \in Keys : Tomb(k) \/ Delete(k) \/ \E v \in Vals : Put(k, v) \/ PutStale(k, v)

Spec == Init /\ [][Next]_vars

----------------------------------------------------------------------------
(* Properties (C15, chain part) *)

Entries == [v : Vals \cup {0, TOMB}, lm : Int]

TypeOK == /\ cur \in [Keys -> Entries]
          /\ Len(c.offs) = Len(c.ages)
          /\ lastOff = (IF Len(c.offs) = 0 THEN 0 ELSE c.offs[Len(c.offs)])

\* THE property: reading the chain back yields exactly the live entries as of the
\* last persist
ReopenSeesPersisted == ReadBack(file, lastOff) = persisted

\* ... and immediately after a persist that is the current content
PersistIsCurrent == [][persisted' # persisted \/ lastOff' # lastOff =>
                            ReadBack(file', lastOff') = Live(cur)']_vars

\* the in-memory chain is the chain in the file
ChainMatchesFile == OffsFrom(file, lastOff) = c.offs

ChainBounded == Len(c.offs) <= MaxChain

\* ages are nondecreasing and in the past; lastMods are not in the future
AgesOK == /\ \A i \in 1..Len(c.ages) : c.ages[i] < c.clock
          /\ \A i \in 1..(Len(c.ages) - 1) : c.ages[i] <= c.ages[i + 1]
          /\ \A k \in Keys : cur[k].lm <= c.clock

\* every key the file chain mentions still has an entry (live or tombstone) in memory;
\* this is what makes the tombstone discipline sufficient
MemoryCoversFile == \A k \in ChainKeys(file, lastOff) : cur[k].v # 0

\* the reason the lastMod filter is sound: an entry older than a chunk's age is
\* represented, with its current value, by that chunk's predecessors
RECURSIVE NewestIn(_, _, _)
NewestIn(f, off, k) ==   \* value of the newest occurrence of k at or before off, 0 if none
    IF off = 0 THEN 0
    ELSE IF \E it \in f[off].items : it[1] = k
         THEN (CHOOSE it \in f[off].items : it[1] = k)[2]
         ELSE NewestIn(f, f[off].prev, k)
FilterSound ==
    \A i \in 1..Len(c.offs) : \A k \in Keys :
        (cur[k].v # 0 /\ cur[k].lm < c.ages[i]) =>
            LET nv == NewestIn(file, (IF i = 1 THEN 0 ELSE c.offs[i - 1]), k)
            IN IF cur[k].v = TOMB THEN nv \in {0, TOMB} ELSE nv = cur[k].v

=============================================================================
