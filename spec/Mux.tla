-------------------------------- MODULE Mux --------------------------------
(* One direction of a multiplexed connection (dbms/mux/mux.go, readwrite.go):*)
(* several sessions send messages over one byte stream.                      *)
(*                                                                          *)
(* Writer side (WriteBuf.Write/flush/EndMsg -> conn.write):  a message is    *)
(* sent as 1..MaxFrags frames; every frame = header (size, session, final)   *)
(* + size payload units, appended to the wire ATOMICALLY under conn.wlock;   *)
(* frames of different sessions interleave arbitrarily; only the last frame  *)
(* of a message has final = TRUE; frames may be empty.                       *)
(* Reader side (conn.reader): reads exactly one header (io.ReadFull, i.e. any*)
(* number of short reads), then exactly `size` payload units, appends them   *)
(* to partial[session]; on final it delivers partial[session] and clears it. *)
(*                                                                          *)
(* The content of messages is abstract: Empty / Unit(s,m,k) / Cat(a,b) are   *)
(* parameters, instantiated with sequences for model checking and with       *)
(* composable digests (length + polynomial hashes) for trace validation, so  *)
(* the frame-level operators below are shared by both.                       *)
EXTENDS Naturals, Sequences, FiniteSets, TLC

CONSTANTS
    Sessions,       \* session ids
    MaxMsgs,        \* messages per session
    MaxUnits,       \* payload units per message 0..MaxUnits
    MaxFrags,       \* frames per message 1..MaxFrags
    MaxChunk,       \* a single read returns 1..MaxChunk wire cells
    HdrCells,       \* wire cells per header (short reads can split a header)
    DevSplitWrite,  \* deviation (not the code): header and payload written in two
                    \* critical sections (no wlock around both)
    DevShortRead    \* deviation (not the code): reader uses one Read instead of
                    \* ReadFull for the payload

----------------------------------------------------------------------------
(* Frame level, shared with the trace specification *)

\* sequences as message content (model checking instantiation)
SeqCat(a, b) == a \o b

\* reader: effect of one complete frame fr = [s, data, final] on partial; returns
\* [partial |-> new partial, out |-> <<>> or <<message>>]
RecvFrame(partial, fr, Cat(_, _), Empty) ==
    LET acc == Cat(partial[fr.s], fr.data) IN
    IF fr.final
    THEN [partial |-> [partial EXCEPT ![fr.s] = Empty], out |-> <<acc>>]
    ELSE [partial |-> [partial EXCEPT ![fr.s] = acc], out |-> <<>>]

----------------------------------------------------------------------------
VARIABLES
    nsent,      \* nsent[s]: messages session s has started
    cur,        \* cur[s]: [rest |-> units still to send, nfr |-> frames written] or NoCur
    hdrOnly,    \* DevSplitWrite only: header [s, size, final] written, its payload still pending (or NoHdr)
    wire,       \* cells written and not yet read; header cells <<"H", s, size, final, i>>,
                \* payload cells <<"D", unit>>
    rd,         \* reader: [phase |-> "hdr"|"body", need |-> cells to read, got |-> cells read, hdr |-> header]
    partial,    \* partial[s]: payload units accumulated for s
    sent,       \* history: sent[s] = messages started by s, in order
    delivered   \* history: delivered[s] = messages delivered to s, in order

vars == <<nsent, cur, hdrOnly, wire, rd, partial, sent, delivered>>

NoCur == [rest |-> <<>>, nfr |-> 0, active |-> FALSE]
NoSess == "none"
NoHdr == [s |-> NoSess, size |-> 0, final |-> FALSE]

Unit(s, m, k) == <<s, m, k>>
Message(s, m, n) == [k \in 1..n |-> Unit(s, m, k)]

Init ==
    /\ nsent = [s \in Sessions |-> 0]
    /\ cur = [s \in Sessions |-> NoCur]
    /\ hdrOnly = NoHdr
    /\ wire = <<>>
    /\ rd = [phase |-> "hdr", need |-> HdrCells, got |-> <<>>, hdr |-> NoHdr]
    /\ partial = [s \in Sessions |-> <<>>]
    /\ sent = [s \in Sessions |-> <<>>]
    /\ delivered = [s \in Sessions |-> <<>>]

\* a session starts its next message (PutCmd ... ): n units of content
Start(s, n) ==
    /\ ~cur[s].active /\ nsent[s] < MaxMsgs
    /\ nsent' = [nsent EXCEPT ![s] = @ + 1]
    /\ cur' = [cur EXCEPT ![s] = [rest |-> Message(s, nsent[s] + 1, n), nfr |-> 0, active |-> TRUE]]
    /\ sent' = [sent EXCEPT ![s] = Append(@, Message(s, nsent[s] + 1, n))]
    /\ UNCHANGED <<hdrOnly, wire, rd, partial, delivered>>

HdrSeq(s, size, final) == [i \in 1..HdrCells |-> <<"H", s, size, final, i>>]
DataSeq(us) == [i \in 1..Len(us) |-> <<"D", us[i]>>]

\* conn.write under wlock: one frame with the next j units; final only with all the rest
WriteFrame(s, j, final) ==
    /\ cur[s].active
    /\ hdrOnly = NoHdr
    /\ j <= Len(cur[s].rest)
    /\ final => j = Len(cur[s].rest)
    /\ ~final => cur[s].nfr < MaxFrags - 1         \* the last allowed frame must be final
    /\ LET us == SubSeq(cur[s].rest, 1, j) IN
        IF DevSplitWrite
        THEN /\ wire' = wire \o HdrSeq(s, j, final)
             /\ hdrOnly' = [s |-> s, size |-> j, final |-> final]
             /\ cur' = [cur EXCEPT ![s].nfr = @ + 1]      \* payload follows in WritePayload
        ELSE /\ wire' = wire \o HdrSeq(s, j, final) \o DataSeq(us)
             /\ hdrOnly' = NoHdr
             /\ cur' = IF final THEN [cur EXCEPT ![s] = NoCur]
                        ELSE [cur EXCEPT ![s] = [rest |-> SubSeq(@.rest, j + 1, Len(@.rest)),
                                                 nfr |-> @.nfr + 1, active |-> TRUE]]
    /\ UNCHANGED <<nsent, rd, partial, sent, delivered>>

\* only with DevSplitWrite: the payload of the frame whose header was written before
\* (other sessions' frames may have been written in between)
WritePayload(s) ==
    /\ DevSplitWrite /\ hdrOnly.s = s
    /\ LET h == hdrOnly
           us == SubSeq(cur[s].rest, 1, h.size) IN
        /\ wire' = wire \o DataSeq(us)
        /\ cur' = IF h.final THEN [cur EXCEPT ![s] = NoCur]
                   ELSE [cur EXCEPT ![s].rest = SubSeq(@, h.size + 1, Len(@))]
    /\ hdrOnly' = NoHdr
    /\ UNCHANGED <<nsent, rd, partial, sent, delivered>>

\* with DevSplitWrite another session may write between header and payload
WriteHdrOther(s, j, final) ==
    /\ DevSplitWrite /\ hdrOnly # NoHdr /\ hdrOnly.s # s
    /\ cur[s].active /\ j <= Len(cur[s].rest) /\ (final => j = Len(cur[s].rest))
    /\ (~final => cur[s].nfr < MaxFrags - 1)
    /\ wire' = wire \o HdrSeq(s, j, final) \o DataSeq(SubSeq(cur[s].rest, 1, j))
    /\ cur' = IF final THEN [cur EXCEPT ![s] = NoCur]
               ELSE [cur EXCEPT ![s] = [rest |-> SubSeq(@.rest, j + 1, Len(@.rest)),
                                        nfr |-> @.nfr + 1, active |-> TRUE]]
    /\ UNCHANGED <<nsent, hdrOnly, rd, partial, sent, delivered>>

\* the reader has a complete frame: reassembly (shared operator)
Deliver(hdr, data) ==
    LET units == [i \in 1..Len(data) |-> data[i][2]]
        r == RecvFrame(partial, [s |-> hdr.s, data |-> units, final |-> hdr.final], SeqCat, <<>>) IN
    /\ partial' = r.partial
    /\ delivered' = IF r.out = <<>> THEN delivered
                    ELSE [delivered EXCEPT ![hdr.s] = Append(@, r.out[1])]

\* one Read call of the reader returns k cells (k <= what it asked for, k <= available)
ReadSome(k) ==
    /\ k >= 1 /\ k <= Len(wire) /\ k <= rd.need /\ k <= MaxChunk
    /\ wire' = SubSeq(wire, k + 1, Len(wire))
    /\ LET got == rd.got \o SubSeq(wire, 1, k)
           need == rd.need - k
           done == need = 0 \/ (DevShortRead /\ rd.phase = "body") IN
        IF ~done
        THEN /\ rd' = [rd EXCEPT !.got = got, !.need = need]
             /\ UNCHANGED <<partial, delivered>>
        ELSE IF rd.phase = "hdr"
        THEN LET c == got[1]
                 h == [s |-> c[2], size |-> c[3], final |-> c[4]] IN
             IF h.size = 0
             THEN /\ Deliver(h, <<>>)
                  /\ rd' = [phase |-> "hdr", need |-> HdrCells, got |-> <<>>, hdr |-> NoHdr]
             ELSE /\ rd' = [phase |-> "body", need |-> h.size, got |-> <<>>, hdr |-> h]
                  /\ UNCHANGED <<partial, delivered>>
        ELSE /\ Deliver(rd.hdr, got)
             /\ rd' = [phase |-> "hdr", need |-> HdrCells, got |-> <<>>, hdr |-> NoHdr]
    /\ UNCHANGED <<nsent, cur, hdrOnly, sent>>

Next ==
    \/ \E s \in Sessions, n \in 0..MaxUnits : Start(s, n)
    \/ \E s \in Sessions, j \in 0..MaxUnits, f \in BOOLEAN : WriteFrame(s, j, f)
    \/ \E s \in Sessions : WritePayload(s)
    \/ \E s \in Sessions, j \in 0..MaxUnits, f \in BOOLEAN : WriteHdrOther(s, j, f)
    \/ \E k \in 1..MaxChunk : ReadSome(k)

Fairness == WF_vars(\E k \in 1..MaxChunk : ReadSome(k))
            /\ \A s \in Sessions : WF_vars(\E j \in 0..MaxUnits : WriteFrame(s, j, TRUE))

Spec == Init /\ [][Next]_vars

----------------------------------------------------------------------------
(* Properties (C40, multiplexing part) *)

IsPrefix(a, b) == Len(a) <= Len(b) /\ SubSeq(b, 1, Len(a)) = a

\* every session receives exactly the messages sent to it, complete and in order
\* (what has been delivered is always a prefix of what was sent)
InOrderDelivery == \A s \in Sessions : IsPrefix(delivered[s], sent[s])

\* nothing of another session ever gets into a session's reassembly buffer, and the
\* buffer is a prefix of the message being received
PartialIsOwnPrefix ==
    \A s \in Sessions :
        /\ \A i \in 1..Len(partial[s]) : partial[s][i][1] = s
        /\ Len(delivered[s]) < Len(sent[s]) => IsPrefix(partial[s], sent[s][Len(delivered[s]) + 1])
        /\ Len(delivered[s]) = Len(sent[s]) => partial[s] = <<>>

\* the reader's view of the byte stream stays in step with the frames (it never
\* takes payload for a header or vice versa)
ReaderInSync ==
    /\ \A i \in 1..Len(rd.got) : rd.got[i][1] = (IF rd.phase = "hdr" THEN "H" ELSE "D")
    /\ (Len(wire) > 0 /\ rd.phase = "hdr" /\ rd.got = <<>>) => wire[1][1] = "H"

\* when everything has been written and read, everything has been delivered
Quiescent == /\ \A s \in Sessions : nsent[s] = MaxMsgs /\ ~cur[s].active
             /\ wire = <<>> /\ hdrOnly = NoHdr
AllDeliveredAtEnd == Quiescent => \A s \in Sessions : delivered[s] = sent[s]

\* liveness (with fairness): every started message is eventually delivered
EventuallyDelivered == <>[](\A s \in Sessions : delivered[s] = sent[s] /\ nsent[s] = MaxMsgs)
FairSpec == Spec /\ Fairness /\ \A s \in Sessions : WF_vars(\E n \in 0..MaxUnits : Start(s, n))
=============================================================================
