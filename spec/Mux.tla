-------------------------------- MODULE Mux --------------------------------
(* One direction of a multiplexed connection (dbms/mux/mux.go, readwrite.go):*)
(* several sessions send messages over one byte stream.                      *)
(*                                                                          *)
(* Writer side (WriteBuf.Write/flush/EndMsg -> conn.write):  a message is    *)
(* sent as 1..MaxFrags frames; every frame = header (size, session, final)   *)
(* + size payload units, appended to the wire ATOMICALLY under conn.wlock;   *)
(* frames of different sessions interleave arbitrarily; only the last frame  *)
(* of a message has final = TRUE; frames may be empty.                       *)
(* Reader side (conn.reader): reads exactly one header (io.ReadFull, i.e. any*)
(* number of short reads), then exactly `size` payload units, appends them   *)
(* to partial[session]; on final it delivers partial[session] and clears it. *)
(*                                                                          *)
(* The reader is a sequential function of the byte stream and the writers do *)
(* not depend on the reader, so it loses no behaviour to let a frame be      *)
(* written only when the previous one has been consumed (wire = <<>>): every *)
(* order of frames and every cutting of the stream into reads is still       *)
(* explored.  (With the deviation DevSplitWrite the wire may hold more.)     *)
(*                                                                          *)
(* Message content is abstract: the frame-level operator RecvFrame (module   *)
(* MuxFrames) takes the concatenation as a parameter; it is instantiated     *)
(* with sequences of tagged units here and with composable digests (length + *)
(* polynomial hashes) in the trace specification (spec/trace/TraceMux.tla).  *)
EXTENDS Naturals, Sequences, FiniteSets, TLC, MuxFrames

CONSTANTS
    Sessions,       \* session ids
    MaxMsgs,        \* messages per session
    MaxUnits,       \* payload units per message 0..MaxUnits
    MaxFrags,       \* frames per message 1..MaxFrags
    MaxChunk,       \* a single read returns 1..MaxChunk wire cells
    HdrCells,       \* wire cells per header (short reads can split a header)
    DevSplitWrite,  \* deviation (not the code): header and payload written in two
                    \* critical sections (no wlock around both)
    DevShortRead,   \* deviation (not the code): reader uses one Read instead of
                    \* ReadFull for the payload
    DevLoseFinal    \* deviation (not the code): a final frame that carries MaxUnits
                    \* payload units is written with final = FALSE (buffer-full boundary)

SeqCat(a, b) == a \o b

----------------------------------------------------------------------------
VARIABLES
    nsent,      \* nsent[s]: messages session s has started
    cur,        \* cur[s]: [rest |-> units still to send, nfr |-> frames written, active]
    hdrOnly,    \* DevSplitWrite only: header [s, size, final] written, its payload still pending
    wire,       \* cells written and not yet read: header cells <<"H", s, size, final>>,
                \* payload cells <<"D", unit>>
    rd,         \* reader: [phase |-> "hdr"|"body", need |-> cells to read, got |-> cells read, hdr |-> header]
    partial,    \* partial[s]: payload units accumulated for s
    ndeliv,     \* ndeliv[s]: messages delivered to s
    bad         \* history: some delivered message was not the next message sent to that session

vars == <<nsent, cur, hdrOnly, wire, rd, partial, ndeliv, bad>>

NoCur == [rest |-> <<>>, nfr |-> 0, active |-> FALSE]
NoSess == "none"
NoHdr == [s |-> NoSess, size |-> 0, final |-> FALSE]

\* unit k of the m-th message of session s, which has n units in total
Unit(s, m, k, n) == <<s, m, k, n>>
Message(s, m, n) == [k \in 1..n |-> Unit(s, m, k, n)]

\* msg is exactly the m-th message of s (any length; all units present, in order)
IsMessage(msg, s, m) ==
    \/ msg = <<>>
    \/ msg = Message(s, m, msg[1][4])

Init ==
    /\ nsent = [s \in Sessions |-> 0]
    /\ cur = [s \in Sessions |-> NoCur]
    /\ hdrOnly = NoHdr
    /\ wire = <<>>
    /\ rd = [phase |-> "hdr", need |-> HdrCells, got |-> <<>>, hdr |-> NoHdr]
    /\ partial = [s \in Sessions |-> <<>>]
    /\ ndeliv = [s \in Sessions |-> 0]
    /\ bad = FALSE

\* a session starts its next message: n units of content
Start(s, n) ==
    /\ ~cur[s].active /\ nsent[s] < MaxMsgs
    /\ nsent' = [nsent EXCEPT ![s] = @ + 1]
    /\ cur' = [cur EXCEPT ![s] = [rest |-> Message(s, nsent[s] + 1, n), nfr |-> 0, active |-> TRUE]]
    /\ UNCHANGED <<hdrOnly, wire, rd, partial, ndeliv, bad>>

HdrSeq(s, size, final) == [i \in 1..HdrCells |-> <<"H", s, size, final>>]
DataSeq(us) == [i \in 1..Len(us) |-> <<"D", us[i]>>]

FrameOK(s, j, final) ==
    /\ cur[s].active
    /\ j <= Len(cur[s].rest)
    /\ final => j = Len(cur[s].rest)
    /\ ~final => cur[s].nfr < MaxFrags - 1         \* the last allowed frame must be final

Advance(s, j, final) ==
    IF final THEN [cur EXCEPT ![s] = NoCur]
    ELSE [cur EXCEPT ![s] = [rest |-> SubSeq(@.rest, j + 1, Len(@.rest)), nfr |-> @.nfr + 1, active |-> TRUE]]

\* the final flag as written on the wire
WireFinal(j, final) == IF DevLoseFinal /\ final /\ j = MaxUnits THEN FALSE ELSE final

\* conn.write under wlock: one frame with the next j units
WriteFrame(s, j, final) ==
    /\ FrameOK(s, j, final)
    /\ hdrOnly = NoHdr
    /\ wire = <<>> /\ rd.phase = "hdr" /\ rd.got = <<>>       \* see module comment
    /\ IF DevSplitWrite
       THEN /\ wire' = wire \o HdrSeq(s, j, final)
            /\ hdrOnly' = [s |-> s, size |-> j, final |-> final]
            /\ cur' = cur                                      \* payload follows in WritePayload
       ELSE /\ wire' = wire \o HdrSeq(s, j, WireFinal(j, final)) \o DataSeq(SubSeq(cur[s].rest, 1, j))
            /\ hdrOnly' = NoHdr
            /\ cur' = Advance(s, j, final)
    /\ UNCHANGED <<nsent, rd, partial, ndeliv, bad>>

\* only with DevSplitWrite: the payload of the frame whose header was written before
WritePayload(s) ==
    /\ DevSplitWrite /\ hdrOnly.s = s
    /\ wire' = wire \o DataSeq(SubSeq(cur[s].rest, 1, hdrOnly.size))
    /\ cur' = Advance(s, hdrOnly.size, hdrOnly.final)
    /\ hdrOnly' = NoHdr
    /\ UNCHANGED <<nsent, rd, partial, ndeliv, bad>>

\* only with DevSplitWrite: another session writes a whole frame between the two
WriteBetween(s, j, final) ==
    /\ DevSplitWrite /\ hdrOnly # NoHdr /\ hdrOnly.s # s
    /\ FrameOK(s, j, final)
    /\ wire' = wire \o HdrSeq(s, j, final) \o DataSeq(SubSeq(cur[s].rest, 1, j))
    /\ cur' = Advance(s, j, final)
    /\ UNCHANGED <<nsent, hdrOnly, rd, partial, ndeliv, bad>>

\* the reader has a complete frame: reassembly (shared operator) and delivery
Deliver(hdr, data) ==
    LET units == [i \in 1..Len(data) |-> IF data[i][1] = "D" THEN data[i][2]
                                         ELSE <<NoSess, 0, 0, 0>>]   \* header bytes taken as payload
        r == RecvFrame(partial, [s |-> hdr.s, data |-> units, final |-> hdr.final], SeqCat, <<>>) IN
    /\ partial' = r.partial
    /\ IF r.out = <<>> THEN UNCHANGED <<ndeliv, bad>>
       ELSE /\ ndeliv' = [ndeliv EXCEPT ![hdr.s] = @ + 1]
            /\ bad' = (bad \/ ~IsMessage(r.out[1], hdr.s, ndeliv[hdr.s] + 1)
                           \/ ndeliv[hdr.s] + 1 > nsent[hdr.s])

IdleReader == [phase |-> "hdr", need |-> HdrCells, got |-> <<>>, hdr |-> NoHdr]

\* one Read call of the reader returns k cells (k <= what it asked for, k <= available)
ReadSome(k) ==
    /\ k >= 1 /\ k <= Len(wire) /\ k <= rd.need /\ k <= MaxChunk
    /\ wire' = SubSeq(wire, k + 1, Len(wire))
    /\ LET got == rd.got \o SubSeq(wire, 1, k)
           need == rd.need - k
           done == need = 0 \/ (DevShortRead /\ rd.phase = "body") IN
        IF ~done
        THEN /\ rd' = [rd EXCEPT !.got = got, !.need = need]
             /\ UNCHANGED <<partial, ndeliv, bad>>
        ELSE IF rd.phase = "hdr"
        THEN LET c == got[1]
                 h == [s |-> c[2], size |-> c[3], final |-> c[4]] IN
             IF h.size = 0
             THEN Deliver(h, <<>>) /\ rd' = IdleReader
             ELSE /\ rd' = [phase |-> "body", need |-> h.size, got |-> <<>>, hdr |-> h]
                  /\ UNCHANGED <<partial, ndeliv, bad>>
        ELSE Deliver(rd.hdr, got) /\ rd' = IdleReader
    /\ UNCHANGED <<nsent, cur, hdrOnly>>

\* all messages written and read: stutter (so that TLC's deadlock check means
\* "every other state can make progress")
Terminated ==
    /\ \A s \in Sessions : nsent[s] = MaxMsgs /\ ~cur[s].active
    /\ wire = <<>> /\ hdrOnly = NoHdr
    /\ UNCHANGED vars

Next ==
    \/ \E s \in Sessions, n \in 0..MaxUnits : Start(s, n)
    \/ \E s \in Sessions, j \in 0..MaxUnits, f \in BOOLEAN : WriteFrame(s, j, f)
    \/ \E s \in Sessions : WritePayload(s)
    \/ \E s \in Sessions, j \in 0..MaxUnits, f \in BOOLEAN : WriteBetween(s, j, f)
    \/ \E k \in 1..MaxChunk : ReadSome(k)
    \/ Terminated

Spec == Init /\ [][Next]_vars

----------------------------------------------------------------------------
(* Properties (C40, multiplexing part) *)

IsPrefix(a, b) == Len(a) <= Len(b) /\ SubSeq(b, 1, Len(a)) = a

\* every session receives exactly the messages sent to it, complete and in order
InOrderDelivery == ~bad /\ \A s \in Sessions : ndeliv[s] <= nsent[s]

\* nothing of another session (or another message) ever gets into a session's
\* reassembly buffer, and the buffer is a prefix of the message being received
PartialIsOwnPrefix ==
    \A s \in Sessions :
        partial[s] # <<>> =>
            LET u == partial[s][1] IN
            /\ u[1] = s /\ u[2] = ndeliv[s] + 1 /\ u[2] <= nsent[s]
            /\ IsPrefix(partial[s], Message(s, u[2], u[4]))

\* the reader's view of the byte stream stays in step with the frames (it never
\* takes payload for a header or vice versa)
ReaderInSync ==
    /\ \A i \in 1..Len(rd.got) : rd.got[i][1] = (IF rd.phase = "hdr" THEN "H" ELSE "D")
    /\ (Len(wire) > 0 /\ rd.phase = "hdr" /\ rd.got = <<>>) => wire[1][1] = "H"

\* when everything has been written and read, everything has been delivered
Quiescent == /\ \A s \in Sessions : nsent[s] = MaxMsgs /\ ~cur[s].active
             /\ wire = <<>> /\ hdrOnly = NoHdr
AllDeliveredAtEnd == Quiescent => \A s \in Sessions : ndeliv[s] = nsent[s] /\ partial[s] = <<>>

\* liveness under fairness: all messages are eventually delivered
Fairness == /\ WF_vars(\E k \in 1..MaxChunk : ReadSome(k))
            /\ \A s \in Sessions : /\ WF_vars(\E j \in 0..MaxUnits : WriteFrame(s, j, TRUE))
                                   /\ WF_vars(\E n \in 0..MaxUnits : Start(s, n))
FairSpec == Spec /\ Fairness
EventuallyDelivered == <>[](\A s \in Sessions : ndeliv[s] = MaxMsgs)
=============================================================================
