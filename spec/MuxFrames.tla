----------------------------- MODULE MuxFrames -----------------------------
(* Frame-level reassembly of dbms/mux (conn.reader), independent of how      *)
(* message content is represented.  Shared by Mux.tla (content = sequences   *)
(* of tagged units, exhaustive model checking) and trace/TraceMux.tla        *)
(* (content = composable digests of the real bytes).                         *)

\* effect of one complete frame fr = [s, data, final] on the per-session buffers
\* `partial`; returns [partial |-> new buffers, out |-> <<>> or <<message>>]:
\*   buf = partial[sessionId]; buf = append(buf, data);
\*   if final { delete(partial, sessionId); handler(sessionId, buf) }
\*   else     { partial[sessionId] = buf }
RecvFrame(partial, fr, Cat(_, _), Empty) ==
    LET acc == Cat(partial[fr.s], fr.data) IN
    IF fr.final
    THEN [partial |-> [partial EXCEPT ![fr.s] = Empty], out |-> <<acc>>]
    ELSE [partial |-> [partial EXCEPT ![fr.s] = acc], out |-> <<>>]
=============================================================================
