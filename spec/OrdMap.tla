------------------------------ MODULE OrdMap ------------------------------
(* State machine over the ordered-map operators of OrdMapOps.tla (C10):      *)
(* any bulk-built tree, up to MaxBatches consecutive change batches (every    *)
(* valid batch), then every cursor walk (one range per cursor; Next / Prev /  *)
(* Seek / Rewind) on the resulting version.  See OrdMapOps.tla for the        *)
(* correspondence with db19/index/btree.                                      *)
EXTENDS OrdMapOps

(* state machine for exhaustive checking *)

CONSTANTS K,            \* key universe 1..K
          Offs,         \* offsets
          MaxBatches,   \* consecutive change batches
          DevCountDrift \* deviation for self-test: an update also increments count

VARIABLES m,            \* the current map (latest tree version)
          count,        \* the tree's count field as the code maintains it
          nb,           \* batches applied
          ok,           \* observation: the last step agreed with its declarative meaning (below)
          cur, org, end \* one cursor on the current version and its range

vars == <<m, count, nb, ok, cur, org, end>>

Keys == 1..K
MapsOver == [Keys -> Offs \cup {0}]

Init == /\ m \in MapsOver          \* any bulk-built tree
        /\ count = Count(m)
        /\ nb = 0
        /\ ok = TRUE
        /\ cur = CurRew /\ org = 0 /\ end = K + 1

\* all valid batches for map mm: per key nothing, or a change that is valid for it
ChangeChoices(mm, k) ==
    IF mm[k] = 0 THEN {[k |-> k, op |-> "add", off |-> o] : o \in Offs}
    ELSE {[k |-> k, op |-> "upd", off |-> o] : o \in Offs} \cup {[k |-> k, op |-> "del", off |-> mm[k]]}

RECURSIVE BatchesFrom(_, _)
BatchesFrom(mm, k) ==
    IF k > Len(mm) THEN {<<>>}
    ELSE LET rest == BatchesFrom(mm, k + 1) IN
         rest \cup {<<c>> \o r : c \in ChangeChoices(mm, k), r \in rest}
Batches(mm) == BatchesFrom(mm, 1)

DoBatch(b) ==
    /\ b # <<>>
    /\ ValidBatch(m, b)
    /\ m' = MergeBatch(m, b)
    /\ count' = (count + CountDelta(b, DevCountDrift)) - Dels(b)
    /\ nb' = nb + 1
    /\ ok' = BatchMeaning(m, b, MergeBatch(m, b))
    /\ UNCHANGED <<cur, org, end>>

\* (a range is chosen once per cursor in the model: Range() rewinds, so nothing is lost)
SetRange(o, e) == /\ org = 0 /\ end = K + 1 /\ cur.st = "rew"
                  /\ org' = o /\ end' = e /\ cur' = CurRew /\ UNCHANGED <<m, count, nb, ok>>
CurRewind == /\ cur.st # "rew" /\ cur' = CurRew /\ UNCHANGED <<m, count, nb, ok, org, end>>
CurNext == /\ cur' = CNext(m, cur, org, end)
           /\ ok' = NextMeaning(m, cur, CNext(m, cur, org, end), org, end)
           /\ UNCHANGED <<m, count, nb, org, end>>
CurPrev == /\ cur' = CPrev(m, cur, org, end)
           /\ ok' = PrevMeaning(m, cur, CPrev(m, cur, org, end), org, end)
           /\ UNCHANGED <<m, count, nb, org, end>>
CurSeek(k) == /\ cur' = CSeek(m, k, org, end)
              /\ ok' = SeekMeaning(m, k, CSeek(m, k, org, end), org, end)
              /\ UNCHANGED <<m, count, nb, org, end>>

BatchStep == /\ nb < MaxBatches
             /\ cur.st = "rew" /\ org = 0 /\ end = K + 1      \* iterators belong to one version
             /\ \E b \in Batches(m) : DoBatch(b)

Step == \/ BatchStep
        \/ \E o \in 0..(K + 1), e \in 0..(K + 1) : SetRange(o, e)
        \/ CurRewind \/ CurNext \/ CurPrev
        \/ \E k \in 0..(K + 1) : CurSeek(k)

Spec == Init /\ [][Step]_vars

----------------------------------------------------------------------------
(* properties (C10) *)

TypeOK == /\ m \in MapsOver
          /\ cur.st \in {"rew", "in", "eof"}
          /\ nb \in 0..MaxBatches

\* RangeFrac and Check rely on it
CountOK == count = Count(m)

\* iteration yields exactly the current keys in order, both ways
IterOK == LET a == Asc(m) IN
          /\ \A i \in 1..(Len(a) - 1) : a[i] < a[i + 1]
          /\ {a[i] : i \in 1..Len(a)} = KeysOf(m)
          /\ Desc(m) = Reverse(a)

\* a positioned cursor is on a live key inside its range
CursorOK == cur.st = "in" => cur.cur \in KeysOf(m) /\ org <= cur.cur /\ cur.cur < end

\* every batch / Next / Prev / Seek step had its declarative meaning
MeaningOK == ok
=============================================================================
