----------------------------- MODULE OrdMapOps -----------------------------
(* Ordered map rank -> offset with a cursor: the reference model for the     *)
(* stored btree (db19/index/btree), C10.                                     *)
(*                                                                           *)
(* A map over the key universe 1..K is a sequence m of length K; m[k] = 0    *)
(* means "k is absent", otherwise m[k] is the record offset (an id).         *)
(* Everything is written as operators over such a value so that the trace    *)
(* spec (spec/trace/TraceOrdMap.tla) replays recorded executions of the real *)
(* code through exactly these definitions.                                   *)
(*                                                                           *)
(* What the code does and how it is modelled:                                *)
(*   Builder.Add* / Finish          Build(pairs)   bulk load of sorted keys,  *)
(*                                                 a duplicate key is refused *)
(*   btree.MergeAndSave(ixbuf iter) MergeBatch(m, b) applies a key-sorted     *)
(*                                  batch of add / update / delete one after  *)
(*                                  the other (merge.go: advanceTo +          *)
(*                                  updateLeaf per entry) and maintains       *)
(*                                  count = count + adds - deletes            *)
(*   Lookup, Iterator Next/Prev/Seek/Rewind/Range   the cursor operators      *)
(* The tree is immutable-persistent: MergeAndSave returns a NEW tree, the old *)
(* one stays valid; the spec keeps the map of the version being operated on.  *)
EXTENDS Naturals, Sequences, FiniteSets, TLC

(* This module holds the constant-free operators (shared by OrdMap.tla, the   *)
(* state machine checked exhaustively, and by the trace specs TraceOrdMap.tla  *)
(* and TraceIxBuf.tla).                                                        *)

----------------------------------------------------------------------------
(* pure operators *)

KeysOf(m) == {k \in 1..Len(m) : m[k] # 0}
Count(m) == Cardinality(KeysOf(m))
Lookup(m, k) == m[k]

EmptyMap(K) == [k \in 1..K |-> 0]

\* keys in ascending order
Asc(m) == LET Present(k) == m[k] # 0 IN SelectSeq([k \in 1..Len(m) |-> k], Present)
Reverse(s) == [i \in 1..Len(s) |-> s[Len(s) + 1 - i]]
Desc(m) == Reverse(Asc(m))
OffsOf(m, ks) == [i \in 1..Len(ks) |-> m[ks[i]]]

\* least key >= k, or 0 if none; greatest key < k, or 0 if none
\* (TLC enumerates a set of integers in ascending order, so this CHOOSE succeeds on the first
\* element: linear. The maximum is computed through the mirrored set for the same reason;
\* N is any number >= every element. Traces with ~2000 keys need this.)
Min(S) == CHOOSE x \in S : \A y \in S : x <= y
MaxB(S, N) == N - Min({N - x : x \in S})
FirstGE(m, k) == LET S == {x \in KeysOf(m) : x >= k} IN IF S = {} THEN 0 ELSE Min(S)
LastLT(m, k) == LET S == {x \in KeysOf(m) : x < k} IN IF S = {} THEN 0 ELSE MaxB(S, k)
LastKey(m) == LET S == KeysOf(m) IN IF S = {} THEN 0 ELSE MaxB(S, Len(m))

(* changes: [k |-> key, op |-> "add" | "upd" | "del", off |-> offset] *)
ValidChange(m, c) ==
    /\ c.k \in 1..Len(m)
    /\ CASE c.op = "add" -> m[c.k] = 0 /\ c.off # 0
         [] c.op = "upd" -> m[c.k] # 0 /\ c.off # 0
         [] c.op = "del" -> m[c.k] # 0
         [] OTHER -> FALSE

Apply(m, c) == IF c.op = "del" THEN [m EXCEPT ![c.k] = 0] ELSE [m EXCEPT ![c.k] = c.off]

\* a batch is a sequence of changes strictly increasing by key (what ixbuf.Iter yields)
SortedBatch(b) == \A i \in 1..(Len(b) - 1) : b[i].k < b[i + 1].k
ValidBatch(m, b) == SortedBatch(b) /\ \A i \in 1..Len(b) : ValidChange(m, b[i])

\* the code: one entry after the other
RECURSIVE MergeBatch(_, _)
MergeBatch(m, b) == IF b = <<>> THEN m ELSE MergeBatch(Apply(m, Head(b)), Tail(b))

\* the code's count bookkeeping (state.count in merge.go)
RECURSIVE CountDelta(_, _)
CountDelta(b, devDrift) ==
    IF b = <<>> THEN 0
    ELSE LET c == Head(b)
             d == CountDelta(Tail(b), devDrift) IN
         CASE c.op = "add" -> d + 1
           [] c.op = "upd" -> IF devDrift THEN d + 1 ELSE d
           [] OTHER -> d     \* deletes are subtracted separately (naturals)
RECURSIVE Dels(_)
Dels(b) == IF b = <<>> THEN 0 ELSE (IF Head(b).op = "del" THEN 1 ELSE 0) + Dels(Tail(b))

\* the property, declaratively: what a batch must do to the map
DeclMerge(m, b) ==
    [k \in 1..Len(m) |->
        IF \E i \in 1..Len(b) : b[i].k = k
        THEN LET c == b[CHOOSE i \in 1..Len(b) : b[i].k = k] IN
             IF c.op = "del" THEN 0 ELSE c.off
        ELSE m[k]]

\* bulk build: keys ks (non-decreasing) with offsets offs, in Add order;
\* Builder.Add returns false for a key equal to the previous one and ignores it
SortedKs(ks) == \A i \in 1..(Len(ks) - 1) : ks[i] <= ks[i + 1]
Added(ks, i) == i = 1 \/ ks[i] # ks[i - 1]
\* least index i with ks[i] >= k (binary search), Len(ks) + 1 if none
RECURSIVE LowerBound(_, _, _, _)
LowerBound(ks, k, lo, hi) ==      \* answer in lo..hi
    IF lo >= hi THEN lo
    ELSE LET mid == (lo + hi) \div 2 IN
         IF ks[mid] >= k THEN LowerBound(ks, k, lo, mid) ELSE LowerBound(ks, k, mid + 1, hi)
Build(K, ks, offs) ==
    [k \in 1..K |->
        LET i == LowerBound(ks, k, 1, Len(ks) + 1) IN      \* the first of equal keys is the one added
        IF i <= Len(ks) /\ ks[i] = k THEN offs[i] ELSE 0]

----------------------------------------------------------------------------
(* cursor: [st |-> "rew" | "in" | "eof", cur |-> key or 0]; range org <= k < end *)
(* (iter.go: Next / Prev / Seek / Rewind / Range of btree.Iterator; the ixbuf    *)
(* iterator has the same contract)                                              *)

CurRew == [st |-> "rew", cur |-> 0]
CurEof == [st |-> "eof", cur |-> 0]
CurAt(k, org, end) == IF k # 0 /\ org <= k /\ k < end THEN [st |-> "in", cur |-> k] ELSE CurEof

CNext(m, c, org, end) ==
    CASE c.st = "rew" -> CurAt(FirstGE(m, org), org, end)
      [] c.st = "in"  -> CurAt(FirstGE(m, c.cur + 1), org, end)
      [] OTHER        -> CurEof                      \* sticks at eof

CPrev(m, c, org, end) ==
    CASE c.st = "rew" -> CurAt(LastLT(m, end), org, end)
      [] c.st = "in"  -> CurAt(LastLT(m, c.cur), org, end)
      [] OTHER        -> CurEof

\* Seek: first key >= k; if there is none the LAST key (SeekAll's documented behaviour);
\* outside of the range (or empty tree) => eof
CSeek(m, k, org, end) ==
    LET g == FirstGE(m, k) IN CurAt(IF g # 0 THEN g ELSE LastKey(m), org, end)

----------------------------------------------------------------------------
(* skip-scan (iter.go / ixbuf.go SkipScan): keys are composite; pg[k] is the rank of key k's     *)
(* prefix (its first skipStart fields) among all prefixes, sf[k] the rank of its suffix among    *)
(* all suffixes. The iterator shows exactly the live keys whose prefix lies in [po, pe) and      *)
(* whose suffix lies in [so, se), in key order; sk = <<po, pe, so, se>>.                          *)
Visible(m, pg, sf, sk) ==
    {k \in 1..Len(m) : m[k] # 0 /\ sk[1] <= pg[k] /\ pg[k] < sk[2] /\ sk[3] <= sf[k] /\ sf[k] < sk[4]}
VAt(S) == IF S = {} THEN CurEof ELSE [st |-> "in", cur |-> Min(S)]
VAtMax(S, N) == IF S = {} THEN CurEof ELSE [st |-> "in", cur |-> MaxB(S, N)]
VNext(vis, c) == CASE c.st = "rew" -> VAt(vis)
                   [] c.st = "in"  -> VAt({k \in vis : k > c.cur})
                   [] OTHER        -> CurEof
VPrev(vis, c, N) == CASE c.st = "rew" -> VAtMax(vis, N)
                      [] c.st = "in"  -> VAtMax({k \in vis : k < c.cur}, N)
                      [] OTHER        -> CurEof
\* Seek in skip-scan mode: first visible key >= k, else the last visible key, eof if nothing is visible
VSeek(vis, k, N) == LET ge == {x \in vis : x >= k} IN IF ge # {} THEN VAt(ge) ELSE VAtMax(vis, N)

----------------------------------------------------------------------------
(* declarative meanings, stated independently of the operators used by the actions *)
InRange(mm, k, o, e) == k \in 1..Len(mm) /\ mm[k] # 0 /\ o <= k /\ k < e   \* (k \in KeysOf(mm), spelled out: TLC would enumerate the set)

\* a batch: listed keys get their new value, all other keys keep theirs
BatchMeaning(mm, b, mm2) ==
    /\ mm2 = DeclMerge(mm, b)
    /\ \A k \in 1..Len(mm) : (\A i \in 1..Len(b) : b[i].k # k) => mm2[k] = mm[k]

\* Next: the least key in range above the current position (rewound: in range at all), else eof
NextMeaning(mm, c, c2, o, e) ==
    LET above == {k \in 1..Len(mm) : InRange(mm, k, o, e) /\ (c.st = "in" => k > c.cur)} IN
    CASE c.st = "eof" -> c2.st = "eof"
      [] above = {}   -> c2.st = "eof"
      [] OTHER        -> c2.st = "in" /\ c2.cur \in above /\ \A k \in above : c2.cur <= k

PrevMeaning(mm, c, c2, o, e) ==
    LET below == {k \in 1..Len(mm) : InRange(mm, k, o, e) /\ (c.st = "in" => k < c.cur)} IN
    CASE c.st = "eof" -> c2.st = "eof"
      [] below = {}   -> c2.st = "eof"
      [] OTHER        -> c2.st = "in" /\ c2.cur \in below /\ \A k \in below : c2.cur >= k

\* Seek(k): least key >= k, if none the greatest key; eof if that is outside the range
SeekMeaning(mm, k, c2, o, e) ==
    LET ge == {x \in KeysOf(mm) : x >= k}
        tgt == IF ge # {} THEN Min(ge) ELSE IF KeysOf(mm) # {} THEN MaxB(KeysOf(mm), Len(mm)) ELSE 0 IN
    IF tgt # 0 /\ o <= tgt /\ tgt < e THEN c2 = [st |-> "in", cur |-> tgt] ELSE c2.st = "eof"

=============================================================================
