------------------------------- MODULE Overlay -------------------------------
(* C09: index iteration over layered content (db19/index: Overlay, OverIter). *)
(*                                                                            *)
(* State: the content of ONE index as the code holds it (stored btree +       *)
(* immutable layers + the transaction's mutable layer) and ONE OverIter with  *)
(* its per-source iterators, transcribed from overiter.go: update/newIters,   *)
(* the rewound path, modNext/modPrev (re-seek after modification, direction   *)
(* change), minIter/maxIter (k-way merge, the most recent layer wins, deleted *)
(* keys are skipped), the fast path (fastIdx, secondMin/secondMax) and the    *)
(* read ranges reported to the transaction.                                   *)
(* Content actions are the public operations real commits use: Insert /       *)
(* Update / Delete on the mutable layer, Mutable (first write of the          *)
(* transaction: a new Overlay object), UpdateWith (commit: the mutable layer  *)
(* becomes the top layer, same object), Merge+WithMerged, Save+WithSaved.     *)
(*                                                                            *)
(* The PROPERTY is stated with the reference iterator of OverlayOps (RefNext: *)
(* least present visible key greater than the current one in the content at   *)
(* the time of the call ...): `ref` is stepped in lockstep and the invariant  *)
(* Agree demands that the transcribed algorithm returns the same.             *)
EXTENDS OverlayOps, TLC

CONSTANTS
    NP, NS,         \* prefixes x suffixes; keys 1..NP*NS
    MaxLayers,      \* bound on Len(layers)
    MaxSteps,       \* bound on the length of behaviours
    InitLayer,      \* TRUE: initial states also have a non-empty base layer
    RangeChoices,   \* set of <<org, end>>
    SkipChoices,    \* set of <<porg, pend, sorg, send>>
    DevFirstWins,   \* deviation: at a tie the FIRST (oldest) source decides (not the code)
    DevFastNoSecond,\* deviation: fast path ignores secondMin/secondMax (not the code)
    DevNoReseek,    \* deviation: modification of the mutable layer is not noticed (not the code)
    AllowMoved,     \* TRUE: commits onto a state that moved on since the snapshot (CommitMoved)
    InPlaceCommit   \* TRUE: UpdateWith changes the Overlay object in place, as at the pinned commit
                    \* (finding F17); FALSE: it returns a new object (the repaired code)

U == [np |-> NP, ns |-> NS]
K == NP * NS
MX == K + 1

VARIABLES
    c,        \* content [bt, layers, hasMut, mut]
    oi,       \* the OverIter (see NewOi)
    ref,      \* reference iterator [st, cur, off, r]
    rd,       \* read ranges reported by the last Next/Prev: sequence of <<lo, hi>>
    req,      \* keys the last step had to cover
    nextOff,  \* next fresh record offset
    steps,
    frozen,   \* TRUE: the iterators of oi still read the sources they were built on (iv)
    iv        \* although the Overlay object now has other layers (in-place commit)

vars == <<c, oi, ref, rd, req, nextOff, steps, frozen, iv>>

----------------------------------------------------------------------------
(* sources of the per-layer iterators: index 1 = btree, then layers, then mut *)
NSrc(cc) == 1 + Len(AllLayers(cc))
SrcKeys(cc, i) == IF i = 1 THEN {k \in KeySet(U) : cc.bt[k] # 0}
                  ELSE {k \in KeySet(U) : AllLayers(cc)[i - 1][k].op # "none"}
SrcEntry(cc, i, k) == IF i = 1 THEN Add(cc.bt[k]) ELSE AllLayers(cc)[i - 1][k]

\* OverIter: st/cur/coff = state, curKey, curOff; lastDir 0 (none), 1 (next), -1 (prev);
\* fastIdx 0 = none; stale = the overlay object differs from oi.overlay; its = iterators
NewOi == [st |-> "rewound", cur |-> 0, coff |-> 0, lastDir |-> 0, fastIdx |-> 0,
          secMin |-> 0, secMax |-> 0, stale |-> TRUE, its |-> <<>>, r |-> AllRange(U)]

FreshIts(cc) == [i \in 1..NSrc(cc) |-> NewLit]

ItKey(o, i) == o.its[i].k
ItEntry(cc, o, i) == IF o.its[i].st = "in" THEN SrcEntry(cc, i, o.its[i].k) ELSE None
ItMod(o, i) == o.its[i].mod /\ ~DevNoReseek

MapIts(cc, o, F(_, _)) == [o EXCEPT !.its = [i \in 1..Len(o.its) |-> F(i, o.its[i])]]

LN(cc, o, i, lit) == LNext(U, SrcKeys(cc, i), o.r, lit)
LP(cc, o, i, lit) == LPrev(U, SrcKeys(cc, i), o.r, lit)
LS(cc, o, i, lit, x) == LSeek(U, SrcKeys(cc, i), o.r, lit, x)

----------------------------------------------------------------------------
(* minIter / maxIter *)
LiveEnt(e) == IF e.op \in {"add", "upd"} THEN e ELSE None

\* one pass over the iterators: acc = [kmin, sec, win, res]
RECURSIVE MinScan(_, _, _, _)
MinScan(cc, o, i, acc) ==
    IF i > Len(o.its) THEN acc
    ELSE LET key == ItKey(o, i)
             e == ItEntry(cc, o, i)
             a1 == IF key < acc.kmin
                      THEN [acc EXCEPT !.sec = IF acc.kmin < acc.sec THEN acc.kmin ELSE acc.sec,
                                       !.kmin = key, !.win = i]
                   ELSE IF key = acc.kmin
                      THEN [acc EXCEPT !.sec = IF acc.kmin < acc.sec THEN acc.kmin ELSE acc.sec]
                   ELSE [acc EXCEPT !.sec = IF key < acc.sec THEN key ELSE acc.sec]
             a2 == IF key = a1.kmin /\ (~DevFirstWins \/ a1.win = i) THEN [a1 EXCEPT !.res = LiveEnt(e)] ELSE a1
         IN MinScan(cc, o, i + 1, a2)

\* returns [found, o]; o.cur/o.coff set when found
RECURSIVE MinIter(_, _)
MinIter(cc, o) ==
    LET acc == MinScan(cc, o, 1, [kmin |-> MX, sec |-> MX, win |-> 0, res |-> None]) IN
    IF acc.kmin = MX THEN [found |-> FALSE, o |-> [o EXCEPT !.fastIdx = 0, !.cur = 0, !.coff = 0]]
    ELSE IF acc.res.op # "none"
         THEN [found |-> TRUE, o |-> [o EXCEPT !.fastIdx = acc.win, !.secMin = acc.sec,
                                               !.cur = acc.kmin, !.coff = acc.res.off]]
    ELSE \* deleted key: advance every iterator that is on it and look again
         MinIter(cc, MapIts(cc, [o EXCEPT !.fastIdx = 0],
                            LAMBDA i, lit : IF lit.k = acc.kmin THEN LN(cc, o, i, lit) ELSE lit))

RECURSIVE MaxScan(_, _, _, _)
MaxScan(cc, o, i, acc) ==      \* acc = [found, kmax, sec, win, res]
    IF i > Len(o.its) THEN acc
    ELSE IF o.its[i].st = "eof" THEN MaxScan(cc, o, i + 1, acc)
    ELSE LET key == ItKey(o, i)
             e == ItEntry(cc, o, i)
             a1 == IF ~acc.found \/ key > acc.kmax
                      THEN [acc EXCEPT !.sec = IF acc.found /\ acc.kmax > acc.sec THEN acc.kmax ELSE acc.sec,
                                       !.kmax = key, !.win = i, !.found = TRUE]
                   ELSE IF key = acc.kmax
                      THEN [acc EXCEPT !.sec = IF acc.kmax > acc.sec THEN acc.kmax ELSE acc.sec]
                   ELSE [acc EXCEPT !.sec = IF key > acc.sec THEN key ELSE acc.sec]
             a2 == IF key = a1.kmax /\ (~DevFirstWins \/ a1.win = i) THEN [a1 EXCEPT !.res = LiveEnt(e)] ELSE a1
         IN MaxScan(cc, o, i + 1, a2)

RECURSIVE MaxIter(_, _)
MaxIter(cc, o) ==
    LET acc == MaxScan(cc, o, 1, [found |-> FALSE, kmax |-> 0, sec |-> 0, win |-> 0, res |-> None]) IN
    IF ~acc.found THEN [found |-> FALSE, o |-> [o EXCEPT !.fastIdx = 0, !.cur = 0, !.coff = 0]]
    ELSE IF acc.res.op # "none"
         THEN [found |-> TRUE, o |-> [o EXCEPT !.fastIdx = acc.win, !.secMax = acc.sec,
                                               !.cur = acc.kmax, !.coff = acc.res.off]]
    ELSE MaxIter(cc, MapIts(cc, [o EXCEPT !.fastIdx = 0],
                            LAMBDA i, lit : IF lit.st # "eof" /\ lit.k = acc.kmax THEN LP(cc, o, i, lit) ELSE lit))

----------------------------------------------------------------------------
(* modNext / modPrev *)
ModNext(cc, o, modified) ==
    MapIts(cc, o, LAMBDA i, lit :
        IF modified \/ ItMod(o, i)
        THEN LET a == LS(cc, o, i, lit, o.cur) IN IF a.k <= o.cur THEN LN(cc, o, i, a) ELSE a
        ELSE IF o.lastDir # 1
        THEN LN(cc, o, i, IF lit.st = "eof" THEN LRewind(lit) ELSE lit)
        ELSE IF lit.k = o.cur THEN LN(cc, o, i, lit) ELSE lit)

ModPrev(cc, o, modified) ==
    MapIts(cc, o, LAMBDA i, lit :
        IF modified \/ ItMod(o, i)
        THEN LET a == LS(cc, o, i, lit, o.cur)
                 b == IF a.st = "eof" THEN LRewind(a) ELSE a
             IN IF b.k >= o.cur THEN LP(cc, o, i, b) ELSE b
        ELSE IF o.lastDir # -1
        THEN LP(cc, o, i, IF lit.st = "eof" THEN LRewind(lit) ELSE lit)
        ELSE IF lit.k = o.cur THEN LP(cc, o, i, lit) ELSE lit)

\* the code panics if a source other than the last reports Modified
ModifiedOnlyLast(o) == \A i \in 1..Len(o.its) : o.its[i].mod => i = Len(o.its)

CanFast(o, modified, d) ==
    /\ ~modified /\ o.lastDir = d /\ o.fastIdx > 0
    /\ ~ItMod(o, Len(o.its))

----------------------------------------------------------------------------
(* Next / Prev: result [o, rd] *)
OiUpdate(cc, o) == IF o.stale THEN [o EXCEPT !.its = FreshIts(cc), !.stale = FALSE] ELSE o

NextFinish(cc, o, prevKey) ==
    LET m == MinIter(cc, o) IN
    IF m.found THEN [o |-> [m.o EXCEPT !.lastDir = 1], rd |-> <<<<prevKey, m.o.cur>>>>]
    ELSE [o |-> [m.o EXCEPT !.st = "eof", !.lastDir = 1], rd |-> <<<<prevKey, EndRank(U, o.r)>>>>]

OiNext(cc, o0) ==
    IF o0.st = "eof" THEN [o |-> o0, rd |-> <<>>]
    ELSE
    LET modified == o0.stale
        o1 == OiUpdate(cc, o0)
        prevKey == o1.cur
    IN
    IF o1.st = "rewound"
    THEN NextFinish(cc, [MapIts(cc, o1, LAMBDA i, lit : LN(cc, o1, i, lit)) EXCEPT !.st = "within", !.fastIdx = 0],
                    OrgRank(U, o1.r))
    ELSE IF CanFast(o1, modified, 1)
    THEN \* fastNext
         LET w == o1.fastIdx
             o2 == [o1 EXCEPT !.its[w] = LN(cc, o1, w, @)]
         IN IF o2.its[w].st # "eof" /\ (DevFastNoSecond \/ o2.its[w].k < o2.secMin)
            THEN [o |-> [o2 EXCEPT !.cur = o2.its[w].k, !.coff = SrcEntry(cc, w, o2.its[w].k).off, !.lastDir = 1],
                  rd |-> <<<<prevKey, o2.its[w].k>>>>]
            ELSE \* fall back: modNext(false) inside fastNext, then the else branch again
                 NextFinish(cc, ModNext(cc, ModNext(cc, [o2 EXCEPT !.fastIdx = 0], FALSE), modified), prevKey)
    ELSE NextFinish(cc, ModNext(cc, [o1 EXCEPT !.fastIdx = 0], modified), prevKey)

PrevFinish(cc, o, prevKey) ==
    LET m == MaxIter(cc, o) IN
    IF m.found THEN [o |-> [m.o EXCEPT !.lastDir = -1], rd |-> <<<<m.o.cur, prevKey>>>>]
    ELSE [o |-> [m.o EXCEPT !.st = "eof", !.lastDir = -1], rd |-> <<<<OrgRank(U, o.r), prevKey>>>>]

OiPrev(cc, o0) ==
    IF o0.st = "eof" THEN [o |-> o0, rd |-> <<>>]
    ELSE
    LET modified == o0.stale
        o1 == OiUpdate(cc, o0)
        prevKey == o1.cur
    IN
    IF o1.st = "rewound"
    THEN PrevFinish(cc, [MapIts(cc, o1, LAMBDA i, lit : LP(cc, o1, i, lit)) EXCEPT !.st = "within", !.fastIdx = 0],
                    EndRank(U, o1.r))
    ELSE IF CanFast(o1, modified, -1)
    THEN LET w == o1.fastIdx
             o2 == [o1 EXCEPT !.its[w] = LP(cc, o1, w, @)]
         IN IF o2.its[w].st # "eof" /\ (DevFastNoSecond \/ o2.its[w].k > o2.secMax)
            THEN [o |-> [o2 EXCEPT !.cur = o2.its[w].k, !.coff = SrcEntry(cc, w, o2.its[w].k).off, !.lastDir = -1],
                  rd |-> <<<<o2.its[w].k, prevKey>>>>]
            ELSE PrevFinish(cc, ModPrev(cc, ModPrev(cc, [o2 EXCEPT !.fastIdx = 0], FALSE), modified), prevKey)
    ELSE PrevFinish(cc, ModPrev(cc, [o1 EXCEPT !.fastIdx = 0], modified), prevKey)

OiRewind(o) == [o EXCEPT !.its = [i \in 1..Len(o.its) |-> LRewind(o.its[i])],
                         !.st = "rewound", !.cur = 0, !.coff = 0, !.fastIdx = 0]
\* Range / SkipScan: the iterators get the new range and are rewound; curKey is kept
OiSetRange(o, r) == [o EXCEPT !.r = r, !.st = "rewound",
                              !.its = [i \in 1..Len(o.its) |-> LRewind(o.its[i])]]

----------------------------------------------------------------------------
(* Initial states: a stored btree over any subset of the keys (offset 1) and,   *)
(* with InitLayer, a base layer with any well-formed entries (offset 2).        *)
BaseEntries(present) == IF present THEN {None, Upd(2), Del(1)} ELSE {None, Add(2)}
InitContents ==
    {[bt |-> bt, layers |-> <<l0>>, hasMut |-> FALSE, mut |-> EmptyLayer(U)] :
        bt \in [KeySet(U) -> {0, 1}],
        l0 \in IF InitLayer THEN [KeySet(U) -> {None, Add(2), Upd(2), Del(1)}] ELSE {EmptyLayer(U)}}

NoView == OverlayFor(U, EmptyBt(U))   \* value of iv while it is not used

Init == /\ c \in {x \in InitContents : WellFormed(U, x)}
        /\ oi = NewOi
        /\ ref = NewRef(U)
        /\ rd = <<>> /\ req = {}
        /\ nextOff = 3
        /\ steps = 0
        /\ frozen = FALSE /\ iv = NoView

Step == steps < MaxSteps /\ steps' = steps + 1
Keep == UNCHANGED <<frozen, iv>>
Quiet == rd' = <<>> /\ req' = {}

\* a new Overlay object: the iterator will notice by pointer comparison
NewObject == oi' = [oi EXCEPT !.stale = TRUE] /\ frozen' = FALSE /\ iv' = NoView
\* the mutable layer was modified: its iterator (the last) reports Modified
MutTouched == oi' = IF ~oi.stale /\ Len(oi.its) > 0
                    THEN [oi EXCEPT !.its[Len(oi.its)].mod = TRUE] ELSE oi

MutInsert(k) == /\ Step /\ Keep /\ c.hasMut /\ Live(c, k) = 0
                /\ c' = MutPut(c, k, Add(nextOff)) /\ nextOff' = nextOff + 1
                /\ MutTouched /\ Quiet /\ UNCHANGED ref
MutUpdate(k) == /\ Step /\ Keep /\ c.hasMut /\ Live(c, k) > 0
                /\ c' = MutPut(c, k, Upd(nextOff)) /\ nextOff' = nextOff + 1
                /\ MutTouched /\ Quiet /\ UNCHANGED ref
MutDelete(k) == /\ Step /\ Keep /\ c.hasMut /\ Live(c, k) > 0
                /\ c' = MutPut(c, k, Del(Live(c, k)))
                /\ MutTouched /\ Quiet /\ UNCHANGED <<ref, nextOff>>
\* first write of the transaction: ov.Mutable() is a new object with an empty mut
MakeMutable == /\ Step /\ ~c.hasMut
               /\ c' = MutableOp(U, c)
               /\ NewObject /\ Quiet /\ UNCHANGED <<ref, nextOff>>
\* commit: UpdateWith changes the transaction's Overlay in place (same object)
Commit == /\ Step /\ Keep /\ c.hasMut /\ Len(c.layers) < MaxLayers
          /\ c' = CommitOnto(U, c, c)
          /\ Quiet /\ UNCHANGED <<oi, ref, nextOff>>
\* commit onto a state that moved on: another transaction's layer (one entry for a key this
\* transaction did not touch, as the checker guarantees) was committed since the snapshot.
\* With InPlaceCommit the Overlay object is the same, so the iterator does not notice and
\* keeps reading the snapshot's layers plus the (now immutable) mutable layer.
CommitMoved(k) ==
    /\ AllowMoved /\ Step /\ c.hasMut /\ Len(c.layers) < MaxLayers
    /\ c.mut[k].op = "none"
    /\ \E e \in (IF Live(c, k) = 0 THEN {Add(nextOff)} ELSE {Upd(nextOff), Del(Live(c, k))}) :
         c' = [bt |-> c.bt,
               layers |-> c.layers \o <<[EmptyLayer(U) EXCEPT ![k] = e]>> \o <<c.mut>>,
               hasMut |-> FALSE, mut |-> EmptyLayer(U)]
    /\ nextOff' = nextOff + 1
    /\ IF InPlaceCommit
       THEN /\ oi' = oi
            /\ frozen' = ~oi.stale /\ iv' = IF oi.stale THEN NoView ELSE CommitOnto(U, c, c)
       ELSE /\ oi' = [oi EXCEPT !.stale = TRUE]
            /\ frozen' = FALSE /\ iv' = NoView
    /\ Quiet /\ UNCHANGED ref

Merge(n) == /\ Step /\ ~c.hasMut /\ n < Len(c.layers)
            /\ c' = MergeOp(U, c, n)
            /\ NewObject /\ Quiet /\ UNCHANGED <<ref, nextOff>>
Save == /\ Step /\ ~c.hasMut
        /\ c.layers[1] # EmptyLayer(U)
        /\ c' = SaveOp(U, c)
        /\ NewObject /\ Quiet /\ UNCHANGED <<ref, nextOff>>

\* the content the iterators actually read
Seen == IF frozen /\ ~oi.stale THEN iv ELSE c
ItNext == /\ Step /\ Keep
          /\ LET res == OiNext(Seen, oi) ref2 == RefNext(U, c, ref) IN
               /\ oi' = res.o /\ rd' = res.rd
               /\ ref' = ref2
               /\ req' = IF ref.st = "eof" THEN {} ELSE NextReadReq(U, ref, ref2)
          /\ UNCHANGED <<c, nextOff>>
ItPrev == /\ Step /\ Keep
          /\ LET res == OiPrev(Seen, oi) ref2 == RefPrev(U, c, ref) IN
               /\ oi' = res.o /\ rd' = res.rd
               /\ ref' = ref2
               /\ req' = IF ref.st = "eof" THEN {} ELSE PrevReadReq(U, ref, ref2)
          /\ UNCHANGED <<c, nextOff>>
ItRewind == /\ Step /\ Keep /\ oi.st # "rewound"
            /\ oi' = OiRewind(oi) /\ ref' = RefRewind(ref)
            /\ Quiet /\ UNCHANGED <<c, nextOff>>
ItRange(rg) == /\ Step /\ Keep
               /\ LET r == RangeOf(U, rg[1], rg[2]) IN
                    /\ r # oi.r \/ oi.st # "rewound"
                    /\ oi' = OiSetRange(oi, r) /\ ref' = RefSetRange(ref, r)
               /\ Quiet /\ UNCHANGED <<c, nextOff>>
ItSkip(sk) == /\ Step /\ Keep
              /\ LET r == SkipOf(sk[1], sk[2], sk[3], sk[4]) IN
                   /\ r # oi.r \/ oi.st # "rewound"
                   /\ oi' = OiSetRange(oi, r) /\ ref' = RefSetRange(ref, r)
              /\ Quiet /\ UNCHANGED <<c, nextOff>>

Next == \/ \E k \in KeySet(U) : MutInsert(k) \/ MutUpdate(k) \/ MutDelete(k)
        \/ MakeMutable \/ Commit \/ Save
        \/ \E k \in KeySet(U) : CommitMoved(k)
        \/ \E n \in 1..(MaxLayers - 1) : Merge(n)
        \/ ItNext \/ ItPrev \/ ItRewind
        \/ \E rg \in RangeChoices : ItRange(rg)
        \/ \E sk \in SkipChoices : ItSkip(sk)

Spec == Init /\ [][Next]_vars

----------------------------------------------------------------------------
(* Properties *)

\* the layering stays what Overlay.Check demands, and Lookup (topmost entry decides)
\* returns the reference content
ContentOK == /\ WellFormed(U, c)
             /\ \A k \in KeySet(U) : LookupTop(c, k) = Live(c, k)

\* merging, saving, starting to write and committing do not change what is present
StructurePreservesContent ==
    /\ \A n \in 1..(Len(c.layers) - 1) :
          LET m == MergeOp(U, c, n) IN
          /\ \A k \in KeySet(U) : Live(m, k) = Live(c, k)
          /\ \A k \in KeySet(U) : m.layers[1][k] = CombineLayers(c.layers, 1, n + 1, k)
          /\ \A k \in KeySet(U) : m.layers[1][k].op # "invalid"
    /\ ~c.hasMut => \A k \in KeySet(U) : Live(SaveOp(U, c), k) = Live(c, k)
    /\ ~c.hasMut => \A k \in KeySet(U) : Live(MutableOp(U, c), k) = Live(c, k)
    /\ c.hasMut => \A k \in KeySet(U) : Live(CommitOnto(U, c, c), k) = Live(c, k)

\* C09: the iterator returns what the reference iterator returns
Agree == /\ oi.st = ref.st
         /\ oi.st = "within" => oi.cur = ref.cur /\ oi.coff = ref.off

\* in the code a source other than the last reporting Modified is a panic
NoPanic == ModifiedOnlyLast(oi)

\* every step reports read ranges that cover the keys that could have changed its outcome
ReadsCover == req \subseteq Covered(rd)

\* results stay inside the range
InRangeResult == oi.st = "within" => Vis(U, oi.r, oi.cur)
=============================================================================
