----------------------------- MODULE OverlayOps -----------------------------
(* Definitions shared by Overlay.tla (exhaustive model of db19/index OverIter *)
(* over layered index content) and trace/TraceOverlay.tla (validation of real *)
(* executions).  No constants, no variables.                                  *)
(*                                                                            *)
(* Keys are ranks 1..np*ns, prefix-major: key k has prefix rank Pre(u,k) and  *)
(* suffix rank Suf(u,k) (so that skip-scan is meaningful).  The drivers own   *)
(* the table rank -> concrete key string.  Bounds of ranges are ranks too:    *)
(* a key range is org <= k < end with org, end in 0..K+1 (0 = ixkey.Min,      *)
(* K+1 = ixkey.Max), skip-scan ranges bound the prefix and suffix ranks.      *)
(*                                                                            *)
(* Index content: a stored btree (key -> offset, 0 = absent), a sequence of   *)
(* immutable layers (ixbufs) and optionally the transaction's mutable layer;  *)
(* a layer maps keys to entries add/upd/del with an offset (ixbuf tag bits).  *)
EXTENDS Integers, Sequences, FiniteSets

MinOf(S) == CHOOSE x \in S : \A y \in S : x <= y
MaxOf(S) == CHOOSE x \in S : \A y \in S : x >= y

----------------------------------------------------------------------------
(* Keys *)
NKeys(u)  == u.np * u.ns
KeySet(u) == 1..NKeys(u)
Pre(u, k) == ((k - 1) \div u.ns) + 1
Suf(u, k) == ((k - 1) % u.ns) + 1
MaxRank(u) == NKeys(u) + 1          \* ixkey.Max

----------------------------------------------------------------------------
(* Entries and the Combine table of ixbuf.go *)
None    == [op |-> "none", off |-> 0]
Add(o)  == [op |-> "add", off |-> o]
Upd(o)  == [op |-> "upd", off |-> o]
Del(o)  == [op |-> "del", off |-> o]
Invalid == [op |-> "invalid", off |-> 0]

Combine(e1, e2) ==
    CASE e1.op = "none" -> e2
      [] e2.op = "none" -> e1
      [] e1.op = "add" /\ e2.op = "upd" -> Add(e2.off)
      [] e1.op = "add" /\ e2.op = "del" -> None
      [] e1.op = "upd" /\ e2.op = "upd" -> Upd(e2.off)
      [] e1.op = "upd" /\ e2.op = "del" -> Del(e2.off)
      [] e1.op = "del" /\ e2.op = "add" -> Upd(e2.off)
      [] OTHER -> Invalid

----------------------------------------------------------------------------
(* Content: [bt, layers, hasMut, mut] *)
EmptyLayer(u) == [k \in KeySet(u) |-> None]
EmptyBt(u)    == [k \in KeySet(u) |-> 0]

\* OverlayFor(bt): one empty base layer, read-only
OverlayFor(u, bt) == [bt |-> bt, layers |-> <<EmptyLayer(u)>>, hasMut |-> FALSE, mut |-> EmptyLayer(u)]

AllLayers(c) == IF c.hasMut THEN Append(c.layers, c.mut) ELSE c.layers

\* sequential meaning of an entry applied to a live offset (0 = absent, -1 = ill-formed)
ApplyEntry(o, e) ==
    CASE e.op = "none" -> o
      [] o = -1 -> -1
      [] e.op = "add" -> IF o = 0 THEN e.off ELSE -1
      [] e.op = "upd" -> IF o # 0 THEN e.off ELSE -1
      [] e.op = "del" -> IF o # 0 THEN 0 ELSE -1
      [] OTHER -> -1

RECURSIVE FoldKey(_, _, _, _)
FoldKey(ls, i, k, o) == IF i > Len(ls) THEN o ELSE FoldKey(ls, i + 1, k, ApplyEntry(o, ls[i][k]))

\* THE REFERENCE: the offset of key k in the index (0 = not present): the changes of
\* the layers applied in order to the stored btree
Live(c, k) == FoldKey(AllLayers(c), 1, k, c.bt[k])
LiveKeys(u, c) == {k \in KeySet(u) : Live(c, k) > 0}
WellFormed(u, c) == \A k \in KeySet(u) : Live(c, k) >= 0

\* Overlay.Lookup as coded: the topmost entry decides
RECURSIVE TopEntry(_, _, _)
TopEntry(ls, i, k) == IF i = 0 THEN None
                      ELSE IF ls[i][k].op # "none" THEN ls[i][k] ELSE TopEntry(ls, i - 1, k)
LookupTop(c, k) == LET ls == AllLayers(c) e == TopEntry(ls, Len(ls), k) IN
                   IF e.op = "none" THEN c.bt[k] ELSE IF e.op = "del" THEN 0 ELSE e.off

\* operations (Overlay.Insert/Update/Delete, Mutable, UpdateWith, Merge+WithMerged, Save+WithSaved)
MutPut(c, k, e)    == [c EXCEPT !.mut[k] = Combine(@, e)]
MutableOp(u, c)    == [c EXCEPT !.hasMut = TRUE, !.mut = EmptyLayer(u)]
CommitOnto(u, c, latest) ==
    [bt |-> latest.bt, layers |-> Append(latest.layers, c.mut), hasMut |-> FALSE, mut |-> EmptyLayer(u)]

RECURSIVE CombineLayers(_, _, _, _)
CombineLayers(ls, i, n, k) == IF i > n THEN None
                              ELSE IF i = n THEN ls[i][k]
                              ELSE Combine(ls[i][k], CombineLayers(ls, i + 1, n, k))
\* NB Combine is associative on well-formed chains; ixbuf.Merge folds left to right
RECURSIVE CombineLeft(_, _, _, _, _)
CombineLeft(ls, i, n, k, acc) == IF i > n THEN acc ELSE CombineLeft(ls, i + 1, n, k, Combine(acc, ls[i][k]))

\* merge the base layer with the next nmerge layers
MergeOp(u, c, nmerge) ==
    [c EXCEPT !.layers = <<[k \in KeySet(u) |-> CombineLeft(c.layers, 1, nmerge + 1, k, None)]>>
                            \o SubSeq(c.layers, nmerge + 2, Len(c.layers))]
\* apply the base layer to the btree
SaveOp(u, c) ==
    [c EXCEPT !.bt = [k \in KeySet(u) |-> ApplyEntry(c.bt[k], c.layers[1][k])],
              !.layers[1] = EmptyLayer(u)]

----------------------------------------------------------------------------
(* Iterator settings r = [mode, org, end, porg, pend, sorg, send] *)
AllRange(u) == [mode |-> "range", org |-> 0, end |-> MaxRank(u),
                porg |-> 0, pend |-> 0, sorg |-> 0, send |-> 0]
RangeOf(u, org, end) == [AllRange(u) EXCEPT !.org = org, !.end = end]
SkipOf(porg, pend, sorg, send) == [mode |-> "skip", org |-> 0, end |-> 0,
                                   porg |-> porg, pend |-> pend, sorg |-> sorg, send |-> send]

Vis(u, r, k) == IF r.mode = "range" THEN r.org <= k /\ k < r.end
                ELSE /\ r.porg <= Pre(u, k) /\ Pre(u, k) < r.pend
                     /\ r.sorg <= Suf(u, k) /\ Suf(u, k) < r.send

\* rank bounds of the key interval that a range describes (used for read ranges):
\* the first rank >= the Org string and the first rank >= the End string
OrgRank(u, r) == IF r.mode = "range" THEN r.org
                 ELSE IF r.porg = 0 THEN 0 ELSE (r.porg - 1) * u.ns + 1
EndRank(u, r) == IF r.mode = "range" THEN r.end
                 ELSE IF r.pend > u.np THEN MaxRank(u)
                 ELSE IF r.pend = 0 THEN 0 ELSE (r.pend - 1) * u.ns + 1

----------------------------------------------------------------------------
(* The reference iterator (what the property says): it = [st, cur, off, r]    *)
(* st in {"rewound","within","eof"}; cur/off meaningful when within.          *)
NewRef(u) == [st |-> "rewound", cur |-> 0, off |-> 0, r |-> AllRange(u)]
RefRewind(it)    == [it EXCEPT !.st = "rewound", !.cur = 0, !.off = 0]
RefSetRange(it, r) == [it EXCEPT !.st = "rewound", !.cur = 0, !.off = 0, !.r = r]

\* Next: the least key present and visible that is greater than the current key
\* (any, after rewind); sticks at eof
RefNext(u, c, it) ==
    IF it.st = "eof" THEN it
    ELSE LET base == IF it.st = "rewound" THEN 0 ELSE it.cur
             cand == {k \in LiveKeys(u, c) : Vis(u, it.r, k) /\ k > base} IN
         IF cand = {} THEN [it EXCEPT !.st = "eof", !.cur = 0, !.off = 0]
         ELSE [it EXCEPT !.st = "within", !.cur = MinOf(cand), !.off = Live(c, MinOf(cand))]

RefPrev(u, c, it) ==
    IF it.st = "eof" THEN it
    ELSE LET base == IF it.st = "rewound" THEN MaxRank(u) ELSE it.cur
             cand == {k \in LiveKeys(u, c) : Vis(u, it.r, k) /\ k < base} IN
         IF cand = {} THEN [it EXCEPT !.st = "eof", !.cur = 0, !.off = 0]
         ELSE [it EXCEPT !.st = "within", !.cur = MaxOf(cand), !.off = Live(c, MaxOf(cand))]

\* keys (present or not) whose appearance/disappearance could change the outcome of the
\* step from it to it2: the visible keys between the old position and the new one
\* (inclusive), or up to the end of the range at eof. The step's read ranges must cover them.
NextReadReq(u, it, it2) ==
    LET base == IF it.st = "rewound" THEN 0 ELSE it.cur
        top  == IF it2.st = "within" THEN it2.cur ELSE MaxRank(u) IN
    {k \in KeySet(u) : Vis(u, it.r, k) /\ base < k /\ k <= top}
PrevReadReq(u, it, it2) ==
    LET base == IF it.st = "rewound" THEN MaxRank(u) ELSE it.cur
        bot  == IF it2.st = "within" THEN it2.cur ELSE 0 IN
    {k \in KeySet(u) : Vis(u, it.r, k) /\ bot <= k /\ k < base}

\* reads = sequence of <<lo, hi>>, the ranks lo..hi are covered
Covered(reads) == UNION {reads[i][1]..reads[i][2] : i \in 1..Len(reads)}

----------------------------------------------------------------------------
(* Single-source iterators (iface.Iter of btree and ixbuf): lit = [st, k, mod] *)
(* over a set S of keys; st in {"rew","in","eof"}; k = Key() (Max at eof);     *)
(* mod = source modified since the iterator's last seek.                       *)
NewLit == [st |-> "rew", k |-> 0, mod |-> FALSE]
LEof(u, lit)  == [lit EXCEPT !.st = "eof", !.k = MaxRank(u)]
LAt(lit, k)   == [lit EXCEPT !.st = "in", !.k = k]
LRewind(lit)  == [lit EXCEPT !.st = "rew"]
InRange(r, k) == r.org <= k /\ k < r.end

\* SeekAll(x): first key >= x, else the last key, eof only if there are no keys.
\* Synchronises the modification counter (not when empty: ixbuf.SeekAll returns early)
LSeekAll(u, S, lit, x) ==
    IF S = {} THEN LEof(u, lit)
    ELSE LET ge == {k \in S : k >= x} IN
         [st |-> "in", k |-> IF ge # {} THEN MinOf(ge) ELSE MaxOf(S), mod |-> FALSE]

\* range mode
LSeekR(u, S, r, lit, x) == LET a == LSeekAll(u, S, lit, x) IN
                           IF a.st = "in" /\ ~InRange(r, a.k) THEN LEof(u, a) ELSE a
LStepUpR(u, S, r, lit) ==      \* i++ then check End
    LET gt == {k \in S : k > lit.k} IN
    IF gt = {} \/ MinOf(gt) >= r.end THEN LEof(u, lit) ELSE LAt(lit, MinOf(gt))
LStepDownR(u, S, r, lit) ==    \* i-- then check the range
    LET lt == {k \in S : k < lit.k} IN
    IF lt = {} \/ ~InRange(r, MaxOf(lt)) THEN LEof(u, lit) ELSE LAt(lit, MaxOf(lt))
LNextR(u, S, r, lit) ==
    CASE lit.st = "eof" -> lit
      [] lit.st = "rew" -> LSeekR(u, S, r, lit, r.org)
      [] OTHER -> LStepUpR(u, S, r, lit)
LPrevR(u, S, r, lit) ==
    CASE lit.st = "eof" -> lit
      [] lit.st = "rew" -> LET a == LSeekAll(u, S, lit, r.end) IN
                           IF a.st = "eof" \/ InRange(r, a.k) THEN a ELSE LStepDownR(u, S, r, a)
      [] OTHER -> LStepDownR(u, S, r, lit)

\* skip-scan mode: the visible keys of the source
LVisS(u, S, r) == {k \in S : Vis(u, r, k)}
LSync(S, lit) == IF S = {} THEN lit ELSE [lit EXCEPT !.mod = FALSE]
LNextS(u, S, r, lit) ==
    CASE lit.st = "eof" -> lit
      [] lit.st = "rew" -> LET v == LVisS(u, S, r) IN
                           IF v = {} THEN LEof(u, LSync(S, lit)) ELSE LAt(LSync(S, lit), MinOf(v))
      [] OTHER -> LET v == {k \in LVisS(u, S, r) : k > lit.k} IN
                  IF v = {} THEN LEof(u, lit) ELSE LAt(lit, MinOf(v))
LPrevS(u, S, r, lit) ==
    CASE lit.st = "eof" -> lit
      [] lit.st = "rew" -> LET v == LVisS(u, S, r) IN
                           IF v = {} THEN LEof(u, LSync(S, lit)) ELSE LAt(LSync(S, lit), MaxOf(v))
      [] OTHER -> LET v == {k \in LVisS(u, S, r) : k < lit.k} IN
                  IF v = {} THEN LEof(u, lit) ELSE LAt(lit, MaxOf(v))
\* Seek(x) in skip-scan mode: first visible key >= x, else the last visible key
LSeekS(u, S, r, lit, x) ==
    LET v == LVisS(u, S, r) ge == {k \in v : k >= x} IN
    IF v = {} THEN LEof(u, LSync(S, lit))
    ELSE LAt(LSync(S, lit), IF ge # {} THEN MinOf(ge) ELSE MaxOf(v))

LNext(u, S, r, lit) == IF r.mode = "range" THEN LNextR(u, S, r, lit) ELSE LNextS(u, S, r, lit)
LPrev(u, S, r, lit) == IF r.mode = "range" THEN LPrevR(u, S, r, lit) ELSE LPrevS(u, S, r, lit)
LSeek(u, S, r, lit, x) == IF r.mode = "range" THEN LSeekR(u, S, r, lit, x) ELSE LSeekS(u, S, r, lit, x)
=============================================================================
