------------------------------ MODULE PQueue ------------------------------
(* Bounded blocking priority queue used between transactions and the        *)
(* conflict checker (util/queue/priority_queue.go, used by db19/checkco.go).*)
(*                                                                          *)
(* One action per critical section of the code:                             *)
(*   Put(p)  - body of PriorityQueue.Put under pq.lock (append)             *)
(*   Get     - body of PriorityQueue.Get under pq.lock (select + delete)    *)
(* Blocking (cond.Wait) is modelled by the actions' enabling conditions.    *)
(* The selection in Get is transcribed from the code (a left-to-right scan  *)
(* that replaces the candidate only on a strictly higher priority and only  *)
(* by an element that is the oldest of its transaction); the *property*     *)
(* PriorityRule is stated declaratively and checked against it.             *)
EXTENDS Naturals, Sequences, FiniteSets, TLC

CONSTANTS
    Producers,      \* set of producer ids
    MaxMsgs,        \* messages per producer
    Pris,           \* set of priorities (code: 0..3)
    OwnTrans,       \* OwnTrans[p] = transaction ids only p sends for
    SharedTrans,    \* transaction ids any producer may use (code: tran 0)
    Cap,            \* capacity (bufSize = 8 in the code)
    DevGE           \* deviation for self-test: scan replaces the candidate on >= (not the code)

VARIABLES
    items,          \* the queue: sequence of records [pri, tran, id]
    pc,             \* pc[p] = number of messages p has put so far
    arrived,        \* history: messages in arrival (Put) order
    delivered       \* history: messages in delivery (Get) order

vars == <<items, pc, arrived, delivered>>

Init == /\ items = <<>>
        /\ pc = [p \in Producers |-> 0]
        /\ arrived = <<>>
        /\ delivered = <<>>

\* message identity: <<producer, index>>
Put(p, pri, t) ==
    /\ pc[p] < MaxMsgs
    /\ Len(items) < Cap                     \* else blocked in notFull.Wait
    /\ LET m == [pri |-> pri, tran |-> t, id |-> <<p, pc[p] + 1>>] IN
        /\ items' = Append(items, m)
        /\ arrived' = Append(arrived, m)
    /\ pc' = [pc EXCEPT ![p] = @ + 1]
    /\ UNCHANGED delivered

\* isOldest(i): no earlier element of the same transaction
IsOldest(q, i) == \A j \in 1..(i-1) : q[j].tran # q[i].tran

\* the code's scan, as a recursive fold: best index after looking at 1..n
RECURSIVE Scan(_, _)
Scan(q, n) ==
    IF n = 1 THEN 1
    ELSE LET b == Scan(q, n - 1) IN
         IF (IF DevGE THEN q[n].pri >= q[b].pri ELSE q[n].pri > q[b].pri) /\ IsOldest(q, n) THEN n ELSE b

Chosen(q) == Scan(q, Len(q))

RemoveAt(q, i) == SubSeq(q, 1, i - 1) \o SubSeq(q, i + 1, Len(q))

Get ==
    /\ Len(items) > 0                       \* else blocked in notEmpty.Wait
    /\ LET i == Chosen(items) IN
        /\ delivered' = Append(delivered, items[i])
        /\ items' = RemoveAt(items, i)
    /\ UNCHANGED <<pc, arrived>>

PutAny(p) == \E pri \in Pris : \E t \in OwnTrans[p] \cup SharedTrans : Put(p, pri, t)

Next == (\E p \in Producers : PutAny(p)) \/ Get

Spec == Init /\ [][Next]_vars /\ WF_vars(Get) /\ \A p \in Producers : WF_vars(PutAny(p))

----------------------------------------------------------------------------
(* Properties (C17) *)

TypeOK == /\ Len(items) <= Cap
          /\ \A p \in Producers : pc[p] \in 0..MaxMsgs

Range(s) == {s[i] : i \in 1..Len(s)}

\* restriction of a sequence of messages to one transaction
RECURSIVE Filter(_, _)
Filter(s, t) == IF s = <<>> THEN <<>>
                ELSE IF Head(s).tran = t THEN <<Head(s)>> \o Filter(Tail(s), t)
                ELSE Filter(Tail(s), t)

IsPrefix(a, b) == Len(a) <= Len(b) /\ SubSeq(b, 1, Len(a)) = a

Trans == SharedTrans \cup UNION {OwnTrans[p] : p \in Producers}

\* per-transaction FIFO: what has been delivered of a transaction is a prefix of
\* what has arrived of it, in arrival order
PerTranFIFO == \A t \in Trans : IsPrefix(Filter(delivered, t), Filter(arrived, t))

\* exactly once: no duplicates; delivered + queued = arrived
ExactlyOnce ==
    /\ Cardinality(Range(delivered)) = Len(delivered)
    /\ Range(delivered) \cap Range(items) = {}
    /\ Range(delivered) \cup Range(items) = Range(arrived)
    /\ Len(delivered) + Len(items) = Len(arrived)

\* declarative priority rule, on the step: the delivered element was the oldest of
\* its transaction, no oldest-of-transaction element had a higher priority, and
\* among equal priority candidates it was the earliest
Candidates(q) == {i \in 1..Len(q) : IsOldest(q, i)}
PriorityRuleAt(q, i) ==
    /\ i \in Candidates(q)
    /\ \A j \in Candidates(q) : q[j].pri <= q[i].pri
    /\ \A j \in Candidates(q) : q[j].pri = q[i].pri => i <= j
PriorityRule == [][Len(delivered') > Len(delivered) =>
                    \E i \in 1..Len(items) :
                        /\ items[i] = delivered'[Len(delivered')]
                        /\ PriorityRuleAt(items, i)]_vars

\* liveness: every message sent is eventually delivered (no deadlock, no starvation
\* of the consumer); checked in the unconstrained config under weak fairness
AllDelivered == <>[](Len(items) = 0 /\ \A p \in Producers : pc[p] = MaxMsgs)

=============================================================================
