------------------------------ MODULE Pipeline ------------------------------
(* The db19 state pipeline for one table at design level, one action per       *)
(* critical section of the code:                                               *)
(*   Commit          UpdateTran.commit closure (Meta.LayeredOnto) + mergeChan<- *)
(*   MergerTake      concur.go merger: merges.start / merges.drain (batching)   *)
(*   MergeCompute    Database.Merge: fn(db.GetState().Meta) outside UpdateState *)
(*   MergeApply      Database.Merge: meta.Apply inside UpdateState              *)
(*   PersistCompute  Database.persist: Meta.Persist on a snapshot               *)
(*   PersistApply    Database.persist: meta.Apply + state.Write in UpdateState  *)
(*   AlterBegin/Build/Queue + MergerRunFn  Database.AlterCreate / Ensure:       *)
(*                   AddExclusive, buildIndexes on a ReadTran snapshot, the     *)
(*                   final closure run by the merger (todo.fn)                  *)
(*   CleanClose      checker Stop -> drain -> final persist                     *)
(* Merge and persist share the merger goroutine (mpc is one program counter).   *)
(* FixedAlter = FALSE is the behaviour before fix 11d5163 (new index overlays   *)
(* sized from the build snapshot): LayersParallel and ReopenSeesAll fail.       *)
(* A layer is a record [a |-> rows added, d |-> rows deleted]; ixbuf.Merge's    *)
(* Combine rules are Fold: add then delete cancels, delete then add of the same *)
(* row keeps the stored entry. FirstOnlyModified = TRUE is the behaviour before  *)
(* fix c9087ac (persist skips a table unless its FIRST index has a non-empty     *)
(* base layer): ReopenSeesAll and DurableIndexesAgree fail.                      *)
(* C06: IndexesAgree, LayersParallel; C16: IndexesAgree (=NoLossNoDup),         *)
(* StatsExact in every state; C04: ReopenSeesAll.                               *)
EXTENDS Integers, Sequences, FiniteSets, TLC
CONSTANTS MaxRows, ChanCap, FixedAlter, MaxPersists, MaxDeletes, FirstOnlyModified,
          MaxLoads,    \* table loads on the running database (Database.Load(table))
          DirectLoad   \* TRUE = before fix 90a29de: the caller replaces the table itself

VARIABLES rows,      \* committed logical content (set of row ids)
          ndel,      \* number of delete transactions so far
          nextRow,   \* next fresh row id
          ixs,       \* set of existing index names
          bt,        \* [index -> set of rows] stored btree content
          layers,    \* [index -> Seq(set of rows)] layers[1] is the base ixbuf
          deltas,    \* Seq(Int) parallel to layers
          nrows, btreeNrows,
          chan,      \* mergeChan: Seq of "m" (merge todo for the table) or "fn"
          mpc,       \* merger program counter record
          alter,     \* AlterCreate progress record
          npersist, durable,
          load       \* table load progress record

vars == <<rows, ndel, nextRow, ixs, bt, layers, deltas, nrows, btreeNrows, chan, mpc, alter, npersist, durable, load>>
Idx == {"i1", "i2"}

Empty == [a |-> {}, d |-> {}]
IsEmpty(l) == l.a = {} /\ l.d = {}
\* combine layer l2 on top of l1 (ixbuf.Merge / Combine)
Comb(l1, l2) == [a |-> (l1.a \ l2.d) \cup (l2.a \ l1.d),
                 d |-> (l1.d \ l2.a) \cup (l2.d \ l1.a)]
RECURSIVE Fold(_)
Fold(s) == IF s = <<>> THEN Empty ELSE IF Len(s) = 1 THEN s[1]
           ELSE Fold(<<Comb(s[1], s[2])>> \o SubSeq(s, 3, Len(s)))
ApplyL(b, l) == (b \ l.d) \cup l.a
Flatten(i) == ApplyL(bt[i], Fold(layers[i]))
Sum(s) == IF s = <<>> THEN 0 ELSE LET RECURSIVE F(_) F(x) == IF x = <<>> THEN 0 ELSE Head(x) + F(Tail(x)) IN F(s)

Init == /\ rows = {} /\ ixs = {"i1"}
        /\ bt = [i \in Idx |-> {}]
        /\ layers = [i \in Idx |-> << Empty >>]
        /\ ndel = 0 /\ nextRow = 1
        /\ deltas = << 0 >>
        /\ nrows = 0 /\ btreeNrows = 0
        /\ chan = <<>>
        /\ mpc = [pc |-> "idle"]
        /\ alter = [pc |-> "none"]
        /\ npersist = 0 /\ durable = <<>>
        /\ load = [pc |-> "none", n |-> 0]

Exclusive == alter.pc \in {"excl", "built", "queued"} \/ load.pc \in {"excl", "queued"}

Commit == /\ ~Exclusive
          /\ nextRow <= MaxRows
          /\ Len(chan) < ChanCap
          /\ LET r == nextRow IN
             /\ rows' = rows \cup {r}
             /\ nextRow' = nextRow + 1
             /\ layers' = [i \in Idx |-> IF i \in ixs THEN Append(layers[i], [a |-> {r}, d |-> {}]) ELSE layers[i]]
             /\ deltas' = Append(deltas, 1)
             /\ nrows' = nrows + 1
             /\ chan' = Append(chan, "m")
          /\ UNCHANGED <<ndel, ixs, bt, btreeNrows, mpc, alter, npersist, durable, load>>

\* a committed transaction deleting one visible row from every index
CommitDelete == /\ ~Exclusive /\ ndel < MaxDeletes /\ Len(chan) < ChanCap
                /\ \E r \in rows :
                     /\ rows' = rows \ {r}
                     /\ layers' = [i \in Idx |-> IF i \in ixs THEN Append(layers[i], [a |-> {}, d |-> {r}]) ELSE layers[i]]
                /\ deltas' = Append(deltas, -1)
                /\ nrows' = nrows - 1
                /\ ndel' = ndel + 1
                /\ chan' = Append(chan, "m")
                /\ UNCHANGED <<nextRow, ixs, bt, btreeNrows, mpc, alter, npersist, durable, load>>

\* merger takes 1..k consecutive merge todos from the head (drain takes what is there)
MergerTake == /\ mpc.pc = "idle" /\ chan # <<>> /\ Head(chan) = "m"
              /\ \E n \in 1..Len(chan) :
                    /\ \A j \in 1..n : chan[j] = "m"
                    /\ chan' = SubSeq(chan, n + 1, Len(chan))
                    /\ mpc' = [pc |-> "taken", n |-> n]
              /\ UNCHANGED <<rows, ndel, nextRow, ixs, bt, layers, deltas, nrows, btreeNrows, alter, npersist, durable, load>>

\* the merger's todo count must fit the table's layers (else the code panics: FATAL in merger)
MergeFits == mpc.pc \in {"taken", "merged"} => mpc.n + 1 <= Len(deltas)
QueueFits == Cardinality({ j \in 1..Len(chan) : chan[j] = "m" })
                + (IF mpc.pc \in {"taken", "merged"} THEN mpc.n ELSE 0) + 1 = Len(deltas)
MergeCompute == /\ mpc.pc = "taken" /\ MergeFits
                /\ mpc' = [pc |-> "merged", n |-> mpc.n,
                           res |-> [i \in ixs |-> Fold(SubSeq(layers[i], 1, mpc.n + 1))]]
                /\ UNCHANGED <<rows, ndel, nextRow, ixs, bt, layers, deltas, nrows, btreeNrows, chan, alter, npersist, durable, load>>

MergeApply == /\ mpc.pc = "merged" /\ MergeFits
              /\ LET n == mpc.n IN
                 /\ layers' = [i \in Idx |-> IF i \in DOMAIN mpc.res
                                 THEN << mpc.res[i] >> \o SubSeq(layers[i], n + 2, Len(layers[i]))
                                 ELSE layers[i]]
                 /\ deltas' = << Sum(SubSeq(deltas, 1, n + 1)) >> \o SubSeq(deltas, n + 2, Len(deltas))
              /\ mpc' = [pc |-> "idle"]
              /\ UNCHANGED <<rows, ndel, nextRow, ixs, bt, nrows, btreeNrows, chan, alter, npersist, durable, load>>

\* Meta.Persist: is this table saved?
Modified == IF FirstOnlyModified THEN ~IsEmpty(layers["i1"][1])
            ELSE \E i \in ixs : ~IsEmpty(layers[i][1])

PersistCompute == /\ mpc.pc = "idle" /\ npersist < MaxPersists
                  /\ Modified
                  /\ mpc' = [pc |-> "saved", res |-> [i \in ixs |-> ApplyL(bt[i], layers[i][1])]]
                  /\ UNCHANGED <<rows, ndel, nextRow, ixs, bt, layers, deltas, nrows, btreeNrows, chan, alter, npersist, durable, load>>

PersistApply == /\ mpc.pc = "saved"
                /\ bt' = [i \in Idx |-> IF i \in DOMAIN mpc.res THEN mpc.res[i] ELSE bt[i]]
                /\ layers' = [i \in Idx |-> IF i \in DOMAIN mpc.res THEN << Empty >> \o Tail(layers[i]) ELSE layers[i]]
                /\ btreeNrows' = btreeNrows + deltas[1]
                /\ deltas' = << 0 >> \o Tail(deltas)
                /\ npersist' = npersist + 1
                /\ durable' = Append(durable, [i \in ixs |-> bt'[i]])
                /\ mpc' = [pc |-> "idle"]
                /\ UNCHANGED <<rows, ndel, nextRow, ixs, nrows, chan, alter, load>>

AlterBegin == /\ alter.pc = "none" /\ rows # {} /\ ~Exclusive
              /\ alter' = [pc |-> "excl"]
              /\ UNCHANGED <<rows, ndel, nextRow, ixs, bt, layers, deltas, nrows, btreeNrows, chan, mpc, npersist, durable, load>>

AlterBuild == /\ alter.pc = "excl"
              /\ alter' = [pc |-> "built", nl |-> Len(layers["i1"]), content |-> Flatten("i1")]
              /\ UNCHANGED <<rows, ndel, nextRow, ixs, bt, layers, deltas, nrows, btreeNrows, chan, mpc, npersist, durable, load>>

AlterQueue == /\ alter.pc = "built" /\ Len(chan) < ChanCap
              /\ chan' = Append(chan, "fn")
              /\ alter' = [alter EXCEPT !.pc = "queued"]
              /\ UNCHANGED <<rows, ndel, nextRow, ixs, bt, layers, deltas, nrows, btreeNrows, mpc, npersist, durable, load>>

MergerRunFn == /\ mpc.pc = "idle" /\ chan # <<>> /\ Head(chan) = "fn"
               /\ chan' = Tail(chan)
               /\ ixs' = ixs \cup {"i2"}
               /\ bt' = [bt EXCEPT !["i2"] = alter.content]
               /\ LET nl == IF FixedAlter THEN Len(layers["i1"]) ELSE alter.nl IN
                  layers' = [layers EXCEPT !["i2"] = [j \in 1..nl |-> Empty]]
               /\ alter' = [pc |-> "done"]
               /\ UNCHANGED <<rows, ndel, nextRow, deltas, nrows, btreeNrows, mpc, npersist, durable, load>>

\* Database.Load(table): tools.loadDbTable takes the table exclusive, builds the new table
\* (content: any earlier content, here any subset of the current rows) and replaces the
\* table: schema + info with fresh single-layer overlays (Database.OverwriteTable). Since
\* fix 90a29de the replacement is a closure run by the merger (RunEndExclusive); before, the
\* caller's goroutine did it directly (DirectLoad), concurrently with a merge or persist
\* computed on the old table.
LoadBegin == /\ load.pc \in {"none", "done"} /\ load.n < MaxLoads /\ ~Exclusive
             /\ \E c \in SUBSET rows : load' = [pc |-> "excl", n |-> load.n + 1, content |-> c]
             /\ UNCHANGED <<rows, ndel, nextRow, ixs, bt, layers, deltas, nrows, btreeNrows, chan, mpc, alter, npersist, durable>>
Overwrite == /\ rows' = load.content
             /\ bt' = [i \in Idx |-> IF i \in ixs THEN load.content ELSE bt[i]]
             /\ layers' = [i \in Idx |-> IF i \in ixs THEN << Empty >> ELSE layers[i]]
             /\ deltas' = << 0 >>
             /\ nrows' = Cardinality(load.content) /\ btreeNrows' = Cardinality(load.content)
             /\ load' = [pc |-> "done", n |-> load.n]
LoadDirect == /\ DirectLoad /\ load.pc = "excl"
              /\ Overwrite
              /\ UNCHANGED <<ndel, nextRow, ixs, chan, mpc, alter, npersist, durable>>
LoadQueue == /\ ~DirectLoad /\ load.pc = "excl" /\ Len(chan) < ChanCap
             /\ chan' = Append(chan, "ld")
             /\ load' = [load EXCEPT !.pc = "queued"]
             /\ UNCHANGED <<rows, ndel, nextRow, ixs, bt, layers, deltas, nrows, btreeNrows, mpc, alter, npersist, durable>>
MergerRunLoad == /\ mpc.pc = "idle" /\ chan # <<>> /\ Head(chan) = "ld"
                 /\ chan' = Tail(chan)
                 /\ Overwrite
                 /\ UNCHANGED <<ndel, nextRow, ixs, mpc, alter, npersist, durable>>

\* the final persist also goes through Meta.Persist (same Modified test)
CleanClose == /\ chan = <<>> /\ mpc.pc = "idle" /\ alter.pc \in {"none", "done"} /\ load.pc \in {"none", "done"} /\ npersist < 99
              /\ bt' = [i \in Idx |-> IF i \in ixs /\ Modified THEN ApplyL(bt[i], layers[i][1]) ELSE bt[i]]
              /\ layers' = [i \in Idx |-> IF Modified THEN << Empty >> \o Tail(layers[i]) ELSE layers[i]]
              /\ npersist' = 99
              /\ UNCHANGED <<rows, ndel, nextRow, ixs, deltas, nrows, btreeNrows, chan, mpc, alter, durable, load>>
NextOpen == Commit \/ CommitDelete \/ MergerTake \/ MergeCompute \/ MergeApply \/ PersistCompute \/ PersistApply
        \/ AlterBegin \/ AlterBuild \/ AlterQueue \/ MergerRunFn
        \/ LoadBegin \/ LoadDirect \/ LoadQueue \/ MergerRunLoad
Next == CleanClose \/ (npersist < 99 /\ NextOpen)
Spec == Init /\ [][Next]_vars

LayersParallel == \A i \in ixs : Len(layers[i]) = Len(deltas)
IndexesAgree == \A i \in ixs : Flatten(i) = rows
StatsExact == nrows = Cardinality(rows) /\ btreeNrows + Sum(deltas) = nrows
\* when everything is merged and persisted, every index's btree holds all rows
Quiescent == chan = <<>> /\ mpc.pc = "idle" /\ \A i \in ixs : Len(layers[i]) = 1 /\ IsEmpty(layers[i][1])
DurableAgree == \A k \in 1..Len(durable) : \A i, j \in DOMAIN durable[k] : TRUE
ReopenSeesAll == npersist = 99 => \A i \in ixs : bt[i] = rows
\* what a crash / reopen at the last state record shows: the stored btrees of all indexes
\* of a table hold the same rows (the persisted state is itself consistent)
DurableIndexesAgree == \A k \in 1..Len(durable) : \A i, j \in DOMAIN durable[k] : durable[k][i] = durable[k][j]
BtreeCount == \A i \in ixs : Quiescent => bt[i] = rows
=============================================================================
