------------------------------- MODULE Ranges -------------------------------
(* C39, design level. Two small machines over the points 1..N:               *)
(*  (1) range set: the structure as the code keeps it (sorted sequence,      *)
(*      binary search + coalescing, SeqInsert) next to the declarative set    *)
(*      of intervals (RInsert) and the history of everything inserted;        *)
(*      every sequence of up to MaxIns inserts of every interval;             *)
(*  (2) ordered set with AnyInRange as coded (first key >= from, then <= to)  *)
(*      against its declarative meaning.                                      *)
EXTENDS RangesOps

CONSTANTS N, MaxIns,
          DevTouch,     \* deviation: coalescing uses strict overlap (touching ranges stay apart)
          DevAnyLT      \* deviation: AnyInRange compares the found key with "< to"

VARIABLES rs,     \* range set as a sorted sequence (the code)
          R,      \* range set as a set of intervals (the meaning)
          hist,   \* every interval ever inserted
          total,  \* sum of the values returned by Insert (the checker's read count)
          S,      \* ordered set
          ok,     \* observation: the last step's results agreed (code form = declarative form)
          n       \* operations so far

vars == <<rs, R, hist, total, S, ok, n>>

Points == 1..N
Intervals == {<<f, t>> \in Points \X Points : f <= t}

Init == rs = <<>> /\ R = {} /\ hist = {} /\ total = 0 /\ S = {} /\ ok = TRUE /\ n = 0

RangeInsert(f, t) ==
    /\ n < MaxIns
    /\ LET r == SeqInsert(rs, f, t, DevTouch) IN
        /\ rs' = r.rs
        /\ total' = total + r.ret
        /\ ok' = (r.ret = RInsertRet(R, f, t))
    /\ R' = RInsert(R, f, t)
    /\ hist' = hist \cup {<<f, t>>}
    /\ n' = n + 1
    /\ UNCHANGED S

SetInsert(k) ==
    /\ n < MaxIns
    /\ S' = S \cup {k}
    /\ n' = n + 1
    /\ UNCHANGED <<rs, R, hist, total, ok>>

\* queries do not change state; they are checked as invariants over all arguments
Next == (\E i \in Intervals : RangeInsert(i[1], i[2])) \/ (\E k \in Points : SetInsert(k))
Spec == Init /\ [][Next]_vars

----------------------------------------------------------------------------
TypeOK == n \in 0..MaxIns /\ R \subseteq Intervals /\ S \subseteq Points

\* the code's sequence is the declarative set, sorted by from, pairwise disjoint
SeqIsSet == /\ SeqSet(rs) = R
            /\ Cardinality(R) = Len(rs)
            /\ \A i \in 1..(Len(rs) - 1) : rs[i][2] < rs[i + 1][1]
            /\ RDisjoint(R)

\* Contains (both forms) = the point lies in something that was inserted
ContainsOK == \A x \in Points :
                 /\ SeqContains(rs, x) = RContains(R, x)
                 /\ RContains(R, x) = (\E h \in hist : h[1] <= x /\ x <= h[2])

\* the returned increments add up to the number of intervals; results agreed
CountOK == total = Cardinality(R) /\ ok

\* re-inserting anything that was inserted before reports Existed
ExistedOK == \A h \in hist : RInsertRet(R, h[1], h[2]) = 0

AnyInRangeOK == \A f \in Points : \A t \in Points : AnyInRangeC(S, f, t, DevAnyLT) = AnyInRange(S, f, t)
=============================================================================
