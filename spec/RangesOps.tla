----------------------------- MODULE RangesOps -----------------------------
(* Utility abstract data types of C39 (util/ranges, util/ordset,              *)
(* util/sortlist, util/bloom, util/roaring, util/shmap, util/cache,           *)
(* util/lrucache): constant-free operators shared by Ranges.tla (exhaustive)  *)
(* and spec/trace/TraceRanges.tla (replay of the real packages).              *)
(* Keys are ranks (integers) of a strictly monotone key table.                *)
EXTENDS Integers, Sequences, FiniteSets, TLC

MinOf(a, b) == IF a <= b THEN a ELSE b
MaxOf(a, b) == IF a >= b THEN a ELSE b

----------------------------------------------------------------------------
(* ranges.Ranges, declaratively: a set R of closed intervals <<from, to>>, pairwise   *)
(* non-overlapping. Insert(from, to):                                               *)
(*   0  (Existed)  when one existing interval already contains [from, to];           *)
(*   otherwise all intervals overlapping [from, to] are replaced by their union      *)
(*   with it, and the result is the change of the number of intervals: 1 - #merged   *)
(*   (the checker adds it to its read count);                                        *)
(*   Full (state unchanged) is only possible when at least one node's worth (128)    *)
(*   of intervals exists.                                                            *)
Overlap(a, b) == a[2] >= b[1] /\ b[2] >= a[1]
Within(r, f, t) == r[1] <= f /\ t <= r[2]

RExisted(R, f, t) == \E r \in R : Within(r, f, t)
ROverl(R, f, t) == {r \in R : Overlap(r, <<f, t>>)}
\* least from / greatest to over a non-empty set of intervals and the new one
RUnion(ov, f, t) == <<CHOOSE x \in {f} \cup {r[1] : r \in ov} : \A y \in {f} \cup {r[1] : r \in ov} : x <= y,
                      CHOOSE x \in {t} \cup {r[2] : r \in ov} : \A y \in {t} \cup {r[2] : r \in ov} : x >= y>>
RInsert(R, f, t) == IF RExisted(R, f, t) THEN R
                    ELSE (R \ ROverl(R, f, t)) \cup {RUnion(ROverl(R, f, t), f, t)}
RInsertRet(R, f, t) == IF RExisted(R, f, t) THEN 0 ELSE 1 - Cardinality(ROverl(R, f, t))
RContains(R, x) == \E r \in R : r[1] <= x /\ x <= r[2]
RDisjoint(R) == \A a \in R : \A b \in R : a # b => ~Overlap(a, b)

(* the same structure as the code keeps it (ranges.go): a sequence sorted by from;      *)
(* insert at the position found by binary search on from, unless the slot there or the   *)
(* one before already contains the range; then coalesce, starting at the previous slot   *)
(* if it reaches from, while the next slot overlaps (devTouch: deviation, see Ranges.tla) *)
RECURSIVE FirstFrom(_, _, _)
FirstFrom(rs, f, i) == IF i > Len(rs) \/ rs[i][1] >= f THEN i ELSE FirstFrom(rs, f, i + 1)
InsertAt(s, i, x) == SubSeq(s, 1, i - 1) \o <<x>> \o SubSeq(s, i, Len(s))
RemoveAt(s, i) == SubSeq(s, 1, i - 1) \o SubSeq(s, i + 1, Len(s))
OverlapC(a, b, devTouch) == IF devTouch THEN a[2] > b[1] /\ b[2] > a[1] ELSE Overlap(a, b)
RECURSIVE Coalesce(_, _, _)
Coalesce(rs, p, devTouch) ==
    IF p + 1 <= Len(rs) /\ OverlapC(rs[p], rs[p + 1], devTouch)
    THEN Coalesce([RemoveAt(rs, p + 1) EXCEPT ![p] = <<MinOf(rs[p][1], rs[p + 1][1]), MaxOf(rs[p][2], rs[p + 1][2])>>],
                  p, devTouch)
    ELSE rs
SeqInsert(rs, f, t, devTouch) ==
    LET i == FirstFrom(rs, f, 1) IN
    IF (i <= Len(rs) /\ Within(rs[i], f, t)) \/ (i > 1 /\ Within(rs[i - 1], f, t))
    THEN [rs |-> rs, ret |-> 0]
    ELSE LET rs1 == InsertAt(rs, i, <<f, t>>)
             p == IF i > 1 /\ ~(rs1[i - 1][2] < f) THEN i - 1 ELSE i
             rs2 == Coalesce(rs1, p, devTouch) IN
         [rs |-> rs2, ret |-> 1 - (Len(rs1) - Len(rs2))]
\* Ranges.Contains as coded: the slot whose from equals val, else the slot before
SeqContains(rs, x) ==
    LET i == FirstFrom(rs, x, 1) IN
    \/ i <= Len(rs) /\ rs[i][1] = x
    \/ i > 1 /\ rs[i - 1][1] <= x /\ x <= rs[i - 1][2]
SeqSet(rs) == {rs[i] : i \in 1..Len(rs)}

----------------------------------------------------------------------------
(* ordset.Set: a finite set of keys with a capacity; Insert answers false only when   *)
(* full; AnyInRange(from, to) is inclusive at both ends                                *)
AnyInRange(S, f, t) == \E k \in S : f <= k /\ k <= t
\* as coded: the first key >= from exists and is <= to (devLT: deviation "< to")
AnyInRangeC(S, f, t, devLT) ==
    LET ge == {k \in S : k >= f} IN
    IF ge = {} THEN FALSE
    ELSE LET g == CHOOSE x \in ge : \A y \in ge : x <= y IN IF devLT THEN g < t ELSE g <= t

----------------------------------------------------------------------------
(* sortlist: items are integers, Key(x) is their sort key; a finished list is a sorted *)
(* permutation of what was added; cursor = [st |-> "rew" | "in" | "eof", i |-> index]  *)
SortedBy(s, Key(_)) == \A i \in 1..(Len(s) - 1) : Key(s[i]) <= Key(s[i + 1])
SeqItems(s) == {s[i] : i \in 1..Len(s)}
\* for lists of pairwise distinct items
IsPermutation(a, b) == Len(a) = Len(b) /\ SeqItems(a) = SeqItems(b) /\ Cardinality(SeqItems(a)) = Len(a)

SLRew == [st |-> "rew", i |-> 0]
SLEof == [st |-> "eof", i |-> 0]
SLAt(n, i) == IF 1 <= i /\ i <= n THEN [st |-> "in", i |-> i] ELSE SLEof
SLNext(n, c) == CASE c.st = "rew" -> SLAt(n, 1) [] c.st = "in" -> SLAt(n, c.i + 1) [] OTHER -> SLEof
SLPrev(n, c) == CASE c.st = "rew" -> SLAt(n, n) [] c.st = "in" -> SLAt(n, c.i - 1) [] OTHER -> SLEof
\* Seek(key): first element whose key is >= key, eof if none
SLSeek(s, Key(_), k) ==
    LET ge == {i \in 1..Len(s) : Key(s[i]) >= k} IN
    IF ge = {} THEN SLEof ELSE [st |-> "in", i |-> CHOOSE x \in ge : \A y \in ge : x <= y]
=============================================================================
