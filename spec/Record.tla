------------------------------ MODULE Record ------------------------------
(* Record rules (core/surecord.go): fields, rule fields computed by pure     *)
(* rules, the value cache, the dependency graph that is learnt while rules   *)
(* run, the invalid set, observers, and copies.                              *)
(*                                                                           *)
(* Written after the code, one action per public operation:                  *)
(*   Set        SuRecord.Put        (delete invalid[k]; set; same value =>   *)
(*                                   nothing else; invalidateDependents;     *)
(*                                   callObservers)                          *)
(*   Get        SuRecord.Get        (getIfPresent: addDependent when a rule  *)
(*                                   of the same record is active; present & *)
(*                                   valid => cached; else callRule)         *)
(*   Delete     SuRecord.Delete     (remove; invalidateDependents; observers)*)
(*   Invalidate SuRecord.Invalidate (invalidate(k) transitively; observers)  *)
(*   Copy       SuRecord.Copy       (values, dependents and invalid copied;  *)
(*                                   observers are not)                      *)
(*   Observe    SuRecord.Observer                                            *)
(*   Reload     SuRecord.ToRecord + SuRecordFromRow (only with DB = TRUE):   *)
(*              the record is saved as a database row (ToRecord evaluates    *)
(*              every missing/invalid field, the learnt dependencies go into *)
(*              the <field>_deps columns) and a second record is made from   *)
(*              that row.  Such a record has NO dependents map yet (lazy):   *)
(*              SuRecord.ensureDeps builds it from the stored _deps columns  *)
(*              of the row the first time an operation needs it (Put,        *)
(*              Delete, Invalidate, Copy, a rule evaluation).  Delete drops  *)
(*              the row, so it has to load the dependents BEFORE that.       *)
(* Rules are the fixed pure functions                                        *)
(*   c = a + b        d = c * 2        e = (a is 0) ? d : b                  *)
(*   and optionally g = a + 1, h = a + 2, k = a + 3 (constant Extra)         *)
(* (e has data dependent inputs).  A missing member reads as "" (the record  *)
(* default), written EMPTY here; "" counts as 0 in arithmetic.               *)
(*                                                                           *)
(* The PROPERTY (C35) is stated independently of the mechanism: Cur(s, f) is *)
(* the value of f obtained by evaluating the rules on the current plain/set  *)
(* values, with no cache; GetReflectsCurrent says Get always returns it.     *)
EXTENDS Integers, Sequences, FiniteSets, TLC

CONSTANTS
    Recs,       \* record ids, e.g. {1, 2}; record 1 exists initially
    Obs,        \* observer ids
    Vals,       \* values that Set may store, e.g. 0..2
    Extra,      \* additional rule fields, subset of {"g", "h", "k"}: g = a + 1, h = a + 2, k = a + 3
                \* (many rules reading the same field: long dependents lists)
    DB,         \* BOOLEAN: records can be saved to / loaded from database rows (action Reload)
    Dev         \* "none" | "notransitive" | "copyshare" | "nodep" | "latedeps"  (self-test deviations)

EMPTY == -1                          \* the empty string (record default value)
Plain == {"a", "b"}
RuleFields == {"c", "d", "e"} \cup Extra
Offset(f) == CASE f = "g" -> 1 [] f = "h" -> 2 [] f = "k" -> 3
Fields == Plain \cup RuleFields

Num(x) == IF x = EMPTY THEN 0 ELSE x

VARIABLES
    recs,       \* recs[r] = record state or NoRec
    obs,        \* obs[r] = set of observers of r
    link,       \* only with Dev = "copyshare": the two records share one invalid set
    out         \* observation of the last operation (what the driver logs)

vars == <<recs, obs, link, out>>

NoRec == [none |-> TRUE]
NoDeps == [f \in Fields |-> {}]
EmptyRec == [has  |-> {},                               \* members present
             val  |-> [f \in Fields |-> 0],             \* their values
             inv  |-> {},                               \* SuRecord.invalid
             deps |-> NoDeps,                           \* SuRecord.dependents: deps[to] = {from...}
             src  |-> [f \in Fields |-> "set"],         \* did val[f] come from Set or from the rule
             lazy |-> FALSE,                            \* SuRecord.dependents == nil: not built yet
             sdeps |-> NoDeps]                          \* dependencies stored in the _deps columns of
                                                        \* SuRecord.row (only meaningful while lazy)

\* SuRecord.ensureDeps: build the dependents map from the row the first time it is needed
EnsureDeps(s) == IF s.lazy THEN [s EXCEPT !.deps = s.sdeps, !.lazy = FALSE, !.sdeps = NoDeps] ELSE s

Exists(r) == recs[r] # NoRec

----------------------------------------------------------------------------
(* Get, as the code does it.  GetOp returns [s |-> new record state, v |-> value]. *)
(* from = field whose rule is running (th.rules.top()), "" if none.                *)

AddDep(s, from, to) ==
    IF from = "" \/ from = to THEN s
    ELSE [EnsureDeps(s) EXCEPT !.deps[to] = @ \cup {from}]

RECURSIVE GetOp(_, _, _), RunRule(_, _)

GetOp(s, f, from) ==
    LET s1 == AddDep(s, from, f) IN
    IF f \in s1.has /\ f \notin s1.inv
    THEN [s |-> s1, v |-> s1.val[f]]
    ELSE \* callRule: first clear the invalid flag
         LET s2 == [s1 EXCEPT !.inv = @ \ {f}] IN
         IF f \notin RuleFields
         THEN [s |-> s2, v |-> IF f \in s2.has THEN s2.val[f] ELSE EMPTY]
         ELSE LET r == RunRule(EnsureDeps(s2), f) IN
              [s |-> [r.s EXCEPT !.has = @ \cup {f}, !.val[f] = r.v, !.src[f] = "rule"],
               v |-> r.v]

RunRule(s, f) ==
    CASE f = "c" -> LET ga == GetOp(s, "a", "c")
                        gb == GetOp(ga.s, "b", "c")
                    IN [s |-> gb.s, v |-> Num(ga.v) + Num(gb.v)]
      [] f = "d" -> LET gc == GetOp(s, "c", "d")
                    IN [s |-> gc.s, v |-> Num(gc.v) * 2]
      [] f = "e" -> LET ga == GetOp(s, "a", "e")
                        \* deviation "nodep": the read in the chosen branch records no dependency
                        fr == IF Dev = "nodep" THEN "" ELSE "e"
                    IN IF ga.v = 0 THEN GetOp(ga.s, "d", fr) ELSE GetOp(ga.s, "b", fr)
      [] f \in Extra -> LET ga == GetOp(s, "a", f)
                        IN [s |-> ga.s, v |-> Num(ga.v) + Offset(f)]

----------------------------------------------------------------------------
(* invalidation: SuRecord.invalidate is a depth first walk over dependents that   *)
(* stops at fields that are already invalid; the resulting set does not depend on *)
(* the order.  Reach(s, frontier, acc) = fields newly marked.                     *)

RECURSIVE Reach(_, _, _)
Reach(s, frontier, acc) ==
    LET new == {n \in UNION {s.deps[x] : x \in frontier} : n \notin s.inv /\ n \notin acc} IN
    IF new = {} THEN acc
    ELSE IF Dev = "notransitive" THEN acc \cup new
    ELSE Reach(s, new, acc \cup new)

\* invalidateDependents(f)
NewlyFrom(s, f) == Reach(s, {f}, {})

Pairs(os, fs) == {<<o, f>> : o \in os, f \in fs}

\* observation record: operation, record, field, value, copy target, observer,
\* result (Get: value; Delete: 1 if the member existed), observer notifications
Out(op, r, f, v, q, o, res, notes) ==
    [op |-> op, r |-> r, f |-> f, v |-> v, q |-> q, o |-> o, res |-> res, notes |-> notes]

----------------------------------------------------------------------------
Init == /\ recs = [r \in Recs |-> IF r = 1 THEN EmptyRec ELSE NoRec]
        /\ obs = [r \in Recs |-> {}]
        /\ link = FALSE
        /\ out = Out("init", 0, "", 0, 0, 0, 0, {})

\* write back record r; with the copyshare deviation the other record's invalid set is the same object
Store(r, s) ==
    recs' = [q \in Recs |-> IF q = r THEN s
                            ELSE IF link /\ Exists(q) THEN [recs[q] EXCEPT !.inv = s.inv]
                            ELSE recs[q]]

Set(r, f, v) ==
    /\ Exists(r)
    /\ LET s == EnsureDeps(recs[r])
           same == f \in s.has /\ s.val[f] = v
           s1 == [s EXCEPT !.inv = @ \ {f}, !.has = @ \cup {f}, !.val[f] = v, !.src[f] = "set"]
           newly == IF same THEN {} ELSE NewlyFrom(s1, f)
           s2 == [s1 EXCEPT !.inv = @ \cup newly]
       IN /\ Store(r, s2)
          /\ out' = Out("Set", r, f, v, 0, 0, 0,
                        IF same THEN {} ELSE Pairs(obs[r], {f} \cup newly))
    /\ UNCHANGED <<obs, link>>

Get(r, f) ==
    /\ Exists(r)
    /\ LET g == GetOp(recs[r], f, "") IN
          /\ Store(r, g.s)
          /\ out' = Out("Get", r, f, 0, 0, 0, g.v, {})
    /\ UNCHANGED <<obs, link>>

Delete(r, f) ==
    /\ Exists(r)
    /\ LET \* ensureDeps comes first: the row (and its _deps columns) is dropped by delete;
           \* deviation "latedeps": the row is dropped before the dependents were built from it
           s == IF Dev = "latedeps" THEN EnsureDeps([recs[r] EXCEPT !.sdeps = NoDeps])
                ELSE EnsureDeps(recs[r])
           had == f \in s.has
           s1 == [s EXCEPT !.has = @ \ {f}, !.val[f] = 0, !.src[f] = "set"]
           newly == IF had THEN NewlyFrom(s1, f) ELSE {}
           s2 == [s1 EXCEPT !.inv = @ \cup newly]
       IN /\ Store(r, s2)
          /\ out' = Out("Delete", r, f, 0, 0, 0, IF had THEN 1 ELSE 0,
                        IF had THEN Pairs(obs[r], {f} \cup newly) ELSE {})
    /\ UNCHANGED <<obs, link>>

Invalidate(r, f) ==
    /\ Exists(r)
    /\ LET s == EnsureDeps(recs[r])
           newly == IF f \in s.inv THEN {}
                    ELSE {f} \cup Reach([s EXCEPT !.inv = @ \cup {f}], {f}, {})
           s2 == [s EXCEPT !.inv = @ \cup newly]
       IN /\ Store(r, s2)
          /\ out' = Out("Invalidate", r, f, 0, 0, 0, 0, Pairs(obs[r], {f} \cup newly))
    /\ UNCHANGED <<obs, link>>

Copy(r, q) ==
    /\ Exists(r) /\ r # q
    /\ recs' = [recs EXCEPT ![r] = EnsureDeps(recs[r]), ![q] = EnsureDeps(recs[r])]   \* copyDeps
    /\ obs' = [obs EXCEPT ![q] = {}]
    /\ link' = (link \/ Dev = "copyshare")
    /\ out' = Out("Copy", r, "", 0, q, 0, 0, {})

\* ToRecord(hdr): ensureDeps, then every field of the header in order is brought up to date
\* (SuRecord.deps: missing or invalid => callRule), then the values and the inverted
\* dependents (the <field>_deps columns) are written to the row.
FieldOrder == <<"a", "b", "c", "d", "e", "g", "h", "k">>
RECURSIVE SaveFrom(_, _)
SaveFrom(s, i) ==
    IF i > Len(FieldOrder) THEN s
    ELSE IF FieldOrder[i] \in Fields THEN SaveFrom(GetOp(s, FieldOrder[i], "").s, i + 1)
    ELSE SaveFrom(s, i + 1)
SaveOp(s) == SaveFrom(EnsureDeps(s), 1)

\* q := SuRecordFromRow(r.ToRecord(hdr)): the values of the row (a stored rule value is a valid
\* cached rule value, a stored Set value a field value), nothing invalid, no observers, and the
\* dependents still to be built from the row
Reload(r, q) ==
    /\ DB /\ Exists(r) /\ r # q
    /\ LET s1 == SaveOp(recs[r])
           \* an empty value ("", e.g. computed by rule e) is stored as nothing: not a member of q
           new == [has |-> {f \in s1.has : s1.val[f] # EMPTY}, val |-> s1.val, inv |-> {}, deps |-> NoDeps, src |-> s1.src,
                   lazy |-> TRUE, sdeps |-> s1.deps]
       IN recs' = [recs EXCEPT ![r] = s1, ![q] = new]
    /\ obs' = [obs EXCEPT ![q] = {}]
    /\ out' = Out("Reload", r, "", 0, q, 0, 0, {})
    /\ UNCHANGED link

Observe(r, o) ==
    /\ Exists(r) /\ o \notin obs[r]
    /\ obs' = [obs EXCEPT ![r] = @ \cup {o}]
    /\ out' = Out("Observe", r, "", 0, 0, o, 0, {})
    /\ UNCHANGED <<recs, link>>

Next == \E r \in Recs :
           \/ \E f \in Fields : \/ \E v \in Vals : Set(r, f, v)
                                \/ Get(r, f)
                                \/ Delete(r, f)
                                \/ Invalidate(r, f)
           \/ \E q \in Recs : Copy(r, q) \/ Reload(r, q)
           \/ \E o \in Obs : Observe(r, o)

Spec == Init /\ [][Next]_vars

----------------------------------------------------------------------------
(* Properties (C35) *)

\* the value of f computed from the record's current field values, no cache involved:
\* a member that was Set (and not invalidated since) is a current field value; anything
\* else that has a rule is whatever the rule computes; a missing plain member is "".
RECURSIVE Cur(_, _)
Cur(s, f) ==
    IF f \in s.has /\ f \notin s.inv /\ s.src[f] = "set" THEN s.val[f]
    ELSE IF f = "c" THEN Num(Cur(s, "a")) + Num(Cur(s, "b"))
    ELSE IF f = "d" THEN Num(Cur(s, "c")) * 2
    ELSE IF f = "e" THEN (IF Cur(s, "a") = 0 THEN Cur(s, "d") ELSE Cur(s, "b"))
    ELSE IF f \in Extra THEN Num(Cur(s, "a")) + Offset(f)
    ELSE IF f \in s.has THEN s.val[f] ELSE EMPTY

\* Get of any field of any record returns the value computed from current field values
GetReflectsCurrent ==
    \A r \in Recs : Exists(r) => \A f \in Fields : GetOp(recs[r], f, "").v = Cur(recs[r], f)

\* a valid cached rule value is never stale
CacheFresh ==
    \A r \in Recs : Exists(r) =>
        \A f \in RuleFields :
            (f \in recs[r].has /\ f \notin recs[r].inv /\ recs[r].src[f] = "rule")
                => recs[r].val[f] = Cur(recs[r], f)

\* every field that becomes invalid in a step is notified to every observer of the record
NotifyEach ==
    [][\A r \in Recs : (Exists(r) /\ recs'[r] # NoRec /\ out'.op \in {"Set", "Delete", "Invalidate"} /\ out'.r = r)
            => Pairs(obs[r], recs'[r].inv \ recs[r].inv) \subseteq out'.notes]_vars

TypeOK ==
    /\ \A r \in Recs : Exists(r) =>
          /\ recs[r].has \subseteq Fields /\ recs[r].inv \subseteq Fields
          /\ \A f \in Fields : recs[r].val[f] \in -1..8
    /\ \A r \in Recs : obs[r] \subseteq Obs
=============================================================================
