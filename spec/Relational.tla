----------------------------- MODULE Relational -----------------------------
(* Denotation of the gSuneido query language (dbms/query) as written:        *)
(* a query is an AST (records, as produced by the harness generator - never  *)
(* by gSuneido's parser), a database maps table names to sets of rows, a row *)
(* is a function column -> value, and Denote(q, db) is the SET of rows the   *)
(* query means (suneidoc/Database/Queries/*.md).  All operators preserve     *)
(* set-ness (tables have keys; project/union/summarize remove duplicates),   *)
(* so an implementation must return every denoted row exactly once,          *)
(* whatever Transform / index / join order / temp index strategy it picks.   *)
(*                                                                           *)
(* Also here, as pure operators used by the trace spec:                      *)
(*  - the cursor contract (C23): Rewind / Get(Next|Prev) / Select / Lookup   *)
(*    over the denoted result in a required order; Keys() and Fixed() claims *)
(*  - the update statements (C24): insert record / insert query / update /   *)
(*    delete as functions old table -> new table + count.                    *)
(*                                                                           *)
(* Values are <<tag, n, d>> (DESIGN 3.4: TLC cannot order strings and has    *)
(* 32-bit integers):  tag 0 = "" (n=0,d=1), 1 = boolean (n in 0..1),         *)
(* 2 = number n/d (d > 0, reduced), 3 = non-empty string (n = rank in the    *)
(* driver's table, monotone under byte order).  (tag, value) in this order   *)
(* is the order of the stored (packed) encoding, which is the order indexes, *)
(* sort, min and max use.  The language's comparison differs from it only    *)
(* for "" against a boolean/number (the documented exception of C25); the    *)
(* generator never produces such a comparison and WellDefE flags it.         *)
EXTENDS Integers, Sequences, FiniteSets, TLC

-----------------------------------------------------------------------------
(* Values *)

VEmpty == <<0, 0, 1>>
VBool(b) == <<1, IF b THEN 1 ELSE 0, 1>>
VTrue == <<1, 1, 1>>
VFalse == <<1, 0, 1>>
VNum(n) == <<2, n, 1>>
VErr == <<9, 0, 1>>     \* result of an operation the language rejects (never equals a real value)

Abs(n) == IF n < 0 THEN -n ELSE n

RECURSIVE Gcd(_, _)
Gcd(a, b) == IF b = 0 THEN a ELSE Gcd(b, a % b)

\* canonical rational n/d, d # 0
Rat(n, d) ==
    LET g == Gcd(Abs(n), Abs(d))
        s == IF d < 0 THEN -1 ELSE 1
    IN <<2, (s * n) \div g, (s * d) \div g>>

IsNum(v) == v[1] = 2
\* arithmetic is defined on numbers only ("" * 2 is "can't convert String to number")
Arithable(v) == v[1] = 2

VAdd(x, y) == Rat(x[2] * y[3] + y[2] * x[3], x[3] * y[3])
VSub(x, y) == Rat(x[2] * y[3] - y[2] * x[3], x[3] * y[3])
VMul(x, y) == Rat(x[2] * y[2], x[3] * y[3])

\* order of the stored encoding: "" < false < true < numbers < strings
VLt(x, y) ==
    \/ x[1] < y[1]
    \/ /\ x[1] = y[1]
       /\ IF x[1] = 2 THEN x[2] * y[3] < y[2] * x[3] ELSE x[2] < y[2]
VLe(x, y) == x = y \/ VLt(x, y)

\* the one place where the language order and the stored order disagree
AmbiguousCmp(x, y) ==
    \/ x = VEmpty /\ y[1] \in {1, 2}
    \/ y = VEmpty /\ x[1] \in {1, 2}

Range(s) == {s[i] : i \in 1..Len(s)}

-----------------------------------------------------------------------------
(* Expressions (where / extend / update set):                                *)
(*  [k |-> "const", v]  [k |-> "col", c]  [k |-> "cmp", o, a, b]             *)
(*  [k |-> "and"|"or", es]  [k |-> "not", a]  [k |-> "in", a, vs]            *)
(*  [k |-> "arith", o, a, b]  [k |-> "if", c, a, b]                          *)

CmpOp(o, x, y) ==
    CASE o = "is" -> x = y
      [] o = "isnt" -> x # y
      [] o = "lt" -> VLt(x, y)
      [] o = "lte" -> VLe(x, y)
      [] o = "gt" -> VLt(y, x)
      [] o = "gte" -> VLe(y, x)

Arith(o, x, y) ==
    IF ~(Arithable(x) /\ Arithable(y)) THEN VErr
    ELSE CASE o = "add" -> VAdd(x, y)
           [] o = "sub" -> VSub(x, y)
           [] o = "mul" -> VMul(x, y)

RECURSIVE EvalE(_, _)
EvalE(e, row) ==
    CASE e.k = "const" -> e.v
      [] e.k = "col" -> row[e.c]
      [] e.k = "cmp" -> VBool(CmpOp(e.o, EvalE(e.a, row), EvalE(e.b, row)))
      [] e.k = "and" -> VBool(\A i \in 1..Len(e.es) : EvalE(e.es[i], row) = VTrue)
      [] e.k = "or" -> VBool(\E i \in 1..Len(e.es) : EvalE(e.es[i], row) = VTrue)
      [] e.k = "not" -> VBool(EvalE(e.a, row) # VTrue)
      [] e.k = "in" -> LET x == EvalE(e.a, row) IN VBool(\E i \in 1..Len(e.vs) : e.vs[i] = x)
      [] e.k = "arith" -> Arith(e.o, EvalE(e.a, row), EvalE(e.b, row))
      [] e.k = "if" -> IF EvalE(e.c, row) = VTrue THEN EvalE(e.a, row) ELSE EvalE(e.b, row)

\* an expression is inside the documented semantics on this row: no range comparison
\* of "" with a boolean/number, logical operators only on booleans, arithmetic only
\* on numbers or ""
RECURSIVE WellDefE(_, _)
WellDefE(e, row) ==
    CASE e.k = "const" -> TRUE
      [] e.k = "col" -> e.c \in DOMAIN row
      [] e.k = "cmp" -> /\ WellDefE(e.a, row) /\ WellDefE(e.b, row)
                        /\ \/ e.o \in {"is", "isnt"}
                           \/ ~AmbiguousCmp(EvalE(e.a, row), EvalE(e.b, row))
      [] e.k \in {"and", "or"} -> \A i \in 1..Len(e.es) :
                        WellDefE(e.es[i], row) /\ EvalE(e.es[i], row)[1] = 1
      [] e.k = "not" -> WellDefE(e.a, row) /\ EvalE(e.a, row)[1] = 1
      [] e.k = "in" -> WellDefE(e.a, row)
      [] e.k = "arith" -> /\ WellDefE(e.a, row) /\ WellDefE(e.b, row)
                          /\ Arithable(EvalE(e.a, row)) /\ Arithable(EvalE(e.b, row))
      [] e.k = "if" -> /\ WellDefE(e.c, row) /\ EvalE(e.c, row)[1] = 1
                       /\ WellDefE(e.a, row) /\ WellDefE(e.b, row)

-----------------------------------------------------------------------------
(* Rows and queries.  A database db is a function                            *)
(*   table name -> [cols : set of columns, rows : set of rows].              *)
(* Query AST (field op):                                                     *)
(*  table(name)  where(src,e)  project(src,cols)  remove(src,cols)           *)
(*  rename(src,from,to)  extend(src,cols,exprs)                              *)
(*  summarize(src,by,cols,ops,ons,whole)  sort(src,cols,rev)  view(name,def) *)
(*  join|leftjoin|semijoin|times|union|intersect|minus(l,r)                  *)

Restrict(r, C) == [c \in C |-> r[c]]
Pad(r, C) == [c \in C |-> IF c \in DOMAIN r THEN r[c] ELSE VEmpty]

\* rename is sequential: rename a to b, b to c
RECURSIVE RenameCol(_, _, _, _)
RenameCol(c, from, to, i) ==
    IF i > Len(from) THEN c
    ELSE RenameCol(IF c = from[i] THEN to[i] ELSE c, from, to, i + 1)
RenameCols(C, from, to) == {RenameCol(c, from, to, 1) : c \in C}
RenameRow(r, from, to) ==
    LET C == DOMAIN r
    IN [n \in RenameCols(C, from, to) |-> r[CHOOSE c \in C : RenameCol(c, from, to, 1) = n]]

\* extend is sequential: later expressions may use earlier new columns
RECURSIVE ExtendRow(_, _, _, _)
ExtendRow(r, cols, exprs, i) ==
    IF i > Len(cols) THEN r
    ELSE ExtendRow(r @@ (cols[i] :> EvalE(exprs[i], r)), cols, exprs, i + 1)

RECURSIVE Cols(_, _)
Cols(q, db) ==
    CASE q.op = "table" -> db[q.name].cols
      [] q.op \in {"where", "sort"} -> Cols(q.src, db)
      [] q.op = "view" -> Cols(q.def, db)
      [] q.op = "project" -> Range(q.cols)
      [] q.op = "remove" -> Cols(q.src, db) \ Range(q.cols)
      [] q.op = "rename" -> RenameCols(Cols(q.src, db), q.from, q.to)
      [] q.op = "extend" -> Cols(q.src, db) \cup Range(q.cols)
      [] q.op = "summarize" -> (IF q.whole THEN Cols(q.src, db) ELSE Range(q.by)) \cup Range(q.cols)
      [] q.op \in {"join", "leftjoin", "times", "union"} -> Cols(q.l, db) \cup Cols(q.r, db)
      [] q.op \in {"semijoin", "minus"} -> Cols(q.l, db)
      [] q.op = "intersect" -> Cols(q.l, db) \cap Cols(q.r, db)

RECURSIVE SumOn(_, _)
SumOn(G, on) ==
    IF G = {} THEN VNum(0)
    ELSE LET r == CHOOSE x \in G : TRUE
             \* total/average skip what is not a number ("" and strings)
             v == IF IsNum(r[on]) THEN r[on] ELSE VNum(0)
         IN VAdd(v, SumOn(G \ {r}, on))

MinOf(V) == CHOOSE v \in V : \A w \in V : VLe(v, w)
MaxOf(V) == CHOOSE v \in V : \A w \in V : VLe(w, v)

\* G: the non-empty set of source rows of one group
Agg(op, on, G) ==
    CASE op = "count" -> VNum(Cardinality(G))
      [] op = "total" -> SumOn(G, on)
      [] op = "average" -> LET t == SumOn(G, on) IN Rat(t[2], t[3] * Cardinality(G))
      [] op = "min" -> MinOf({r[on] : r \in G})
      [] op = "max" -> MaxOf({r[on] : r \in G})

SameOn(r1, r2, C) == \A c \in C : r1[c] = r2[c]

RECURSIVE Denote(_, _)
Denote(q, db) ==
    CASE q.op = "table" -> db[q.name].rows
      [] q.op = "where" -> {r \in Denote(q.src, db) : EvalE(q.e, r) = VTrue}
      [] q.op = "sort" -> Denote(q.src, db)
      [] q.op = "view" -> Denote(q.def, db)
      [] q.op = "project" -> LET C == Range(q.cols) IN {Restrict(r, C) : r \in Denote(q.src, db)}
      [] q.op = "remove" -> LET C == Cols(q.src, db) \ Range(q.cols)
                            IN {Restrict(r, C) : r \in Denote(q.src, db)}
      [] q.op = "rename" -> {RenameRow(r, q.from, q.to) : r \in Denote(q.src, db)}
      [] q.op = "extend" -> {ExtendRow(r, q.cols, q.exprs, 1) : r \in Denote(q.src, db)}
      [] q.op = "summarize" ->
            LET S == Denote(q.src, db)
                B == Range(q.by)
                N == 1..Len(q.cols)
            IN IF q.whole
               \* overall min/max of a key: the whole row comes along
               THEN IF S = {} THEN {}
                    ELSE LET v == Agg(q.ops[1], q.ons[1], S)
                         IN {r @@ (q.cols[1] :> v) : r \in {x \in S : x[q.ons[1]] = v}}
               ELSE {g @@ [c \in Range(q.cols) |->
                            LET i == CHOOSE j \in N : q.cols[j] = c
                            IN Agg(q.ops[i], q.ons[i], {r \in S : SameOn(r, g, B)})]
                     : g \in {Restrict(r, B) : r \in S}}
      [] q.op = "join" ->
            LET L == Denote(q.l, db)
                R == Denote(q.r, db)
                C == Cols(q.l, db) \cap Cols(q.r, db)
            IN {p[1] @@ p[2] : p \in {x \in L \X R : SameOn(x[1], x[2], C)}}
      [] q.op = "leftjoin" ->
            LET L == Denote(q.l, db)
                R == Denote(q.r, db)
                C == Cols(q.l, db) \cap Cols(q.r, db)
                U == Cols(q.l, db) \cup Cols(q.r, db)
            IN {p[1] @@ p[2] : p \in {x \in L \X R : SameOn(x[1], x[2], C)}}
               \cup {Pad(r1, U) : r1 \in {x \in L : \A r2 \in R : ~SameOn(x, r2, C)}}
      [] q.op = "semijoin" ->
            LET R == Denote(q.r, db)
                C == Cols(q.l, db) \cap Cols(q.r, db)
            IN {r1 \in Denote(q.l, db) : \E r2 \in R : SameOn(r1, r2, C)}
      [] q.op = "times" ->
            {p[1] @@ p[2] : p \in Denote(q.l, db) \X Denote(q.r, db)}
      [] q.op = "union" ->
            LET U == Cols(q.l, db) \cup Cols(q.r, db)
            IN {Pad(r, U) : r \in Denote(q.l, db)} \cup {Pad(r, U) : r \in Denote(q.r, db)}
      \* union, intersect and minus compare ALL columns of both sources; a column one source
      \* does not have counts as "" (the documented use is sources with the same columns, where
      \* this is plain set intersection / difference)
      [] q.op = "intersect" ->
            LET U == Cols(q.l, db) \cup Cols(q.r, db)
                C == Cols(q.l, db) \cap Cols(q.r, db)
                R == {Pad(r, U) : r \in Denote(q.r, db)}
            IN {Restrict(r, C) : r \in {x \in Denote(q.l, db) : Pad(x, U) \in R}}
      [] q.op = "minus" ->
            LET U == Cols(q.l, db) \cup Cols(q.r, db)
                R == {Pad(r, U) : r \in Denote(q.r, db)}
            IN {r \in Denote(q.l, db) : Pad(r, U) \notin R}

\* every expression the query evaluates stays inside the documented semantics
RECURSIVE WellDef(_, _)
WellDef(q, db) ==
    CASE q.op = "table" -> TRUE
      [] q.op = "where" -> WellDef(q.src, db) /\ \A r \in Denote(q.src, db) :
                               WellDefE(q.e, r) /\ EvalE(q.e, r)[1] = 1
      [] q.op = "extend" -> WellDef(q.src, db) /\ \A r \in Denote(q.src, db) :
                               \A i \in 1..Len(q.cols) :
                                   WellDefE(q.exprs[i], ExtendRow(r, q.cols, q.exprs, 1))
      [] q.op = "view" -> WellDef(q.def, db)
      [] q.op \in {"sort", "project", "remove", "rename", "summarize"} -> WellDef(q.src, db)
      [] OTHER -> WellDef(q.l, db) /\ WellDef(q.r, db)

-----------------------------------------------------------------------------
(* C23: contracts of the access operations                                   *)

\* lexicographic order of rows on a sequence of columns (stored order of values)
RECURSIVE RowLeq(_, _, _, _)
RowLeq(r1, r2, oc, i) ==
    IF i > Len(oc) THEN TRUE
    ELSE IF r1[oc[i]] = r2[oc[i]] THEN RowLeq(r1, r2, oc, i + 1)
    ELSE VLt(r1[oc[i]], r2[oc[i]])

IsOrdered(s, oc, rev) ==
    \A i \in 1..(Len(s) - 1) :
        IF rev THEN RowLeq(s[i + 1], s[i], oc, 1) ELSE RowLeq(s[i], s[i + 1], oc, 1)

\* rows with equal values on G are contiguous
IsGrouped(s, G) ==
    \A i, k \in 1..Len(s) :
        (i < k /\ SameOn(s[i], s[k], G)) => \A j \in i..k : SameOn(s[i], s[j], G)

NoDups(s) == Cardinality(Range(s)) = Len(s)

Reverse(s) == [i \in 1..Len(s) |-> s[Len(s) + 1 - i]]

\* sels: sequence of [c, v]
MatchSels(r, sels, C) == \A i \in 1..Len(sels) : sels[i].c \in C => r[sels[i].c] = sels[i].v

\* Select on the required columns R; selection values on other columns may be applied or
\* ignored ("it is ok for sels to contain extra columns, but they will be ignored, not
\* applied"): the selected set lies between the two
SelectOK(result, base, sels, R) ==
    /\ {r \in base : MatchSels(r, sels, DOMAIN r)} \subseteq result
    /\ result \subseteq {r \in base : MatchSels(r, sels, R)}

\* Lookup with values for columns that contain a key: exactly the matching row or nothing.
\* Operators use the key columns to find the row; "it is ok for sels to contain extra columns,
\* but they will be ignored ... the originator of the sels is responsible for comparing extra
\* columns" (query.go) - so the contract is on the result after that comparison:
\*   a row matching ALL values exists  <=>  Lookup returns it;
\* a returned row that fails the comparison must still be the row some reported key selects.
LookupOK(has, row, base, sels, keys) ==
    LET F == {r \in base : MatchSels(r, sels, DOMAIN r)}
        SC == {sels[i].c : i \in 1..Len(sels)}
    IN IF has
       THEN /\ row \in base
            /\ F # {} => row \in F
            /\ \E i \in 1..Len(keys) : Range(keys[i]) \subseteq SC /\ MatchSels(row, sels, Range(keys[i]))
       ELSE F = {}

\* position machine of Get over a sequence of n rows.
\* st: "rewound" | "within" | "eof";  result: index of the row returned, 0 = none
CursorNext(st, pos, n, dir) ==
    IF st = "eof" THEN [st |-> "eof", pos |-> 0, ret |-> 0]
    ELSE LET p == IF st = "rewound" THEN (IF dir = "next" THEN 1 ELSE n)
                   ELSE (IF dir = "next" THEN pos + 1 ELSE pos - 1)
         IN IF p < 1 \/ p > n THEN [st |-> "eof", pos |-> 0, ret |-> 0]
            ELSE [st |-> "within", pos |-> p, ret |-> p]

\* reported keys are unique on the result, reported fixed values hold in every row
KeysOK(keys, base, cols) ==
    \A i \in 1..Len(keys) :
        /\ Range(keys[i]) \subseteq cols
        /\ \A r1, r2 \in base : SameOn(r1, r2, Range(keys[i])) => r1 = r2
\* fixed: sequence of [c, vs]
FixedOK(fixed, base) ==
    \A i \in 1..Len(fixed) : \A r \in base :
        fixed[i].c \in DOMAIN r => r[fixed[i].c] \in Range(fixed[i].vs)

-----------------------------------------------------------------------------
(* C24: update statements.  T = rows of the target table before.             *)

KeyUnique(rows, keys) ==
    \A i \in 1..Len(keys) : \A r1, r2 \in rows :
        SameOn(r1, r2, Range(keys[i])) => r1 = r2
\* a table with the empty key holds at most one row (covered: SameOn on {} is TRUE)

\* set: sequence of [c, e]; assignments are applied left to right, each expression sees
\* the row as read (updateAction.execute evaluates all exprs on the old row)
RECURSIVE ApplySet(_, _, _, _)
ApplySet(old, new, set, i) ==
    IF i > Len(set) THEN new
    ELSE ApplySet(old, [new EXCEPT ![set[i].c] = EvalE(set[i].e, old)], set, i + 1)

UpdateRow(r, set) == ApplySet(r, r, set, 1)

\* rows of table T selected by an updateable query whose result rows extend table rows
Selected(T, S, TC) == {t \in T : \E s \in S : SameOn(t, s, TC \cap DOMAIN s)}

-----------------------------------------------------------------------------
(* C22: composite index ranges of a where (where3.go explodeIndexSpans).     *)
(* icols = index columns <<c1..cn>>, alts[i] = sequence of distinct values   *)
(* column ci is constrained to (is / in).  The where reads the index once    *)
(* per PREFIX; the prefixes are the cross product, built column by column:   *)
(* every prefix of length i-1 is extended with every alternative of ci.      *)
(* shared = deviation: the extensions of one prefix by the alternatives of   *)
(* the LAST column share their storage, so each holds the last alternative.  *)
RECURSIVE Explode(_, _, _)
Explode(alts, n, shared) ==
    IF n = 0 THEN << <<>> >>
    ELSE LET pre == Explode(alts, n - 1, shared)
             m == Len(alts[n])
             ext(p, j) == p \o << IF shared /\ n = Len(alts) THEN alts[n][m] ELSE alts[n][j] >>
         IN [k \in 1..(Len(pre) * m) |-> ext(pre[((k - 1) \div m) + 1], ((k - 1) % m) + 1)]

\* the rows each read of the index delivers (one set per prefix, in prefix order)
IndexReads(rows, icols, alts, shared) ==
    LET ps == Explode(alts, Len(icols), shared)
    IN [k \in 1..Len(ps) |-> {r \in rows : \A i \in 1..Len(icols) : r[icols[i]] = ps[k][i]}]

RECURSIVE SumCard(_)
SumCard(sets) == IF sets = <<>> THEN 0 ELSE Cardinality(Head(sets)) + SumCard(Tail(sets))

-----------------------------------------------------------------------------
(* C24: an insert query whose source scans the TARGET table in the order of  *)
(* column c and inserts f(row) for every row.  buffered: all rows are read   *)
(* before the first is written (action.go insertQueryAction); otherwise      *)
(* (deviation) reading and writing alternate and the scan comes across rows  *)
(* the statement itself has inserted ahead of its position.                  *)
(* Result: [rows |-> table afterwards, n |-> rows inserted].                 *)
MinBy(S, c) == CHOOSE r \in S : \A r2 \in S : VLe(r[c], r2[c])

RECURSIVE ScanInsert(_, _, _, _, _, _, _)
ScanInsert(cur, todo, n, c, f(_), buffered, fuel) ==
    \* todo: rows the scan has not yet passed
    IF todo = {} \/ fuel = 0 THEN [rows |-> cur, n |-> n]
    ELSE LET r == MinBy(todo, c)
             new == f(r)
             \* streaming: an inserted row beyond the scan position will be read too
             seen == IF ~buffered /\ new \notin cur /\ VLt(r[c], new[c]) THEN {new} ELSE {}
         IN ScanInsert(cur \cup {new}, (todo \ {r}) \cup seen, n + 1, c, f, buffered, fuel - 1)

=============================================================================
