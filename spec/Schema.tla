------------------------------- MODULE Schema -------------------------------
(* Admin requests (schema changes) of gSuneido and the bookkeeping of        *)
(* foreign-key links:  db19/meta/meta.go, db19/database.go (Create, Ensure,  *)
(* AlterCreate, AlterDrop, AlterRename, RenameTable, AddView, Drop),         *)
(* dbms/query/admin.go + parseadmin.go (DoAdmin).                            *)
(*                                                                           *)
(* State (what property C21 talks about, never structs):                     *)
(*   sch    table name -> [cols : sequence of live column names,             *)
(*                         idxs : sequence of index records]                 *)
(*          index record = [mode "k"|"i"|"u", cols, bk (BestKey columns,     *)
(*                          <<>> for keys), fk [tbl, cols, mode, iidx],      *)
(*                          fth (set of [tbl, cols, iidx, mode])]            *)
(*          fk.iidx and fth are the STORED links (schema.Index.Fk.IIndex,    *)
(*          schema.Index.FkToHere); DerIIdx / DerFth are what they must be.  *)
(*   views  view name -> definition                                          *)
(*   data   table name -> set of rows; a row is a sequence of integers       *)
(*          aligned with cols (0 = empty value)                              *)
(*                                                                           *)
(* Deleted columns ("-" placeholders in the code) are not part of cols; the  *)
(* rows lose the position.  Index positions are 1-based here (code: 0-based).*)
(*                                                                           *)
(* Results(S, r) is the set of outcomes [ok, st] the specification allows    *)
(* for request r in state S: an invalid request must fail and leave the      *)
(* state unchanged, a valid one must succeed with the specified state; for   *)
(* requests whose validity the documentation leaves open (or that depend on  *)
(* the stored rows: duplicate values / foreign key blocks when an index is   *)
(* built) both are allowed.  Next and the trace specification TraceSchema    *)
(* both use Results - one source of truth.                                   *)
(*                                                                           *)
(* The link maintenance (AddLinks = createFkeys, DropLinks = dropFkeys,      *)
(* RenameLinks = renameFkey, UpdateIIdx = updateFkeysIIndex) is transcribed  *)
(* from meta.go so that TLC checks the bookkeeping algorithm itself against  *)
(* LinksConsistent.  Deviation constants model behaviour of the code that    *)
(* violates the property (default FALSE = repaired code):                    *)
(*   DevF9      dropFkeys skips self references also for alter drop (F9)     *)
(*   DevIIdxAll updateOtherFkToHere overwrites the IIndex of every FkToHere  *)
(*              entry of the altered table in the target index, not only of  *)
(*              the entry that belongs to the index (F16)                    *)
(*   DevCreateStale  create refuses a table in which a self reference is     *)
(*              followed by a foreign key to another table (createFkeys      *)
(*              loses the IIndex, validation fails; F17)                     *)
EXTENDS Naturals, Sequences, FiniteSets, TLC

CONSTANTS
    SysTables,      \* names DoAdmin refuses (tables, columns, indexes, views)
    BkExact,        \* TRUE: BestKey chosen by the code's rule (SetBestKeys);
                    \* FALSE: any key of the table (the rule is not part of C21)
    DevF9,
    DevIIdxAll,
    DevCreateStale

VARIABLES sch, views, data
vars == <<sch, views, data>>

-----------------------------------------------------------------------------
(* generic helpers *)

Rng(s) == {s[i] : i \in 1..Len(s)}
IsInj(s) == \A i, j \in 1..Len(s) : i # j => s[i] # s[j]
Pos(s, x) == IF \E i \in 1..Len(s) : s[i] = x
             THEN CHOOSE i \in 1..Len(s) : s[i] = x ELSE 0

EmptyFn == [x \in {} |-> 0]
FnPut(f, k, v) == [x \in DOMAIN f \cup {k} |-> IF x = k THEN v ELSE f[x]]
FnDel(f, k) == [x \in DOMAIN f \ {k} |-> f[x]]

RECURSIVE KeepPos(_, _, _)
\* subsequence of s at the positions in K (order kept), starting at i
KeepPos(s, K, i) == IF i > Len(s) THEN <<>>
                    ELSE (IF i \in K THEN <<s[i]>> ELSE <<>>) \o KeepPos(s, K, i + 1)

\* sequential renaming (replaceUnique / replace in meta.go): pairs applied in order
Ren1(s, f, t) == [i \in 1..Len(s) |-> IF s[i] = f THEN t ELSE s[i]]
RECURSIVE RenAll(_, _, _)
RenAll(s, from, to) == IF from = <<>> THEN s
                       ELSE RenAll(Ren1(s, Head(from), Head(to)), Tail(from), Tail(to))
RECURSIVE RenValid(_, _, _)
RenValid(cols, from, to) ==
    IF from = <<>> THEN TRUE
    ELSE /\ Head(from) \in Rng(cols)          \* can't rename nonexistent column
         /\ Head(to) \notin Rng(cols)         \* can't rename to existing column
         /\ RenValid(Ren1(cols, Head(from), Head(to)), Tail(from), Tail(to))

RECURSIVE RenTouches(_, _, _)
\* some pair of the sequential renaming changes s
RenTouches(s, from, to) ==
    /\ from # <<>>
    /\ \/ Head(from) \in Rng(s)
       \/ RenTouches(Ren1(s, Head(from), Head(to)), Tail(from), Tail(to))

-----------------------------------------------------------------------------
(* schema helpers *)

NoFk == [tbl |-> "", cols |-> <<>>, mode |-> 0, iidx |-> 0]

\* position of the index with exactly these columns, 0 if none (Schema.FindIndex)
Find(idxs, cols) == IF \E i \in 1..Len(idxs) : idxs[i].cols = cols
                    THEN CHOOSE i \in 1..Len(idxs) : idxs[i].cols = cols ELSE 0

HasKeyIn(idxs) == \E i \in 1..Len(idxs) : idxs[i].mode = "k"

\* an index record from a request's index spec [mode, cols, fk [tbl, cols, mode]]
MkIndex(x, bk) == [mode |-> x.mode, cols |-> x.cols, bk |-> bk,
                   fk |-> [tbl |-> x.fk.tbl, cols |-> x.fk.cols, mode |-> x.fk.mode, iidx |-> 0],
                   fth |-> {}]

\* SetBestKeys: the key needing the fewest additional columns, then the shortest,
\* then the first.  all = every index (record or spec) the table will have.
BestOf(all, x) ==
    LET K == {j \in 1..Len(all) : all[j].mode = "k"}
        D(j) == Cardinality(Rng(all[j].cols) \ Rng(x.cols))
        Better(j, k) == \/ D(j) < D(k)
                        \/ D(j) = D(k) /\ Len(all[j].cols) < Len(all[k].cols)
                        \/ D(j) = D(k) /\ Len(all[j].cols) = Len(all[k].cols) /\ j <= k
    IN all[CHOOSE j \in K : \A k \in K : Better(j, k)].cols

BkChoices(all, x) == IF x.mode = "k" THEN {<<>>}
                     ELSE IF BkExact THEN {BestOf(all, x)}
                     ELSE {all[j].cols : j \in {j \in 1..Len(all) : all[j].mode = "k"}}

RECURSIVE BkAssign(_, _)
\* all ways to turn the specs into index records (choice of BestKey)
BkAssign(specs, all) ==
    IF specs = <<>> THEN {<<>>}
    ELSE {<<MkIndex(Head(specs), b)>> \o rest :
             b \in BkChoices(all, Head(specs)), rest \in BkAssign(Tail(specs), all)}

\* Schema.Check / CheckIndexes for a complete index list over columns cols
IdxShapeOK(cols, idxs) ==
    /\ HasKeyIn(idxs)                                               \* key required
    /\ \A i \in 1..Len(idxs) :
          /\ idxs[i].mode # "k" => idxs[i].cols # <<>>              \* index columns must not be empty
          /\ Rng(idxs[i].cols) \subseteq Rng(cols)                  \* invalid index column
    /\ \A i, j \in 1..Len(idxs) : i # j => idxs[i].cols # idxs[j].cols   \* duplicate index

\* the foreign key of index (spec or record) x has a key to point to in s
FkTargetOK(s, x) ==
    \/ x.fk.tbl = ""
    \/ /\ x.fk.tbl \in DOMAIN s
       /\ LET j == Find(s[x.fk.tbl].idxs, x.fk.cols) IN
             j # 0 /\ s[x.fk.tbl].idxs[j].mode = "k"

-----------------------------------------------------------------------------
(* what the stored links must be (linkFkeys computes the same on open) *)

DerIIdx(s, t, i) ==
    LET fk == s[t].idxs[i].fk IN
    IF fk.tbl = "" \/ fk.tbl \notin DOMAIN s THEN 0 ELSE Find(s[fk.tbl].idxs, fk.cols)

DerFth(s, t, i) ==
    {[tbl |-> u, cols |-> s[u].idxs[j].cols, iidx |-> j, mode |-> s[u].idxs[j].fk.mode] :
        <<u, j>> \in {<<u, j>> \in UNION {{u} \X (1..Len(s[u].idxs)) : u \in DOMAIN s} :
                         /\ s[u].idxs[j].fk.tbl = t
                         /\ s[u].idxs[j].fk.cols = s[t].idxs[i].cols}}

Normalize(s) ==
    [t \in DOMAIN s |->
        [cols |-> s[t].cols,
         idxs |-> [i \in 1..Len(s[t].idxs) |->
                     [mode |-> s[t].idxs[i].mode, cols |-> s[t].idxs[i].cols,
                      bk |-> s[t].idxs[i].bk,
                      fk |-> [tbl |-> s[t].idxs[i].fk.tbl, cols |-> s[t].idxs[i].fk.cols,
                              mode |-> s[t].idxs[i].fk.mode, iidx |-> DerIIdx(s, t, i)],
                      fth |-> DerFth(s, t, i)]]]]

-----------------------------------------------------------------------------
(* link maintenance, transcribed from meta.go *)

\* createFkeys for index i of table t (its fk target exists and is a key):
\* set Fk.IIndex and add the FkToHere entry in the target
AddLink(s, t, i) ==
    LET ix == s[t].idxs[i]
        tt == ix.fk.tbl
        j == Find(s[tt].idxs, ix.fk.cols)
        s1 == [s EXCEPT ![t].idxs[i].fk.iidx = j]
    IN [s1 EXCEPT ![tt].idxs[j].fth =
            @ \cup {[tbl |-> t, cols |-> ix.cols, iidx |-> i, mode |-> ix.fk.mode]}]

RECURSIVE AddLinks(_, _, _)
\* for the index positions in sequence is
AddLinks(s, t, is) ==
    IF is = <<>> THEN s
    ELSE IF s[t].idxs[Head(is)].fk.tbl = "" THEN AddLinks(s, t, Tail(is))
    ELSE AddLinks(AddLink(s, t, Head(is)), t, Tail(is))

\* setFkeyIIndex: recompute Fk.IIndex of every index of t
SetIIdx(s, t) ==
    [s EXCEPT ![t].idxs = [i \in 1..Len(@) |-> [@[i] EXCEPT !.fk.iidx = DerIIdx(s, t, i)]]]

\* dropFkeys: the indexes in dropped (records of table t as they were) go away:
\* remove their FkToHere entry in the target.  whole = the table itself goes
\* (Drop, RenameTable): self references need no work.
DropLink(s, t, d, whole) ==
    IF d.fk.tbl = "" \/ d.fk.tbl \notin DOMAIN s THEN s
    ELSE IF d.fk.tbl = t /\ (whole \/ DevF9) THEN s
    ELSE [s EXCEPT ![d.fk.tbl].idxs =
            [j \in 1..Len(@) |->
                IF @[j].cols = d.fk.cols
                THEN [@[j] EXCEPT !.fth = {e \in @ : ~(e.tbl = t /\ e.cols = d.cols)}]
                ELSE @[j]]]

RECURSIVE DropLinks(_, _, _, _)
DropLinks(s, t, dropped, whole) ==
    IF dropped = <<>> THEN s
    ELSE DropLinks(DropLink(s, t, Head(dropped), whole), t, Tail(dropped), whole)

\* updateFkeysIIndex after alter drop: index positions of t may have shifted.
\* updateOtherFkToHere: in the target of index i, the entry for (t, cols of i) gets iidx i
UpdToHere(s, t, i) ==
    LET ix == s[t].idxs[i] IN
    IF ix.fk.tbl = "" \/ ix.fk.tbl \notin DOMAIN s THEN s
    ELSE [s EXCEPT ![ix.fk.tbl].idxs =
            [j \in 1..Len(@) |->
                IF @[j].cols = ix.fk.cols
                THEN [@[j] EXCEPT !.fth =
                        {IF e.tbl = t /\ (DevIIdxAll \/ e.cols = ix.cols)
                         THEN [e EXCEPT !.iidx = i] ELSE e : e \in @}]
                ELSE @[j]]]
\* updateOtherFk: every index that references index i of t gets Fk.IIndex i
UpdFk(s, t, i) ==
    LET ix == s[t].idxs[i] IN
    [u \in DOMAIN s |->
        [s[u] EXCEPT !.idxs =
            [j \in 1..Len(@) |->
                IF @[j].fk.tbl = t /\ @[j].fk.cols = ix.cols
                THEN [@[j] EXCEPT !.fk.iidx = i] ELSE @[j]]]]

RECURSIVE UpdateIIdx(_, _, _)
UpdateIIdx(s, t, i) ==
    IF i > Len(s[t].idxs) THEN s
    ELSE UpdateIIdx(UpdFk(UpdToHere(s, t, i), t, i), t, i + 1)

\* renameFkey for index i of t whose columns changed from old to its current ones
RenameLink(s, t, i, old) ==
    LET ix == s[t].idxs[i]
        s1 == IF ix.fk.tbl = "" \/ ix.fk.tbl \notin DOMAIN s THEN s
              ELSE [s EXCEPT ![ix.fk.tbl].idxs[ix.fk.iidx].fth =
                       {IF e.tbl = t /\ e.iidx = i THEN [e EXCEPT !.cols = ix.cols] ELSE e : e \in @}]
    IN \* tables that reference this index: their Fk.Columns follow
       [u \in DOMAIN s1 |->
          [s1[u] EXCEPT !.idxs =
              [j \in 1..Len(@) |->
                  IF [tbl |-> u, cols |-> @[j].cols, iidx |-> j, mode |-> @[j].fk.mode] \in ix.fth
                     /\ @[j].fk.tbl = t
                  THEN [@[j] EXCEPT !.fk.cols = ix.cols] ELSE @[j]]]]

RECURSIVE RenameLinks(_, _, _, _)
\* olds = index columns before the rename
RenameLinks(s, t, i, olds) ==
    IF i > Len(s[t].idxs) THEN s
    ELSE IF s[t].idxs[i].cols = olds[i] THEN RenameLinks(s, t, i + 1, olds)
    ELSE RenameLinks(RenameLink(s, t, i, olds[i]), t, i + 1, olds)

-----------------------------------------------------------------------------
(* outcomes *)

St == [sch |-> sch, views |-> views, data |-> data]

Err(S) == [ok |-> FALSE, st |-> S]
\* invalid: must fail; maybe: may fail or succeed; succs: allowed successor states
Pack(S, invalid, maybe, succs) ==
    IF invalid THEN {Err(S)}
    ELSE (IF maybe THEN {Err(S)} ELSE {}) \cup {[ok |-> TRUE, st |-> x] : x \in succs}

\* building an index over stored rows can fail on the rows (duplicate value for a
\* key / unique index, foreign key value without target row): C07/C08 territory,
\* here either outcome is accepted
DataMay(S, t, news) ==
    /\ S.data[t] # {}
    /\ \E i \in 1..Len(news) : news[i].mode \in {"k", "u"} \/ news[i].fk.tbl # ""

\* ---- create (also ensure of a nonexistent table): db.Create / db.create / PutNew
CreateInvalid(S, r) ==
    \/ r.t \in SysTables
    \/ r.t \in DOMAIN S.sch                        \* can't create existing table
    \/ ~IsInj(r.cols)                              \* duplicate column (parser)
    \/ ~IdxShapeOK(r.cols, r.idxs)
    \/ LET s2 == FnPut(S.sch, r.t, [cols |-> r.cols, idxs |-> r.idxs]) IN
          \E i \in 1..Len(r.idxs) : ~FkTargetOK(s2, r.idxs[i])
    \/ /\ DevCreateStale
       /\ \E i, j \in 1..Len(r.idxs) :
             i < j /\ r.idxs[i].fk.tbl = r.t /\ r.idxs[j].fk.tbl \notin {"", r.t}

CreateSuccs(S, r) ==
    {[S EXCEPT !.sch = AddLinks(FnPut(S.sch, r.t, [cols |-> r.cols, idxs |-> ixs]),
                                r.t, [i \in 1..Len(ixs) |-> i]),
               !.data = FnPut(S.data, r.t, {})] :
        ixs \in BkAssign(r.idxs, r.idxs)}

\* ---- alter create / ensure of an existing table: add columns ncols and indexes news
AddInvalid(S, t, ncols, news) ==
    LET tb == S.sch[t]
        cols2 == tb.cols \o ncols
        all == tb.idxs \o news
    IN \/ ~IsInj(cols2)                            \* can't create existing column(s)
       \/ ~IdxShapeOK(cols2, all)                  \* invalid index column, duplicate index
       \/ LET s2 == FnPut(S.sch, t, [cols |-> cols2, idxs |-> all]) IN
             \E i \in 1..Len(news) : ~FkTargetOK(s2, news[i])

AddSuccs(S, t, ncols, news) ==
    LET tb == S.sch[t]
        n == Len(tb.idxs)
        pad == [k \in 1..Len(ncols) |-> 0]
    IN {[S EXCEPT !.sch = AddLinks(SetIIdx(FnPut(S.sch, t, [cols |-> tb.cols \o ncols,
                                                             idxs |-> tb.idxs \o ixs]), t),
                                   t, [i \in 1..Len(ixs) |-> n + i]),
                  !.data[t] = {row \o pad : row \in @}] :
          ixs \in BkAssign(news, tb.idxs \o news)}

AlterCreateRes(S, r) ==
    Pack(S, \/ r.t \in SysTables
            \/ r.t \notin DOMAIN S.sch             \* can't alter nonexistent table
            \/ ~IsInj(r.cols)
            \/ AddInvalid(S, r.t, r.cols, r.idxs),
         DataMay(S, r.t, r.idxs),
         AddSuccs(S, r.t, r.cols, r.idxs))

\* request index x equals existing index e (schema.Index.Equal)
SameIdx(e, x) == /\ e.cols = x.cols /\ e.mode = x.mode
                 /\ e.fk.tbl = x.fk.tbl /\ e.fk.mode = x.fk.mode /\ e.fk.cols = x.fk.cols

EnsureRes(S, r) ==
    IF r.t \in SysTables THEN {Err(S)}
    ELSE IF r.t \notin DOMAIN S.sch
    THEN Pack(S, CreateInvalid(S, r), FALSE, CreateSuccs(S, r))
    ELSE LET tb == S.sch[r.t]
             news == SelectSeq(r.idxs, LAMBDA x : Find(tb.idxs, x.cols) = 0)
             ncols == SelectSeq(r.cols, LAMBDA c : c \notin Rng(tb.cols))
             \* "ensure: index exists but is different" is raised only on the fast
             \* path; otherwise the existing index is kept silently: both accepted
             differ == \E i \in 1..Len(r.idxs) :
                          LET j == Find(tb.idxs, r.idxs[i].cols) IN
                          j # 0 /\ ~SameIdx(tb.idxs[j], r.idxs[i])
         IN Pack(S, ~IsInj(r.cols) \/ AddInvalid(S, r.t, ncols, news),
                 differ \/ DataMay(S, r.t, news),
                 AddSuccs(S, r.t, ncols, news))

\* ---- alter drop: r.cols columns, r.idxs indexes (matched by columns only)
AlterDropRes(S, r) ==
    IF r.t \in SysTables \/ r.t \notin DOMAIN S.sch THEN {Err(S)}
    ELSE
    LET tb == S.sch[r.t]
        dcols == {r.idxs[i].cols : i \in 1..Len(r.idxs)}
        keep == {i \in 1..Len(tb.idxs) : tb.idxs[i].cols \notin dcols}
        gone == KeepPos(tb.idxs, (1..Len(tb.idxs)) \ keep, 1)
        rest == KeepPos(tb.idxs, keep, 1)
        \* a key that is the BestKey of an index that stays cannot go
        bkStays == \E i \in keep : tb.idxs[i].bk \in dcols /\ tb.idxs[i].mode # "k"
        \* ... the code also refuses when that index goes in the same request: open
        bkGoes == \E i \in (1..Len(tb.idxs)) \ keep :
                     tb.idxs[i].mode # "k" /\ tb.idxs[i].bk \in dcols /\ tb.idxs[i].bk # tb.idxs[i].cols
        invalid ==
            \/ ~IsInj(r.cols)
            \/ \E c \in dcols : Find(tb.idxs, c) = 0                 \* can't drop nonexistent index
            \/ \E i \in (1..Len(tb.idxs)) \ keep : tb.idxs[i].fth # {}   \* index used by foreign keys
            \/ bkStays
            \/ ~HasKeyIn(rest)                                       \* can't drop all keys
            \/ \E c \in Rng(r.cols) :
                  \/ c \notin Rng(tb.cols)                           \* can't drop nonexistent column
                  \/ \E i \in keep : c \in Rng(tb.idxs[i].cols)      \* column used by index
        kc == {k \in 1..Len(tb.cols) : tb.cols[k] \notin Rng(r.cols)}
        s1 == FnPut(S.sch, r.t, [cols |-> KeepPos(tb.cols, kc, 1), idxs |-> rest])
        s2 == DropLinks(s1, r.t, gone, FALSE)
        s3 == UpdateIIdx(s2, r.t, 1)
    IN Pack(S, invalid, bkGoes,
            {[S EXCEPT !.sch = s3, !.data[r.t] = {KeepPos(row, kc, 1) : row \in @}]})

\* ---- alter rename columns
AlterRenameRes(S, r) ==
    IF r.t \in SysTables \/ r.t \notin DOMAIN S.sch THEN {Err(S)}
    ELSE
    LET tb == S.sch[r.t]
        olds == [i \in 1..Len(tb.idxs) |-> tb.idxs[i].cols]
        news == [i \in 1..Len(tb.idxs) |-> RenAll(olds[i], r.from, r.to)]
        \* the code compares the new columns of an index a rename pair touched with
        \* the not yet renamed columns of itself and of the later indexes ("rename
        \* causes duplicate index", e.g. swapping a and b with index(a,b) index(b,a),
        \* or renaming a to z and back in one request): not a real duplicate, outcome
        \* left open
        spurious == \E i, j \in 1..Len(olds) :
                       i <= j /\ RenTouches(olds[i], r.from, r.to) /\ news[i] = olds[j]
        ixs == [i \in 1..Len(tb.idxs) |->
                  [tb.idxs[i] EXCEPT !.cols = news[i],
                                     !.bk = RenAll(@, r.from, r.to),
                                     !.fk.cols = IF tb.idxs[i].fk.tbl = r.t
                                                 THEN RenAll(@, r.from, r.to) ELSE @]]
        s1 == FnPut(S.sch, r.t, [cols |-> RenAll(tb.cols, r.from, r.to), idxs |-> ixs])
    IN Pack(S, Len(r.from) # Len(r.to) \/ ~RenValid(tb.cols, r.from, r.to), spurious,
            {[S EXCEPT !.sch = RenameLinks(s1, r.t, 1, olds)]})

\* ---- rename table
RenameTableRes(S, r) ==
    IF \/ r.t \in SysTables \/ r.t2 \in SysTables
       \/ r.t \notin DOMAIN S.sch               \* can't rename nonexistent table
       \/ r.t2 \in DOMAIN S.sch                 \* can't rename to existing table
    THEN {Err(S)}
    ELSE
    LET tb == S.sch[r.t]
        selfref == \E i \in 1..Len(tb.idxs) : tb.idxs[i].fk.tbl = r.t
        referenced == \E i \in 1..Len(tb.idxs) : \E e \in tb.idxs[i].fth : e.tbl # r.t
        \* the code: tombstone + new entry, dropFkeys (whole table), createFkeys
        tb2 == [tb EXCEPT !.idxs = [i \in 1..Len(@) |-> [@[i] EXCEPT !.fth = {}]]]
        s1 == DropLinks(FnDel(S.sch, r.t), r.t, tb.idxs, TRUE)
        s2 == AddLinks(FnPut(s1, r.t2, tb2), r.t2, [i \in 1..Len(tb.idxs) |-> i])
        \* the code refuses tables with self references and tables referenced by
        \* other tables (the rename would have to retarget them); the documentation
        \* does not say: refusal, or success with every reference retargeted
        s3 == [u \in (DOMAIN S.sch \ {r.t}) \cup {r.t2} |->
                 LET o == IF u = r.t2 THEN tb ELSE S.sch[u] IN
                 [o EXCEPT !.idxs = [i \in 1..Len(@) |->
                     [@[i] EXCEPT !.fk.tbl = IF @ = r.t THEN r.t2 ELSE @]]]]
        d2 == FnPut(FnDel(S.data, r.t), r.t2, S.data[r.t])
    IN IF selfref \/ referenced
       THEN {Err(S), [ok |-> TRUE, st |-> [S EXCEPT !.sch = Normalize(s3), !.data = d2]]}
       ELSE {[ok |-> TRUE, st |-> [S EXCEPT !.sch = s2, !.data = d2]]}

\* ---- view
ViewRes(S, r) ==
    IF r.t \in SysTables \/ r.t \in DOMAIN S.views   \* view already exists
    THEN {Err(S)}
    ELSE {[ok |-> TRUE, st |-> [S EXCEPT !.views = FnPut(S.views, r.t, r.def)]]}

\* ---- drop (a view of that name goes first, as Meta.Drop does)
DropRes(S, r) ==
    IF r.t \in SysTables THEN {Err(S)}
    ELSE IF r.t \in DOMAIN S.views
    THEN {[ok |-> TRUE, st |-> [S EXCEPT !.views = FnDel(S.views, r.t)]]}
    ELSE IF r.t \notin DOMAIN S.sch THEN {Err(S)}      \* can't drop nonexistent table
    ELSE LET tb == S.sch[r.t] IN
         IF \E i \in 1..Len(tb.idxs) : \E e \in tb.idxs[i].fth : e.tbl # r.t
         THEN {Err(S)}                                  \* table used by foreign keys
         ELSE {[ok |-> TRUE, st |-> [S EXCEPT !.sch = DropLinks(FnDel(S.sch, r.t), r.t, tb.idxs, TRUE),
                                              !.data = FnDel(S.data, r.t)]]}

\* ---- the environment stores a row (not an admin request; constraints on rows
\* are C07/C08): either refused or the row is there
InsRes(S, r) ==
    IF r.t \notin DOMAIN S.sch \/ Len(r.row) # Len(S.sch[r.t].cols) THEN {Err(S)}
    ELSE {Err(S), [ok |-> TRUE, st |-> [S EXCEPT !.data[r.t] = @ \cup {r.row}]]}

\* request = [op, t, t2, cols, idxs, from, to, def, row]
Results(S, r) ==
    CASE r.op = "Create" -> Pack(S, CreateInvalid(S, r), FALSE, CreateSuccs(S, r))
      [] r.op = "Ensure" -> EnsureRes(S, r)
      [] r.op = "AlterCreate" -> AlterCreateRes(S, r)
      [] r.op = "AlterDrop" -> AlterDropRes(S, r)
      [] r.op = "AlterRename" -> AlterRenameRes(S, r)
      [] r.op = "RenameTable" -> RenameTableRes(S, r)
      [] r.op = "View" -> ViewRes(S, r)
      [] r.op = "Drop" -> DropRes(S, r)
      [] r.op = "Ins" -> InsRes(S, r)

Do(r) == \E res \in Results(St, r) :
            /\ sch' = res.st.sch /\ views' = res.st.views /\ data' = res.st.data

Init == sch = EmptyFn /\ views = EmptyFn /\ data = EmptyFn

-----------------------------------------------------------------------------
(* Properties (C21), stated on a schema function s so that the trace         *)
(* specification can evaluate them on the state the real code reported       *)

\* every table has at least one key
HasKey(s) == \A t \in DOMAIN s : HasKeyIn(s[t].idxs)

\* every index refers to existing columns; no duplicate columns / indexes
IdxColsExist(s) ==
    \A t \in DOMAIN s :
        /\ IsInj(s[t].cols)
        /\ \A i \in 1..Len(s[t].idxs) : Rng(s[t].idxs[i].cols) \subseteq Rng(s[t].cols)
        /\ \A i, j \in 1..Len(s[t].idxs) : i # j => s[t].idxs[i].cols # s[t].idxs[j].cols

\* every foreign key points to an existing key of an existing table
FkValid(s) ==
    \A t \in DOMAIN s : \A i \in 1..Len(s[t].idxs) : FkTargetOK(s, s[t].idxs[i])

\* Fk <-> FkToHere mutually consistent incl. IIndex and self references:
\* the stored links are exactly the derived ones
LinksConsistent(s) ==
    \A t \in DOMAIN s : \A i \in 1..Len(s[t].idxs) :
        /\ s[t].idxs[i].fk.iidx = DerIIdx(s, t, i)
        /\ s[t].idxs[i].fth = DerFth(s, t, i)

\* the BestKey of an index / unique index is a key of the table (keys have none)
BestKeyValid(s) ==
    \A t \in DOMAIN s : \A i \in 1..Len(s[t].idxs) :
        IF s[t].idxs[i].mode = "k" THEN s[t].idxs[i].bk = <<>>
        ELSE \E j \in 1..Len(s[t].idxs) : s[t].idxs[j].mode = "k" /\ s[t].idxs[j].cols = s[t].idxs[i].bk

\* rows have exactly the table's columns
DataShape(s, d) ==
    /\ DOMAIN d = DOMAIN s
    /\ \A t \in DOMAIN s : \A row \in d[t] : Len(row) = Len(s[t].cols)

Consistent(s) == HasKey(s) /\ IdxColsExist(s) /\ FkValid(s) /\ LinksConsistent(s) /\ BestKeyValid(s)

InvHasKey == HasKey(sch)
InvIdxCols == IdxColsExist(sch)
InvFkValid == FkValid(sch)
InvLinks == LinksConsistent(sch)
InvBestKey == BestKeyValid(sch)
InvData == DataShape(sch, data)
InvViews == DOMAIN views \cap SysTables = {} /\ DOMAIN sch \cap SysTables = {}
=============================================================================
