------------------------------ MODULE Session ------------------------------
(* Authorisation state machine of the gSuneido database server               *)
(* (dbms/dbmsserver.go: serverConn.dbms/nonce/nonceOld, cmdAuth, cmdNonce,   *)
(*  cmdToken, expireTokens, expireNonces; dbms/dbmsunauth.go: DbmsUnauth;    *)
(*  dbms/auth.go: Token, AuthToken, AuthUser) for a database that has users. *)
(*                                                                          *)
(* One action per request of the command table.  A request is               *)
(*   Request(c, cmd, a, r):  connection c sends command cmd with argument    *)
(*   record a = [cred, target] and observes response r = [cls, res, db].     *)
(* The same action is used by the exhaustive model (arguments and responses  *)
(* existentially quantified) and by the trace specification (arguments and   *)
(* responses taken from the recorded event of the REAL server).              *)
(*                                                                          *)
(* Property C41: while a connection is not authorised it can only Auth,      *)
(* Nonce, SessionId, LibGet, Libraries, EndSession; every other request is   *)
(* refused and changes nothing; it becomes authorised only by a password     *)
(* hash over the fresh nonce of that connection or by a one-time token that  *)
(* was issued to an authorised party.                                        *)
EXTENDS Naturals, FiniteSets, TLC

CONSTANTS
    Conns,          \* connections
    MaxReq,         \* bound on the number of requests (model checking only)
    MaxId,          \* nonce and token identities are 1..MaxId (model checking only)
    MaxDb,          \* data versions 0..MaxDb (model checking only)
    Bypass,         \* deviation: commands that do NOT go through the unauthorised
                    \* wrapper.  {} = intended design;  the code at 90de1df has
                    \* {"Token","Kill","Connections","Cursors"} (finding F2)
    AnyHash         \* deviation: a hash over the connection's fresh nonce is accepted
                    \* without a valid password.  FALSE = intended design; the code at
                    \* 90de1df behaves like TRUE for user names that do not exist (the
                    \* missing user's password hash is taken to be "", so the expected
                    \* value is sha1(nonce), which every client can compute)

\* the whole command table (dbms/commands/commands.go) + a code beyond the table
Cmds == {"Abort","Admin","Auth","Check","Close","Commit","Connections","Cursor",
         "Cursors","Erase","Exec","Strategy","Final","Get","GetOne","Header","Info",
         "Keys","Kill","LibGet","Libraries","Log","Nonce","Order","Output","Query",
         "ReadCount","Action","Rewind","Run","SessionId","Size","Timestamp","Token",
         "Transaction","Transactions","Update","WriteCount","EndSession","Asof",
         "Invalid"}

\* what the property statement lets an unauthorised connection do
AllowedUnauth == {"Auth","Nonce","SessionId","LibGet","Libraries","EndSession"}

None == 0   \* "no nonce" / "no token"

VARIABLES
    authorized,     \* authorized[c]: the connection's dbms is no longer the DbmsUnauth wrapper
    alive,          \* alive[c]: connection registered with the server (not closed / killed)
    nonce,          \* nonce[c]: the connection's current nonce, None if none
    nonceOld,       \* nonceOld[c]: first phase of expiry passed
    usedNonces,     \* all nonce values ever issued (a nonce is never issued twice)
    live,           \* live tokens
    oldTok,         \* live tokens that passed the first phase of expiry
    usedTokens,     \* all token values ever issued
    issuedAuth,     \* tokens that were issued to an authorised connection (history)
    how,            \* how[c]: credential that authorised c (history): <<"none">>, <<"pw", n>>, <<"tok", t>>
    db,             \* abstract data version
    nreq,           \* number of requests so far
    last            \* the last request and its response (for the step properties)

vars == <<authorized, alive, nonce, nonceOld, usedNonces, live, oldTok, usedTokens,
          issuedAuth, how, db, nreq, last>>

\* last.req: the step was a request; last.allowed: its command is in AllowedUnauth;
\* last.was: the connection was authorised when it sent it
NoReq == [req |-> FALSE, c |-> None, allowed |-> FALSE, was |-> FALSE, cls |-> "none"]

Init ==
    /\ authorized = [c \in Conns |-> FALSE]     \* the database has users
    /\ alive = [c \in Conns |-> TRUE]
    /\ nonce = [c \in Conns |-> None]
    /\ nonceOld = [c \in Conns |-> FALSE]
    /\ usedNonces = {}
    /\ live = {} /\ oldTok = {} /\ usedTokens = {} /\ issuedAuth = {}
    /\ how = [c \in Conns |-> <<"none">>]
    /\ db = 0
    /\ nreq = 0
    /\ last = NoReq

\* does the request go to the real dbms (not refused by the wrapper)?
Passes(c, cmd) == authorized[c] \/ cmd \in Bypass

\* credential a = [k, n, good, t]:
\*   k = "hash": password hash computed over nonce value n; good = computed with the
\*               stored password hash of an existing user
\*   k = "tok" : token value t
\*   k = "junk": anything else
HashOK(c, cred) == cred.k = "hash" /\ (cred.good \/ AnyHash) /\ nonce[c] # None /\ cred.n = nonce[c]
TokOK(cred)     == cred.k = "tok" /\ cred.t \in live

\* effect of a processed Auth request on an unauthorised connection (serverSession.auth):
\* the nonce is consumed whatever the outcome; a token is consumed when it is used
AuthEffect(c, cred, ok) ==
    /\ ok = (HashOK(c, cred) \/ TokOK(cred))
    /\ nonce' = [nonce EXCEPT ![c] = None]
    /\ nonceOld' = [nonceOld EXCEPT ![c] = FALSE]
    /\ IF HashOK(c, cred)
       THEN /\ UNCHANGED <<live, oldTok>>
            /\ how' = [how EXCEPT ![c] = <<"pw", cred.n>>]
       ELSE IF TokOK(cred)
       THEN /\ live' = live \ {cred.t}
            /\ oldTok' = oldTok \ {cred.t}
            /\ how' = [how EXCEPT ![c] = <<"tok", cred.t>>]
       ELSE UNCHANGED <<live, oldTok, how>>
    /\ authorized' = [authorized EXCEPT ![c] = ok]
    /\ UNCHANGED <<alive, usedNonces, usedTokens, issuedAuth, db>>

NonceEffect(c, n) ==
    /\ n \notin usedNonces /\ n # None          \* fresh
    /\ nonce' = [nonce EXCEPT ![c] = n]
    /\ nonceOld' = [nonceOld EXCEPT ![c] = FALSE]
    /\ usedNonces' = usedNonces \cup {n}
    /\ UNCHANGED <<authorized, alive, live, oldTok, usedTokens, issuedAuth, how, db>>

TokenEffect(c, t) ==
    /\ t \notin usedTokens /\ t # None          \* fresh
    /\ live' = live \cup {t}
    /\ usedTokens' = usedTokens \cup {t}
    /\ issuedAuth' = IF authorized[c] THEN issuedAuth \cup {t} ELSE issuedAuth
    /\ UNCHANGED <<authorized, alive, nonce, nonceOld, usedNonces, oldTok, how, db>>

\* Kill closes every connection that has a session with the given id;
\* the argument is the set of connections that match
KillEffect(targets) ==
    /\ alive' = [d \in Conns |-> alive[d] /\ d \notin targets]
    /\ UNCHANGED <<authorized, nonce, nonceOld, usedNonces, live, oldTok, usedTokens, issuedAuth, how, db>>

CloseSelf(c) ==
    /\ alive' = [alive EXCEPT ![c] = FALSE]
    /\ UNCHANGED <<authorized, nonce, nonceOld, usedNonces, live, oldTok, usedTokens, issuedAuth, how, db>>

NoEffect == UNCHANGED <<authorized, alive, nonce, nonceOld, usedNonces, live, oldTok,
                        usedTokens, issuedAuth, how, db>>

\* r.cls: "ok" success response, "err" error response, "closed" the connection was
\* closed instead of a response, "none" no response by design (EndSession)
Request(c, cmd, a, r) ==
    /\ cmd \in Cmds
    /\ nreq' = nreq + 1
    /\ last' = [req |-> TRUE, c |-> c, allowed |-> (cmd \in AllowedUnauth), was |-> authorized[c], cls |-> r.cls]
    /\ IF ~alive[c] THEN r.cls = "closed" /\ NoEffect
       ELSE IF cmd = "Invalid" THEN   \* a code beyond the table: connection closed, or an error
            \/ r.cls = "closed" /\ CloseSelf(c)
            \/ r.cls = "err" /\ NoEffect
       ELSE IF ~Passes(c, cmd) /\ cmd \notin AllowedUnauth
       THEN \* refused by the wrapper (or failing for lack of a transaction/query/cursor)
            \/ r.cls = "err" /\ NoEffect
            \/ r.cls = "closed" /\ CloseSelf(c)   \* e.g. oversized message: only its own connection
       ELSE CASE cmd = "Auth" ->
                   IF authorized[c] THEN r.cls = "err" /\ NoEffect     \* "already authorized"
                   ELSE r.cls = "ok" /\ AuthEffect(c, a.cred, r.res = 1)
              [] cmd = "Nonce" -> r.cls = "ok" /\ NonceEffect(c, r.res)
              [] cmd = "Token" -> r.cls = "ok" /\ TokenEffect(c, r.res)
              [] cmd = "Kill" -> r.cls \in {"ok", "closed"} /\ KillEffect(a.target)
              [] cmd = "EndSession" -> r.cls = "none" /\ NoEffect
              [] cmd \in {"SessionId", "LibGet", "Libraries"} -> r.cls \in {"ok", "err"} /\ NoEffect
              [] OTHER -> \* any other command on an authorised connection (or a bypassing one)
                   /\ r.cls \in {"ok", "err"}
                   /\ IF authorized[c] THEN db' = r.db ELSE db' = db   \* only the authorised may change data
                   /\ UNCHANGED <<authorized, alive, nonce, nonceOld, usedNonces, live, oldTok,
                                  usedTokens, issuedAuth, how>>

\* a new connection replaces a closed one (driver reconnects)
Connect(c) ==
    /\ ~alive[c]
    /\ alive' = [alive EXCEPT ![c] = TRUE]
    /\ authorized' = [authorized EXCEPT ![c] = FALSE]
    /\ nonce' = [nonce EXCEPT ![c] = None]
    /\ nonceOld' = [nonceOld EXCEPT ![c] = FALSE]
    /\ how' = [how EXCEPT ![c] = <<"none">>]
    /\ last' = NoReq
    /\ UNCHANGED <<usedNonces, live, oldTok, usedTokens, issuedAuth, db, nreq>>

\* the client closes its connection
Disconnect(c) ==
    /\ alive[c]
    /\ alive' = [alive EXCEPT ![c] = FALSE]
    /\ last' = NoReq
    /\ UNCHANGED <<authorized, nonce, nonceOld, usedNonces, live, oldTok, usedTokens, issuedAuth, how, db, nreq>>

\* one round of the periodic two-phase expiry (expireTokens + expireNonces)
Expire ==
    /\ live' = live \ oldTok
    /\ oldTok' = live \ oldTok
    /\ nonce' = [c \in Conns |-> IF nonceOld[c] THEN None ELSE nonce[c]]
    /\ nonceOld' = [c \in Conns |-> ~nonceOld[c] /\ nonce[c] # None]
    /\ last' = NoReq
    /\ UNCHANGED <<authorized, alive, usedNonces, usedTokens, issuedAuth, how, db, nreq>>

----------------------------------------------------------------------------
(* Exhaustive model: arguments and responses quantified over small domains.  *)
(* Fresh nonce/token values are canonical (smallest unused identity): only   *)
(* freshness matters.  A client can present as credential: a hash over any   *)
(* nonce issued so far (computed with the right password only if it knows    *)
(* one), any token issued so far, or junk.                                   *)

CONSTANT Knows      \* connections whose client knows a valid user's password

Ids == 1..MaxId
Smallest(S) == CHOOSE x \in S : \A y \in S : x <= y
NoCred == [k |-> "junk", n |-> None, good |-> FALSE, t |-> None]
CredsOf(c) ==
    {[k |-> "hash", n |-> n, good |-> g, t |-> None] :
         n \in usedNonces, g \in (IF c \in Knows THEN BOOLEAN ELSE {FALSE})}
    \cup {[k |-> "tok", n |-> None, good |-> FALSE, t |-> t] : t \in usedTokens}
    \cup {NoCred}

ArgsFor(c, cmd) ==
    IF cmd = "Auth" THEN {[cred |-> cr, target |-> {}] : cr \in CredsOf(c)}
    ELSE IF cmd = "Kill" THEN {[cred |-> NoCred, target |-> T] : T \in SUBSET Conns}
    ELSE {[cred |-> NoCred, target |-> {}]}

DbNext == IF db < MaxDb THEN {db, db + 1} ELSE {db}

RespsFor(c, cmd) ==
    IF cmd = "Auth" THEN {[cls |-> x, res |-> y, db |-> db] : x \in {"ok", "err"}, y \in {0, 1}}
    ELSE IF cmd = "Nonce" THEN
        {[cls |-> x, res |-> Smallest(Ids \ usedNonces), db |-> db] : x \in {"ok", "err", "closed"}}
    ELSE IF cmd = "Token" THEN
        {[cls |-> x, res |-> Smallest(Ids \ usedTokens), db |-> db] : x \in {"ok", "err", "closed"}}
    ELSE {[cls |-> x, res |-> 0, db |-> d] : x \in {"ok", "err", "closed", "none"},
                                             d \in (IF authorized[c] THEN DbNext ELSE {db})}

MCNext ==
    \/ /\ nreq < MaxReq
       /\ Ids \ usedNonces # {} /\ Ids \ usedTokens # {}
       /\ \E c \in Conns, cmd \in Cmds : \E a \in ArgsFor(c, cmd) : \E r \in RespsFor(c, cmd) :
              Request(c, cmd, a, r)
    \/ \E c \in Conns : Connect(c) \/ Disconnect(c)
    \/ Expire

Spec == Init /\ [][MCNext]_vars

----------------------------------------------------------------------------
(* Properties (C41) *)

TypeOK ==
    /\ authorized \in [Conns -> BOOLEAN] /\ alive \in [Conns -> BOOLEAN]
    /\ oldTok \subseteq live /\ live \subseteq usedTokens /\ issuedAuth \subseteq usedTokens
    /\ \A c \in Conns : nonce[c] = None \/ nonce[c] \in usedNonces
    /\ \A c \in Conns : nonceOld[c] => nonce[c] # None

\* A connection is authorised only by a credential: a password hash (which only a
\* client knowing a password can produce) over ITS OWN nonce, or a token that was
\* issued to an authorised party.
AuthorizedOnlyByCredential ==
    \A c \in Conns : authorized[c] =>
        \/ how[c][1] = "pw" /\ c \in Knows
        \/ how[c][1] = "tok" /\ how[c][2] \in issuedAuth

\* live tokens were all issued to authorised parties
TokensOnlyToAuthorized == live \subseteq issuedAuth

\* a nonce / token authorises at most once: shown by construction (consumed), and
\* checked as a step property: the credential that authorises is gone afterwards
SingleUse == [][\A c \in Conns : (~authorized[c] /\ authorized'[c]) =>
                    /\ nonce'[c] = None
                    /\ (how'[c][1] = "tok" => how'[c][2] \notin live')]_vars

\* an unauthorised connection cannot do anything but the allowed requests:
\* every other request is refused and changes nothing except (at most) closing itself
UnauthNoEffect == [][(last'.req /\ nreq' # nreq /\ ~last'.was /\ ~last'.allowed) =>
                        /\ last'.cls \in {"err", "closed"}
                        /\ UNCHANGED <<authorized, nonce, nonceOld, usedNonces, live, oldTok,
                                       usedTokens, issuedAuth, how, db>>
                        /\ \A d \in Conns : d # last'.c => alive'[d] = alive[d]]_vars

\* the allowed requests of an unauthorised connection do not touch data or others
UnauthAllowedHarmless == [][(last'.req /\ nreq' # nreq /\ ~last'.was) =>
                        /\ db' = db
                        /\ \A d \in Conns : d # last'.c =>
                              /\ alive'[d] = alive[d] /\ authorized'[d] = authorized[d]
                              /\ nonce'[d] = nonce[d]]_vars
=============================================================================
