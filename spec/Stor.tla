-------------------------------- MODULE Stor --------------------------------
(* Lock-free chunked storage allocator: db19/stor/stor.go  Stor.Alloc/extend *)
(*                                                                          *)
(* PlusCal, ONE LABEL PER ATOMIC OPERATION of the code, in the code's order.*)
(* The label names are the names of the verif gates in stor.go              *)
(* (verif.Gate("stor.<label>") sits immediately BEFORE the operation), so   *)
(* pc[p] = "addSize" means: goroutine p is parked before s.size.Add(n).     *)
(*                                                                          *)
(*   enter           caller picks n, enters Alloc (for range maxRetries)    *)
(*   loadChunk       allocChunk := s.allocChunk.Load()                      *)
(*   addSize         newsize := s.size.Add(n)                               *)
(*   check           endChunk == allocChunk ?  yes: s.Data(offset) (loads   *)
(*                   s.chunks, indexes it) and return (offset, slice)       *)
(*   extendLock      s.lock.Lock()                                          *)
(*   extendCheck     chunks := s.chunks.Load(); allocChunk+1 < len(chunks)  *)
(*                   => return ("another thread beat us"), deferred Unlock  *)
(*   extendAppend    s.chunks.Store(append(chunks, impl.Get(allocChunk+1))) *)
(*   extendStoreSize s.size.Store((allocChunk+1) << shift)                  *)
(*   extendIncChunk  s.allocChunk.Add(1); deferred Unlock                   *)
(*   retry           next iteration of the retry loop, or                   *)
(*                   panic("Stor.Alloc too many retries")                   *)
(*                                                                          *)
(* The deferred s.lock.Unlock() is merged into the last operation of extend *)
(* (a lock release is a left mover: every behaviour with a later release is *)
(* also a behaviour with the earlier release, the other goroutines only get *)
(* MORE freedom), and there is no gate between them in the code either.     *)
(*                                                                          *)
(* Locals that the code never reads again (newsize after the check, the     *)
(* chunks snapshot after the append, allocChunk after extend, everything    *)
(* after return) are reset to 0 at that point. This changes no behaviour of *)
(* the shared variables or of the results; it only keeps dead values from   *)
(* multiplying the state space.                                             *)
(*                                                                          *)
(* Initial state as NewStor builds it (HeapStor, MmapStor): size = used     *)
(* bytes, len(chunks) = ceil(size / chunksize), allocChunk = len(chunks)-1  *)
(* -- so an empty stor starts with NO chunk and allocChunk = -1.            *)
(*                                                                          *)
(* Dev selects a deliberate deviation (self-test / mutants), "none" = code: *)
(*   "reorder"  allocChunk.Add(1) before size.Store                         *)
(*   "nocheck"  only the straddle test, not endChunk == allocChunk          *)
(*   "nobeat"   extend without the "another thread beat us" test            *)
EXTENDS Integers, Sequences, FiniteSets, TLC

CONSTANTS
    Procs,          \* allocator goroutines
    ChunkSize,      \* bytes per chunk
    Sizes,          \* allocation sizes a caller may ask for (1..ChunkSize)
    NAllocs,        \* allocations per goroutine
    InitSizes,      \* possible initial sizes of the stor
    MaxRetries,     \* 3 in the code
    Dev             \* deviation, "none" = the code

ASSUME Sizes \subseteq 1..ChunkSize

ChunkOf(off) == off \div ChunkSize
NChunksFor(sz) == (sz + ChunkSize - 1) \div ChunkSize

\* the property's vocabulary (also used by spec/trace/TraceStor.tla, where the chunk
\* size is that of the recorded scenario)
Overlap(o1, n1, o2, n2) == ~(o1 + n1 <= o2 \/ o2 + n2 <= o1)
Straddles(off, len, csize) == off \div csize # (off + len - 1) \div csize
Within(off, len, sz) == 0 <= off /\ off + len <= sz

\* the test in Alloc
CheckOK(newsize, n, ac) ==
    IF Dev = "nocheck"
    THEN ChunkOf(newsize - 1) = ChunkOf(newsize - n)     \* straddle test only
    ELSE ChunkOf(newsize - 1) = ac
\* the test in extend
BeatUs(ac, nch) == Dev # "nobeat" /\ ac + 1 < nch

(* --algorithm stor {
variables size \in InitSizes,
          nchunks = NChunksFor(size),       \* len(s.chunks)
          allocChunk = nchunks - 1,
          lock = FALSE,
          allocs = {},                      \* history: returned ranges
          fails = {};                       \* history: loud failures (panics)

fair process (a \in Procs)
  variables n = 0, ac = 0, newsize = 0, nch = 0, tries = 0, todo = NAllocs;
{
enter:
  while (todo > 0) {
    with (s \in Sizes) { n := s };
    tries := 0;
loadChunk:
    ac := allocChunk;
addSize:
    size := size + n;
    newsize := size;
check:
    if (CheckOK(newsize, n, ac)) {
      \* s.Data(offset): chunks := s.chunks.Load(); chunks[chunk] (index panic if absent)
      if (ChunkOf(newsize - n) < nchunks) {
        allocs := allocs \cup {[p |-> self, k |-> todo, off |-> newsize - n, n |-> n]};
      } else {
        fails := fails \cup {[p |-> self, k |-> todo, why |-> "index"]};
      };
      todo := todo - 1;
      n := 0; ac := 0; newsize := 0;        \* (dead locals are cleared, see above)
      goto enter;
    } else {
      newsize := 0;
    };
extendLock:
    await ~lock;
    lock := TRUE;
extendCheck:
    if (BeatUs(ac, nchunks)) {            \* chunks := s.chunks.Load(); len(chunks)
      lock := FALSE;
      ac := 0;
      goto retry;
    } else {
      nch := nchunks;
    };
extendAppend:
    nchunks := nch + 1;
    nch := 0;
extendStoreSize:
    if (Dev = "reorder") { allocChunk := allocChunk + 1 }
    else { size := (ac + 1) * ChunkSize };
extendIncChunk:
    if (Dev = "reorder") { size := (ac + 1) * ChunkSize }
    else { allocChunk := allocChunk + 1 };
    ac := 0;
    lock := FALSE;
retry:
    tries := tries + 1;
    if (tries >= MaxRetries) {
      fails := fails \cup {[p |-> self, k |-> todo, why |-> "retries"]};
      todo := todo - 1;
      n := 0;
      goto enter;
    } else {
      goto loadChunk;
    }
  }
}
} *)
\* BEGIN TRANSLATION
VARIABLES pc, size, nchunks, allocChunk, lock, allocs, fails, n, ac, newsize, 
          nch, tries, todo

vars == << pc, size, nchunks, allocChunk, lock, allocs, fails, n, ac, newsize, 
           nch, tries, todo >>

ProcSet == (Procs)

Init == (* Global variables *)
        /\ size \in InitSizes
        /\ nchunks = NChunksFor(size)
        /\ allocChunk = nchunks - 1
        /\ lock = FALSE
        /\ allocs = {}
        /\ fails = {}
        (* Process a *)
        /\ n = [self \in Procs |-> 0]
        /\ ac = [self \in Procs |-> 0]
        /\ newsize = [self \in Procs |-> 0]
        /\ nch = [self \in Procs |-> 0]
        /\ tries = [self \in Procs |-> 0]
        /\ todo = [self \in Procs |-> NAllocs]
        /\ pc = [self \in ProcSet |-> "enter"]

enter(self) == /\ pc[self] = "enter"
               /\ IF todo[self] > 0
                     THEN /\ \E s \in Sizes:
                               n' = [n EXCEPT ![self] = s]
                          /\ tries' = [tries EXCEPT ![self] = 0]
                          /\ pc' = [pc EXCEPT ![self] = "loadChunk"]
                     ELSE /\ pc' = [pc EXCEPT ![self] = "Done"]
                          /\ UNCHANGED << n, tries >>
               /\ UNCHANGED << size, nchunks, allocChunk, lock, allocs, fails, 
                               ac, newsize, nch, todo >>

loadChunk(self) == /\ pc[self] = "loadChunk"
                   /\ ac' = [ac EXCEPT ![self] = allocChunk]
                   /\ pc' = [pc EXCEPT ![self] = "addSize"]
                   /\ UNCHANGED << size, nchunks, allocChunk, lock, allocs, 
                                   fails, n, newsize, nch, tries, todo >>

addSize(self) == /\ pc[self] = "addSize"
                 /\ size' = size + n[self]
                 /\ newsize' = [newsize EXCEPT ![self] = size']
                 /\ pc' = [pc EXCEPT ![self] = "check"]
                 /\ UNCHANGED << nchunks, allocChunk, lock, allocs, fails, n, 
                                 ac, nch, tries, todo >>

check(self) == /\ pc[self] = "check"
               /\ IF CheckOK(newsize[self], n[self], ac[self])
                     THEN /\ IF ChunkOf(newsize[self] - n[self]) < nchunks
                                THEN /\ allocs' = (allocs \cup {[p |-> self, k |-> todo[self], off |-> newsize[self] - n[self], n |-> n[self]]})
                                     /\ fails' = fails
                                ELSE /\ fails' = (fails \cup {[p |-> self, k |-> todo[self], why |-> "index"]})
                                     /\ UNCHANGED allocs
                          /\ todo' = [todo EXCEPT ![self] = todo[self] - 1]
                          /\ n' = [n EXCEPT ![self] = 0]
                          /\ ac' = [ac EXCEPT ![self] = 0]
                          /\ newsize' = [newsize EXCEPT ![self] = 0]
                          /\ pc' = [pc EXCEPT ![self] = "enter"]
                     ELSE /\ newsize' = [newsize EXCEPT ![self] = 0]
                          /\ pc' = [pc EXCEPT ![self] = "extendLock"]
                          /\ UNCHANGED << allocs, fails, n, ac, todo >>
               /\ UNCHANGED << size, nchunks, allocChunk, lock, nch, tries >>

extendLock(self) == /\ pc[self] = "extendLock"
                    /\ ~lock
                    /\ lock' = TRUE
                    /\ pc' = [pc EXCEPT ![self] = "extendCheck"]
                    /\ UNCHANGED << size, nchunks, allocChunk, allocs, fails, 
                                    n, ac, newsize, nch, tries, todo >>

extendCheck(self) == /\ pc[self] = "extendCheck"
                     /\ IF BeatUs(ac[self], nchunks)
                           THEN /\ lock' = FALSE
                                /\ ac' = [ac EXCEPT ![self] = 0]
                                /\ pc' = [pc EXCEPT ![self] = "retry"]
                                /\ nch' = nch
                           ELSE /\ nch' = [nch EXCEPT ![self] = nchunks]
                                /\ pc' = [pc EXCEPT ![self] = "extendAppend"]
                                /\ UNCHANGED << lock, ac >>
                     /\ UNCHANGED << size, nchunks, allocChunk, allocs, fails, 
                                     n, newsize, tries, todo >>

extendAppend(self) == /\ pc[self] = "extendAppend"
                      /\ nchunks' = nch[self] + 1
                      /\ nch' = [nch EXCEPT ![self] = 0]
                      /\ pc' = [pc EXCEPT ![self] = "extendStoreSize"]
                      /\ UNCHANGED << size, allocChunk, lock, allocs, fails, n, 
                                      ac, newsize, tries, todo >>

extendStoreSize(self) == /\ pc[self] = "extendStoreSize"
                         /\ IF Dev = "reorder"
                               THEN /\ allocChunk' = allocChunk + 1
                                    /\ size' = size
                               ELSE /\ size' = (ac[self] + 1) * ChunkSize
                                    /\ UNCHANGED allocChunk
                         /\ pc' = [pc EXCEPT ![self] = "extendIncChunk"]
                         /\ UNCHANGED << nchunks, lock, allocs, fails, n, ac, 
                                         newsize, nch, tries, todo >>

extendIncChunk(self) == /\ pc[self] = "extendIncChunk"
                        /\ IF Dev = "reorder"
                              THEN /\ size' = (ac[self] + 1) * ChunkSize
                                   /\ UNCHANGED allocChunk
                              ELSE /\ allocChunk' = allocChunk + 1
                                   /\ size' = size
                        /\ ac' = [ac EXCEPT ![self] = 0]
                        /\ lock' = FALSE
                        /\ pc' = [pc EXCEPT ![self] = "retry"]
                        /\ UNCHANGED << nchunks, allocs, fails, n, newsize, 
                                        nch, tries, todo >>

retry(self) == /\ pc[self] = "retry"
               /\ tries' = [tries EXCEPT ![self] = tries[self] + 1]
               /\ IF tries'[self] >= MaxRetries
                     THEN /\ fails' = (fails \cup {[p |-> self, k |-> todo[self], why |-> "retries"]})
                          /\ todo' = [todo EXCEPT ![self] = todo[self] - 1]
                          /\ n' = [n EXCEPT ![self] = 0]
                          /\ pc' = [pc EXCEPT ![self] = "enter"]
                     ELSE /\ pc' = [pc EXCEPT ![self] = "loadChunk"]
                          /\ UNCHANGED << fails, n, todo >>
               /\ UNCHANGED << size, nchunks, allocChunk, lock, allocs, ac, 
                               newsize, nch >>

a(self) == enter(self) \/ loadChunk(self) \/ addSize(self) \/ check(self)
              \/ extendLock(self) \/ extendCheck(self)
              \/ extendAppend(self) \/ extendStoreSize(self)
              \/ extendIncChunk(self) \/ retry(self)

(* Allow infinite stuttering to prevent deadlock on termination. *)
Terminating == /\ \A self \in ProcSet: pc[self] = "Done"
               /\ UNCHANGED vars

Next == (\E self \in Procs: a(self))
           \/ Terminating

Spec == /\ Init /\ [][Next]_vars
        /\ \A self \in Procs : WF_vars(a(self))

Termination == <>(\A self \in ProcSet: pc[self] = "Done")

\* END TRANSLATION

----------------------------------------------------------------------------
(* Properties (C18) *)

\* returned ranges are pairwise disjoint
Disjoint == \A x, y \in allocs : x # y => ~Overlap(x.off, x.n, y.off, y.n)
\* no returned range straddles a chunk boundary
InChunk == \A x \in allocs : ~Straddles(x.off, x.n, ChunkSize)
\* every returned range lies within the storage size (at all later times)
InSize == \A x \in allocs : Within(x.off, x.n, size)
\* ... and in a chunk that exists
Mapped == \A x \in allocs : ChunkOf(x.off + x.n - 1) < nchunks
\* the model of the unchanged code never takes the index-panic path in Data()
NoIndexPanic == \A f \in fails : f.why # "index"
\* extension bookkeeping
ChunkInv == /\ allocChunk <= nchunks - 1
            /\ nchunks - 1 <= allocChunk + 1
            /\ (~lock => allocChunk = nchunks - 1)
LockInv == lock <=> \E p \in Procs :
              pc[p] \in {"extendCheck", "extendAppend", "extendStoreSize", "extendIncChunk"}
\* an allocation either returns a range or fails loudly: everybody finishes,
\* and every allocation asked for is accounted for
Accounted == (\A p \in Procs : pc[p] = "Done") =>
                Cardinality(allocs) + Cardinality(fails) = Cardinality(Procs) * NAllocs
Finishes == <>(\A p \in Procs : pc[p] = "Done")

\* used by configs that want to know whether the loud failure is reachable
NoRetryPanic == \A f \in fails : f.why # "retries"
=============================================================================
