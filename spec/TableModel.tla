----------------------------- MODULE TableModel -----------------------------
(* A small abstract model of database access through the IDbms/ITran/IQuery   *)
(* interface (core/idbms.go) for ONE table tm(k, v) key(k): transactions with  *)
(* snapshot reads and own writes, lookup by key, output, update, erase, scans  *)
(* in key order, commit and abort.  Written as pure functions on a state       *)
(* record so that the SAME rules judge an execution through DbmsLocal and an   *)
(* execution through DbmsClient <-> server (trace/TraceCS.tla): that is what   *)
(* "client-server access behaves like local access" means here.                *)
(* Restriction (established by the driver): at most one update transaction is  *)
(* open at a time, so commits do not conflict (conflicts are C01's subject).   *)
EXTENDS Naturals, Sequences, FiniteSets

CONSTANTS Keys,     \* key values (naturals)
          Handles   \* transaction handles of a script

Absent == 0 - 1     \* "no row with this key"

NoTran == [st |-> "none", upd |-> FALSE, view |-> [k \in Keys |-> Absent]]

NewDb == [tab |-> [k \in Keys |-> Absent], tr |-> [h \in Handles |-> NoTran]]

Open(db, h) == db.tr[h].st = "open"
View(db, h) == db.tr[h].view

\* rows of a view in key order, as a sequence of <<k, v>>
RECURSIVE RowsFrom(_, _)
RowsFrom(view, ks) ==
    IF ks = {} THEN <<>>
    ELSE LET k == CHOOSE x \in ks : \A y \in ks : x <= y IN
         (IF view[k] = Absent THEN <<>> ELSE <<<<k, view[k]>>>>) \o RowsFrom(view, ks \ {k})
Rows(view) == RowsFrom(view, Keys)
Reverse(s) == [i \in 1..Len(s) |-> s[Len(s) + 1 - i]]

\* Each operation: expected result class ("ok"/"err"), expected value, new state.
\* res = [cls, val, rows, db]

Res(cls, val, rows, db) == [cls |-> cls, val |-> val, rows |-> rows, db |-> db]

Begin(db, h, upd) ==
    Res("ok", 0, <<>>, [db EXCEPT !.tr[h] = [st |-> "open", upd |-> upd, view |-> db.tab]])

\* Query1 by key inside transaction h: the value, or Absent
Get1(db, h, k) ==
    IF ~Open(db, h) THEN Res("err", 0, <<>>, db)
    ELSE Res("ok", View(db, h)[k], <<>>, db)

Out(db, h, k, v) ==
    IF ~Open(db, h) \/ ~db.tr[h].upd \/ View(db, h)[k] # Absent THEN Res("err", 0, <<>>, db)
    ELSE Res("ok", 0, <<>>, [db EXCEPT !.tr[h].view[k] = v])

\* update / erase of a row the transaction has read (it exists in its view)
Upd(db, h, k, v) ==
    IF ~Open(db, h) \/ ~db.tr[h].upd \/ View(db, h)[k] = Absent THEN Res("err", 0, <<>>, db)
    ELSE Res("ok", 0, <<>>, [db EXCEPT !.tr[h].view[k] = v])

Del(db, h, k) ==
    IF ~Open(db, h) \/ ~db.tr[h].upd \/ View(db, h)[k] = Absent THEN Res("err", 0, <<>>, db)
    ELSE Res("ok", 0, <<>>, [db EXCEPT !.tr[h].view[k] = Absent])

\* read the whole table through a query in transaction h, forwards or backwards
Scan(db, h, fwd) ==
    IF ~Open(db, h) THEN Res("err", 0, <<>>, db)
    ELSE Res("ok", 0, IF fwd THEN Rows(View(db, h)) ELSE Reverse(Rows(View(db, h))), db)

Commit(db, h) ==
    IF ~Open(db, h) THEN Res("err", 0, <<>>, db)
    ELSE Res("ok", 0, <<>>,
             [db EXCEPT !.tr[h].st = "ended",
                        !.tab = IF db.tr[h].upd THEN db.tr[h].view ELSE db.tab])

Abort(db, h) ==
    IF ~Open(db, h) THEN Res("err", 0, <<>>, db)
    ELSE Res("ok", 0, <<>>, [db EXCEPT !.tr[h].st = "ended"])

Apply(db, op, h, upd, k, v) ==
    CASE op = "Begin"  -> Begin(db, h, upd)
      [] op = "Get1"   -> Get1(db, h, k)
      [] op = "Out"    -> Out(db, h, k, v)
      [] op = "Upd"    -> Upd(db, h, k, v)
      [] op = "Del"    -> Del(db, h, k)
      [] op = "Scan"   -> Scan(db, h, TRUE)
      [] op = "ScanRev" -> Scan(db, h, FALSE)
      [] op = "Commit" -> Commit(db, h)
      [] op = "Abort"  -> Abort(db, h)

Ops == {"Begin", "Get1", "Out", "Upd", "Del", "Scan", "ScanRev", "Commit", "Abort"}

\* the driver's restriction
OneWriter(db) == Cardinality({h \in Handles : db.tr[h].st = "open" /\ db.tr[h].upd}) <= 1
=============================================================================
