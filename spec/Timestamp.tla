----------------------------- MODULE Timestamp -----------------------------
(* Unique, increasing timestamps (C34).                                     *)
(*                                                                          *)
(* Server side  db19/timestamp.go:                                          *)
(*   Timestamp()  under tsLock: returns `timestamp`, then advances it by    *)
(*                TsInitialBatch ms if its millisecond part < TsThreshold   *)
(*                (the caller may use the whole batch), else by 1 ms        *)
(*   ticker()     once a second, under tsLock: timestamp := wall clock      *)
(*                truncated to the second, but only forwards                *)
(* Client side  core/thread.go Thread.Timestamp (one state per process:     *)
(*   tsLast, tsCount, tsLimit, under the client's tsLock):                  *)
(*   fast path    tsCount+1 < tsLimit: batch mode (tsLimit = TsInitialBatch)*)
(*                returns tsLast+1 ms; extra mode (tsLimit = 256) returns   *)
(*                tsLast with the extra byte uint8(tsCount)                 *)
(*   slow path    fetches a new timestamp from the server                   *)
(*   tsExpire()   once a second: tsCount := tsLimit + 1 (forces slow path)  *)
(*                                                                          *)
(* Time is an integer number of milliseconds (offsets from some second      *)
(* boundary), a timestamp value is <<ms, extra>>, extra = 0 for a plain     *)
(* date. Constants of the code: Batch = TsInitialBatch = 5, Threshold =     *)
(* TsThreshold = 500, ExtraLimit = 256 = ByteMod (uint8); the exhaustive    *)
(* configs shrink ExtraLimit/ByteMod.                                       *)
(*                                                                          *)
(* Dev = deliberate deviation (self-test), "none" = the code:               *)
(*   "srvbatch"  server advances by Batch-1 while clients use Batch         *)
(*   "wrap"      client extra limit ByteMod+1: the extra byte wraps to 0    *)
(*   "tickback"  ticker sets the timestamp unconditionally (can go back)    *)
(*   "reuse"     expiry resets tsCount to 0 (batch is used again)           *)
EXTENDS Integers, FiniteSets, TLC

CONSTANTS
    Clients,        \* client processes (each with its own batch state)
    Directs,        \* callers of the server's Timestamp() without client batching
    Batch, Threshold, ExtraLimit, ByteMod,
    StartSet,       \* possible initial values of the server timestamp
    TickTargets,    \* wall clock values (ms, multiples of 1000) the ticker may observe
    MaxOps,         \* bound on the number of timestamps handed out
    Dev

VARIABLES
    ts,             \* server: next timestamp to hand out (ms)
    cl,             \* cl[c] = [last, count, limit]  (tsLast, tsCount, tsLimit)
    issued,         \* history: set of values handed out so far
    lastOf,         \* history: last value each caller received (<<-1, 0>> = none)
    dup,            \* history: some value was handed out twice
    nonmono,        \* history: some caller received a value not above its previous one
    nops

vars == <<ts, cl, issued, lastOf, dup, nonmono, nops>>

Callers == Clients \cup Directs
None == <<-1, 0>>

\* order on values: (ms, extra) lexicographic = CompareSuTimestamp
Less(a, b) == a[1] < b[1] \/ (a[1] = b[1] /\ a[2] < b[2])

MsOf(t) == t % 1000
InBatchHalf(t) == MsOf(t) < Threshold

\* ---- server (db19.Timestamp) as operators on the server value
SrvStep(t) == IF InBatchHalf(t)
              THEN (IF Dev = "srvbatch" THEN Batch - 1 ELSE Batch)
              ELSE 1
SrvNext(t) == t + SrvStep(t)

\* ---- client (Thread.Timestamp) as operators on one client state s
ClLimitFor(t) == IF InBatchHalf(t) THEN Batch
                 ELSE (IF Dev = "wrap" THEN ByteMod + 1 ELSE ExtraLimit)
ClFast(s) == s.count + 1 < s.limit
\* value returned and state after, fast path
ClFastRet(s) == IF s.limit = Batch THEN <<s.last + 1, 0>>
                ELSE <<s.last, (s.count + 1) % ByteMod>>
ClFastState(s) == IF s.limit = Batch
                  THEN [last |-> s.last + 1, count |-> s.count + 1, limit |-> s.limit]
                  ELSE [last |-> s.last, count |-> s.count + 1, limit |-> s.limit]
\* slow path with the server value t
ClSlowState(t) == [last |-> t, count |-> 0, limit |-> ClLimitFor(t)]
\* tsExpire
ClExpired(s) == [s EXCEPT !.count = IF Dev = "reuse" THEN 0 ELSE s.limit + 1]

\* ---- history bookkeeping
Issue(c, v) ==
    /\ dup' = (dup \/ v \in issued)
    /\ issued' = issued \cup {v}
    /\ nonmono' = (nonmono \/ (lastOf[c] # None /\ ~Less(lastOf[c], v)))
    /\ lastOf' = [lastOf EXCEPT ![c] = v]
    /\ nops' = nops + 1

Init ==
    /\ ts \in StartSet
    /\ cl = [c \in Clients |-> [last |-> 0, count |-> 0, limit |-> 0]]
    /\ issued = {} /\ lastOf = [c \in Callers |-> None]
    /\ dup = FALSE /\ nonmono = FALSE /\ nops = 0

\* the ticker observed wall clock t (truncated to the second)
Tick(t) ==
    /\ ts' = IF t > ts \/ Dev = "tickback" THEN t ELSE ts
    /\ UNCHANGED <<cl, issued, lastOf, dup, nonmono, nops>>

\* a direct caller of the server
ServerGet(d) ==
    /\ Issue(d, <<ts, 0>>)
    /\ ts' = SrvNext(ts)
    /\ UNCHANGED cl

ClientGet(c) ==
    IF ClFast(cl[c])
    THEN /\ Issue(c, ClFastRet(cl[c]))
         /\ cl' = [cl EXCEPT ![c] = ClFastState(cl[c])]
         /\ UNCHANGED ts
    ELSE /\ Issue(c, <<ts, 0>>)
         /\ cl' = [cl EXCEPT ![c] = ClSlowState(ts)]
         /\ ts' = SrvNext(ts)

Expire(c) ==
    /\ cl' = [cl EXCEPT ![c] = ClExpired(cl[c])]
    /\ UNCHANGED <<ts, issued, lastOf, dup, nonmono, nops>>

Next ==
    \/ \E t \in TickTargets : Tick(t)
    \/ nops < MaxOps /\ \E d \in Directs : ServerGet(d)
    \/ nops < MaxOps /\ \E c \in Clients : ClientGet(c)
    \/ \E c \in Clients : Expire(c)

Spec == Init /\ [][Next]_vars

----------------------------------------------------------------------------
(* Properties (C34) *)

\* every timestamp handed out is distinct from every other one
Distinct == ~dup
\* the timestamps one caller receives strictly increase
Increasing == ~nonmono

\* why it holds: everything handed out or still reserved by a client batch lies
\* below the server's next value, and reservations of different clients are disjoint
Reserved(c) == IF cl[c].limit = Batch /\ cl[c].count < Batch
               THEN (cl[c].last + 1)..(cl[c].last + (Batch - 1 - cl[c].count)) ELSE {}
BelowServer ==
    /\ \A v \in issued : v[1] < ts
    /\ \A c \in Clients : \A m \in Reserved(c) : m < ts
ReservedFresh ==
    /\ \A c \in Clients : \A m \in Reserved(c) : \A v \in issued : v[1] # m
    /\ \A c1, c2 \in Clients : c1 # c2 => Reserved(c1) \cap Reserved(c2) = {}
ExtraInByte == \A v \in issued : v[2] \in 0..(ByteMod - 1)
=============================================================================
