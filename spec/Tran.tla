-------------------------------- MODULE Tran --------------------------------
(* Optimistic transactions of db19 at design level: clients with snapshots    *)
(* and local writes (tran.go), asynchronous messages to the conflict checker  *)
(* (checkco.go: Post = pq.Put by the client, D* = dispatch in the checker      *)
(* goroutine, per-transaction FIFO as guaranteed by PQueue.tla / C17), and    *)
(* the checker itself (check.go: read ranges, output/delete key sets,          *)
(* hasUpdates / readConflict deferral, free abort victim of abort1of,          *)
(* committed writers retained while they overlap an active transaction).      *)
(*                                                                            *)
(* db maps key -> 0 (absent) or the id of the row written (>0).               *)
(* C01  Serializable: at DCommit(t) every observation of t re-evaluated on     *)
(*      the latest committed state + t's own earlier writes is unchanged      *)
(* C02  SnapshotStable, C03 AtomicCommit / OutcomeTruthful, C07 by the        *)
(*      duplicate check being an observation (lookup = absent).               *)
(* Deviation constants (self-test, must violate Serializable):                *)
(*   NoDupRead   - the duplicate check does not register its point read       *)
(*   LoseMinKey  - writes of the smallest key are not recorded in the write   *)
(*                 sets (the ordset empty-key defect repaired in df105d1)     *)
(*   EarlyClean  - committed writers are forgotten at commit                  *)
EXTENDS Integers, Sequences, FiniteSets, TLC
CONSTANTS Trans, Keys, MaxOps, NoDupRead, LoseMinKey, EarlyClean,
          WithExclusive, \* TRUE: an exclusive schema operation (index build / table load) with a duration:
                         \* AddExcl ... EndExcl, writers are refused while it lasts and, afterwards, as long
                         \* as they began before it ended (check.go exclusive map, cleanEnded)
          ExclLe,        \* deviation: cleanEnded forgets exclusive entries with `end <= oldest` (both are
                         \* MaxInt while the operation is in progress and no transaction is active)
          WithAborts    \* TRUE: also explore aborts by the client (Rollback), by the checker tick (MaxAge)
                        \* and by a table becoming exclusive (index build / table load)
\* Keys is a set of integers; db maps key -> 0 (absent) or writer id (>0)
VARIABLES db, seq, st, start, end, snap, wr, q, nops,
          actv, cmtd, reads, outs, dels, hasUpd, rc, failed,
          obs, bad,
          excl,     \* the checker's entry for the table: 0 = none, INF = in progress, else the end sequence number
          exreal,   \* history: the same, never forgotten
          exbad     \* history: a transaction that began before the operation ended committed writes

vars == <<db, seq, st, start, end, snap, wr, q, nops, actv, cmtd, reads, outs, dels, hasUpd, rc, failed, obs, bad, excl, exreal, exbad>>

INF == 1000
DUPREAD(k) == IF NoDupRead THEN <<>> ELSE << [m |-> "read", lo |-> k, hi |-> k] >>
MinK == CHOOSE k \in Keys : \A j \in Keys : k <= j
MaxK == CHOOSE k \in Keys : \A j \in Keys : k >= j

View(t) == [k \in Keys |-> IF wr[t][k] = -1 THEN snap[t][k] ELSE wr[t][k]]
\* wr[t][k]: -1 = untouched, 0 = deleted, t-id = written
ViewOn(base, w) == [k \in Keys |-> IF w[k] = -1 THEN base[k] ELSE w[k]]

Init == /\ db = [k \in Keys |-> 0]
        /\ seq = 1
        /\ st = [t \in Trans |-> "idle"]
        /\ start = [t \in Trans |-> 0]
        /\ end = [t \in Trans |-> INF]
        /\ snap = [t \in Trans |-> [k \in Keys |-> 0]]
        /\ wr = [t \in Trans |-> [k \in Keys |-> -1]]
        /\ q = [t \in Trans |-> <<>>]
        /\ nops = [t \in Trans |-> 0]
        /\ actv = {} /\ cmtd = {}
        /\ reads = [t \in Trans |-> {}]
        /\ outs = [t \in Trans |-> {}]
        /\ dels = [t \in Trans |-> {}]
        /\ hasUpd = [t \in Trans |-> FALSE]
        /\ rc = [t \in Trans |-> FALSE]
        /\ failed = [t \in Trans |-> FALSE]
        /\ obs = [t \in Trans |-> <<>>]
        /\ bad = FALSE
        /\ excl = 0 /\ exreal = 0 /\ exbad = FALSE

Begin(t) == /\ st[t] = "idle"
            /\ seq' = seq + 2
            /\ start' = [start EXCEPT ![t] = seq + 2]
            /\ snap' = [snap EXCEPT ![t] = db]
            /\ st' = [st EXCEPT ![t] = "active"]
            /\ actv' = actv \cup {t}
            /\ UNCHANGED <<db, end, wr, q, nops, cmtd, reads, outs, dels, hasUpd, rc, failed, obs, bad, excl, exreal, exbad>>

CanOp(t) == st[t] = "active" /\ nops[t] < MaxOps

\* client notices failure when it next talks to the checker
ClientFail(t) == /\ st[t] = "active" /\ failed[t]
                 /\ st' = [st EXCEPT ![t] = "aborted"]
                 /\ UNCHANGED <<db, seq, start, end, snap, wr, q, nops, actv, cmtd, reads, outs, dels, hasUpd, rc, failed, obs, bad, excl, exreal, exbad>>

Post(t, msgs) == q' = [q EXCEPT ![t] = q[t] \o msgs]

CLookup(t, k) == /\ CanOp(t) /\ ~failed[t]
                 /\ obs' = [obs EXCEPT ![t] = Append(obs[t], [kind |-> "lookup", k |-> k, res |-> View(t)[k], w |-> wr[t]])]
                 /\ Post(t, << [m |-> "read", lo |-> k, hi |-> k] >>)
                 /\ nops' = [nops EXCEPT ![t] = nops[t] + 1]
                 /\ UNCHANGED <<db, seq, st, start, end, snap, wr, actv, cmtd, reads, outs, dels, hasUpd, rc, failed, bad, excl, exreal, exbad>>

CScan(t) == /\ CanOp(t) /\ ~failed[t]
            /\ obs' = [obs EXCEPT ![t] = Append(obs[t], [kind |-> "scan", k |-> 0, res |-> {k \in Keys : View(t)[k] # 0}, w |-> wr[t]])]
            /\ Post(t, << [m |-> "read", lo |-> MinK, hi |-> MaxK] >>)
            /\ nops' = [nops EXCEPT ![t] = nops[t] + 1]
            /\ UNCHANGED <<db, seq, st, start, end, snap, wr, actv, cmtd, reads, outs, dels, hasUpd, rc, failed, bad, excl, exreal, exbad>>

COutput(t, k, id) == /\ CanOp(t) /\ ~failed[t]
                 /\ View(t)[k] = 0   \* dup check passes (otherwise error, no change)
                 /\ wr' = [wr EXCEPT ![t][k] = id]
                 /\ obs' = [obs EXCEPT ![t] = Append(obs[t], [kind |-> "lookup", k |-> k, res |-> 0, w |-> wr[t]])]
                 /\ Post(t, DUPREAD(k) \o << [m |-> "output", lo |-> k, hi |-> k] >>)
                 /\ nops' = [nops EXCEPT ![t] = nops[t] + 1]
                 /\ UNCHANGED <<db, seq, st, start, end, snap, actv, cmtd, reads, outs, dels, hasUpd, rc, failed, bad, excl, exreal, exbad>>

CDelete(t, k) == /\ CanOp(t) /\ ~failed[t]
                 /\ View(t)[k] # 0
                 \* must have read it first (lookup) - the code requires having read the record
                 /\ \E i \in 1..Len(obs[t]) : (obs[t][i].kind = "lookup" /\ obs[t][i].k = k) \/ obs[t][i].kind = "scan"
                 /\ wr' = [wr EXCEPT ![t][k] = 0]
                 /\ Post(t, << [m |-> "delete", lo |-> k, hi |-> k] >>)
                 /\ nops' = [nops EXCEPT ![t] = nops[t] + 1]
                 /\ UNCHANGED <<db, seq, st, start, end, snap, actv, cmtd, reads, outs, dels, hasUpd, rc, failed, obs, bad, excl, exreal, exbad>>

CCommit(t) == /\ st[t] = "active" /\ ~failed[t]
              /\ st' = [st EXCEPT ![t] = "committing"]
              /\ Post(t, << [m |-> "commit", lo |-> 0, hi |-> 0] >>)
              /\ UNCHANGED <<db, seq, start, end, snap, wr, nops, actv, cmtd, reads, outs, dels, hasUpd, rc, failed, obs, bad, excl, exreal, exbad>>

Ended(u) == end[u] # INF
Overlap(t, u) == end[t] > start[u] /\ end[u] > start[t]
InTables(u) == u \in actv \cup cmtd

\* remove tran from checker (abort)
AbortSet(S) == /\ actv' = actv \ S
               /\ failed' = [u \in Trans |-> failed[u] \/ u \in S]
               /\ reads' = [u \in Trans |-> IF u \in S THEN {} ELSE reads[u]]
               /\ outs' = [u \in Trans |-> IF u \in S THEN {} ELSE outs[u]]
               /\ dels' = [u \in Trans |-> IF u \in S THEN {} ELSE dels[u]]

Pop(t) == q' = [q EXCEPT ![t] = Tail(q[t])]

\* ---- dispatch read
DRead(t) ==
  /\ q[t] # <<>> /\ Head(q[t]).m = "read"
  /\ LET m == Head(q[t])
         conf == {u \in (actv \cup cmtd) \ {t} : Overlap(t, u) /\
                    \E k \in (outs[u] \cup dels[u]) : m.lo <= k /\ k <= m.hi}
         confA == {u \in conf : ~Ended(u)}
         confE == {u \in conf : Ended(u)}
     IN
     /\ Pop(t)
     /\ IF rc[t] \/ t \notin actv
        THEN UNCHANGED <<actv, failed, reads, outs, dels, rc, hasUpd>>
        ELSE IF conf = {}
        THEN /\ reads' = [reads EXCEPT ![t] = reads[t] \cup {<<m.lo, m.hi>>}]
             /\ UNCHANGED <<actv, failed, outs, dels, rc, hasUpd>>
        ELSE IF ~hasUpd[t]
        THEN /\ rc' = [rc EXCEPT ![t] = TRUE]
             /\ reads' = [reads EXCEPT ![t] = reads[t] \cup {<<m.lo, m.hi>>}]
             /\ UNCHANGED <<actv, failed, outs, dels, hasUpd>>
        ELSE \* t has updates: victims
             \/ /\ \E S \in SUBSET confA : AbortSet(S \cup {t})   \* t aborted after possibly aborting some others
                /\ UNCHANGED <<rc, hasUpd>>
             \/ /\ confE = {}
                /\ AbortSet(confA)
                /\ reads' = [u \in Trans |-> IF u \in confA THEN {} ELSE IF u = t THEN reads[t] \cup {<<m.lo, m.hi>>} ELSE reads[u]]
                /\ UNCHANGED <<rc, hasUpd>>
  /\ UNCHANGED <<db, seq, st, start, end, snap, wr, nops, cmtd, obs, bad, excl, exreal, exbad>>

\* ---- dispatch write (output or delete of key k)
DWrite(t) ==
  /\ q[t] # <<>> /\ Head(q[t]).m \in {"output", "delete"}
  /\ LET m == Head(q[t])
         k == m.lo
         rdrs == {u \in actv \ {t} : Overlap(t, u) /\ ~Ended(u) /\
                    \E r \in reads[u] : r[1] <= k /\ k <= r[2]}
         rdU == {u \in rdrs : hasUpd[u]}
         rdN == {u \in rdrs : ~hasUpd[u]}
     IN
     /\ Pop(t)
     /\ IF t \notin actv
        THEN UNCHANGED <<actv, failed, reads, outs, dels, rc, hasUpd>>
        ELSE IF start[t] < excl
        THEN \* "conflict with exclusive"
             /\ AbortSet({t}) /\ UNCHANGED <<rc, hasUpd>>
        ELSE IF ~hasUpd[t] /\ rc[t]
        THEN \* gotUpdate aborts
             /\ AbortSet({t}) /\ UNCHANGED <<rc, hasUpd>>
        ELSE
          \/ \* t survives: all updating readers aborted, non-updating readers get rc
             /\ hasUpd' = [hasUpd EXCEPT ![t] = TRUE]
             /\ rc' = [u \in Trans |-> rc[u] \/ u \in rdN]
             /\ actv' = actv \ rdU
             /\ failed' = [u \in Trans |-> failed[u] \/ u \in rdU]
             /\ reads' = [u \in Trans |-> IF u \in rdU THEN {} ELSE reads[u]]
             /\ outs' = [u \in Trans |-> IF u \in rdU THEN {} ELSE IF u = t /\ m.m = "output" /\ ~(LoseMinKey /\ k = MinK) THEN outs[t] \cup {k} ELSE outs[u]]
             /\ dels' = [u \in Trans |-> IF u \in rdU THEN {} ELSE IF u = t /\ m.m = "delete" /\ ~(LoseMinKey /\ k = MinK) THEN dels[t] \cup {k} ELSE dels[u]]
          \/ \* t is chosen as victim by some updating reader conflict
             /\ rdU # {}
             /\ hasUpd' = [hasUpd EXCEPT ![t] = TRUE]
             /\ \E S \in SUBSET rdU : S # rdU /\ AbortSet(S \cup {t})
             /\ \E N \in SUBSET rdN : rc' = [u \in Trans |-> rc[u] \/ u \in N]
  /\ UNCHANGED <<db, seq, st, start, end, snap, wr, nops, cmtd, obs, bad, excl, exreal, exbad>>

\* serializability check of t at commit against current db
ObsOK(t) == \A i \in 1..Len(obs[t]) :
   LET o == obs[t][i]
       v == ViewOn(db, o.w)
   IN IF o.kind = "lookup" THEN v[o.k] = o.res
      ELSE {k \in Keys : v[k] # 0} = o.res

DCommit(t) ==
  /\ q[t] # <<>> /\ Head(q[t]).m = "commit"
  /\ Pop(t)
  /\ IF t \notin actv
     THEN /\ st' = [st EXCEPT ![t] = "aborted"]
          /\ UNCHANGED <<db, seq, end, actv, cmtd, reads, outs, dels, bad>>
     ELSE /\ seq' = seq + 2
          /\ end' = [end EXCEPT ![t] = seq + 2]
          /\ st' = [st EXCEPT ![t] = "committed"]
          /\ actv' = actv \ {t}
          /\ reads' = [reads EXCEPT ![t] = {}]
          /\ IF hasUpd[t]
             THEN /\ bad' = (bad \/ ~ObsOK(t))
                  /\ db' = ViewOn(db, wr[t])
                  /\ LET act2 == actv \ {t}
                         oldest == IF act2 = {} THEN INF ELSE CHOOSE s \in {start[u] : u \in act2} : \A u \in act2 : s <= start[u]
                         c2 == cmtd \cup {t}
                         keep == IF EarlyClean THEN {} ELSE {u \in c2 : (IF u = t THEN seq + 2 ELSE end[u]) >= oldest}
                     IN /\ cmtd' = keep
                        /\ outs' = [u \in Trans |-> IF u \in c2 \ keep THEN {} ELSE outs[u]]
                        /\ dels' = [u \in Trans |-> IF u \in c2 \ keep THEN {} ELSE dels[u]]
             ELSE /\ UNCHANGED <<db, bad>>
                  /\ LET act2 == actv \ {t}
                         oldest == IF act2 = {} THEN INF ELSE CHOOSE s \in {start[u] : u \in act2} : \A u \in act2 : s <= start[u]
                         keep == {u \in cmtd : end[u] >= oldest}
                     IN /\ cmtd' = keep
                        /\ outs' = [u \in Trans |-> IF u \in cmtd \ keep \/ u = t THEN {} ELSE outs[u]]
                        /\ dels' = [u \in Trans |-> IF u \in cmtd \ keep \/ u = t THEN {} ELSE dels[u]]
  /\ LET act2 == IF t \in actv THEN actv \ {t} ELSE actv
         oldest == IF act2 = {} THEN INF ELSE CHOOSE s \in {start[u] : u \in act2} : \A u \in act2 : s <= start[u]
     IN excl' = IF t \in actv /\ excl # 0 /\ (excl < oldest \/ (ExclLe /\ excl = oldest)) THEN 0 ELSE excl
  /\ exbad' = (exbad \/ (t \in actv /\ hasUpd[t] /\ start[t] < exreal))
  /\ UNCHANGED <<start, snap, wr, nops, hasUpd, rc, failed, obs, exreal>>

\* ---- the exclusive operation with a duration (WithExclusive)
AddExcl ==
  /\ WithExclusive /\ exreal = 0
  /\ AbortSet({u \in actv : outs[u] # {} \/ dels[u] # {}})
  /\ excl' = INF /\ exreal' = INF
  /\ UNCHANGED <<db, seq, st, start, end, snap, wr, q, nops, cmtd, hasUpd, rc, obs, bad, exbad>>
EndExcl ==
  /\ WithExclusive /\ exreal = INF
  /\ seq' = seq + 2
  /\ exreal' = seq + 2
  /\ LET oldest == IF actv = {} THEN INF ELSE CHOOSE s \in {start[u] : u \in actv} : \A u \in actv : s <= start[u]
     IN excl' = IF excl # INF THEN excl                 \* EndExclusive of a forgotten entry does nothing
                ELSE IF seq + 2 < oldest THEN 0 ELSE seq + 2
  /\ UNCHANGED <<db, st, start, end, snap, wr, q, nops, actv, cmtd, reads, outs, dels, hasUpd, rc, failed, obs, bad, exbad>>

\* ---- aborts (checkco.go ckAbort / check.go tick / AddExclusive): the checker drops the
\* transaction at any moment; messages still queued for it are ignored when dispatched
\* (t \notin actv), a later commit request is answered with failure
DAbort(t) ==
  /\ WithAborts /\ t \in actv
  /\ AbortSet({t})
  /\ UNCHANGED <<db, seq, st, start, end, snap, wr, q, nops, cmtd, hasUpd, rc, obs, bad, excl, exreal, exbad>>

\* AddExclusive(table): every active transaction that has written to the table is aborted
DExclusive ==
  /\ WithAborts
  /\ LET ws == {u \in actv : outs[u] # {} \/ dels[u] # {}} IN
       /\ ws # {}
       /\ AbortSet(ws)
  /\ UNCHANGED <<db, seq, st, start, end, snap, wr, q, nops, cmtd, hasUpd, rc, obs, bad, excl, exreal, exbad>>

Next == \/ \E t \in Trans :
          \/ Begin(t) \/ ClientFail(t) \/ CScan(t) \/ CCommit(t)
          \/ DRead(t) \/ DWrite(t) \/ DCommit(t) \/ DAbort(t)
          \/ \E k \in Keys : CLookup(t, k) \/ CDelete(t, k) \/ COutput(t, k, 1)
        \/ DExclusive \/ AddExcl \/ EndExcl

Spec == Init /\ [][Next]_vars

(* C01 *)
Serializable == ~bad
(* no transaction that began before an exclusive operation ended commits writes to its table *)
ExclusiveRespected == ~exbad
(* C02: the snapshot of a running transaction never changes *)
SnapshotStable == [][\A t \in Trans : st[t] \in {"active", "committing"} => snap'[t] = snap[t]]_vars
(* C03: the database changes only in the commit step of a transaction that is
   reported committed, and then by exactly its writes *)
AtomicCommit == [][db' # db => \E t \in Trans :
                      /\ st[t] = "committing" /\ st'[t] = "committed"
                      /\ db' = ViewOn(db, wr[t])]_vars
OutcomeTruthful == \A t \in Trans : st[t] = "aborted" => end[t] = INF
(* an aborted transaction leaves no visible change: whatever is in db was written by a
   transaction that is reported committed *)
NoAbortedWrites == \A k \in Keys : db[k] # 0 =>
                      \E t \in Trans : st[t] = "committed" /\ wr[t][k] = db[k]
(* checker bookkeeping: a committed writer stays known while an active transaction
   that started before its end could still conflict with it *)
RetainsOverlapping == EarlyClean \/ \A u \in Trans :
    (st[u] = "committed" /\ hasUpd[u] /\ \E a \in actv : start[a] < end[u]) => u \in cmtd
View1 == <<db, seq, st, start, end, snap, wr, q, nops, actv, cmtd, reads, outs, dels, hasUpd, rc, failed, obs>>
=============================================================================
