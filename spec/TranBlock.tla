------------------------------ MODULE TranBlock ------------------------------
(* Transaction(update:) { |t| body }  (builtin/transaction.go, core/sutran.go) *)
(*                                                                            *)
(* A block body is a sequence of steps on the transaction                     *)
(*     W(k) insert row k      D(k) delete row k                               *)
(*     C    t.Complete()      R    t.Rollback()                               *)
(* followed by a terminator                                                   *)
(*     end, return (from the enclosing function), returnNested (return from   *)
(*     a block nested in the body), throw, throwNested (a called function     *)
(*     throws), break, continue (both are exceptions inside a block)          *)
(* A step on a transaction that was already ended explicitly has no effect    *)
(* (the code throws: W/D/C after R, W/D/R after C); a step that throws ends   *)
(* the body.                                                                  *)
(*                                                                            *)
(* Rule of the deferred completion (C42): when the body is left, an active    *)
(* transaction is completed if the body did not throw (normal end or return)  *)
(* and rolled back if it threw; an explicitly ended transaction is left as it *)
(* is; the exception, if any, propagates.                                     *)
EXTENDS Integers, Sequences, FiniteSets, TLC

CONSTANTS
    Keys,           \* row keys used by the model checker
    MaxSteps,       \* steps per body
    MaxProgs,       \* programs per behaviour
    Dev             \* "none" | "commitOnThrow" | "rollbackOnReturn"   (self-test deviations)

Terms == {"end", "return", "returnNested", "throw", "throwNested", "break", "continue"}
NormalTerms == {"end", "return", "returnNested"}
ExcOf(term) == CASE term \in {"throw", "throwNested"} -> "user"
                 [] term = "break" -> "break"
                 [] term = "continue" -> "continue"
                 [] OTHER -> "none"

VARIABLES
    db,         \* committed rows
    status,     \* "idle" | "active" | "completed" | "aborted"
    pend,       \* uncommitted changes of the current transaction: set of <<"ins"|"del", k>>
    thrown,     \* exception propagating out of the body: "none" | "user" | "break" | "continue" | "other"
    explicit,   \* what the body did explicitly: "none" | "completed" | "rolledback"
    nsteps, nprogs,
    out         \* observation of the last finished program: [exc, db]

vars == <<db, status, pend, thrown, explicit, nsteps, nprogs, out>>

Apply(d, p) == (d \ {x[2] : x \in {y \in p : y[1] = "del"}}) \cup {x[2] : x \in {y \in p : y[1] = "ins"}}

Init == /\ db = {} /\ status = "idle" /\ pend = {} /\ thrown = "none" /\ explicit = "none"
        /\ nsteps = 0 /\ nprogs = 0 /\ out = [exc |-> "none", db |-> {}, term |-> "-"]

Running == status # "idle" /\ thrown = "none"

Begin == /\ status = "idle"
         /\ status' = "active" /\ pend' = {} /\ thrown' = "none" /\ explicit' = "none" /\ nsteps' = 0
         /\ UNCHANGED <<db, nprogs, out>>

\* a step on a transaction that was already ended explicitly: the code throws; the property
\* only needs that it has no effect, so "nothing happens" is allowed as well
Throws == /\ thrown' \in {"other", "none"} /\ UNCHANGED <<db, status, pend, explicit>>

Write(op, k) ==
    /\ Running
    /\ nsteps' = nsteps + 1
    /\ IF status = "active"
       THEN /\ pend' = pend \cup {<<op, k>>}
            /\ UNCHANGED <<db, status, thrown, explicit>>
       ELSE Throws
    /\ UNCHANGED <<nprogs, out>>

\* keys are chosen so that the write itself succeeds (no duplicate, row exists)
StepW(k) == k \notin Apply(db, pend) /\ <<"del", k>> \notin pend /\ Write("ins", k)
StepD(k) == k \in db /\ <<"del", k>> \notin pend /\ Write("del", k)

StepC ==
    /\ Running
    /\ nsteps' = nsteps + 1
    /\ CASE status = "active" -> /\ db' = Apply(db, pend) /\ status' = "completed"
                                 /\ explicit' = "completed" /\ UNCHANGED <<pend, thrown>>
         [] status = "completed" -> UNCHANGED <<db, status, pend, thrown, explicit>>
         [] status = "aborted" -> Throws
    /\ UNCHANGED <<nprogs, out>>

StepR ==
    /\ Running
    /\ nsteps' = nsteps + 1
    /\ CASE status = "active" -> /\ status' = "aborted" /\ explicit' = "rolledback"
                                 /\ UNCHANGED <<db, pend, thrown>>
         [] status = "aborted" -> UNCHANGED <<db, status, pend, thrown, explicit>>
         [] status = "completed" -> Throws
    /\ UNCHANGED <<nprogs, out>>

\* leaving the body: by the terminator if no step threw, else by the exception of the step.
\* This is the deferred function of builtin Transaction.
Leave(exc, term) ==
    LET commit == CASE Dev = "commitOnThrow" -> TRUE
                    [] Dev = "rollbackOnReturn" -> exc = "none" /\ FALSE
                    [] OTHER -> exc = "none"
        ndb == IF status = "active" /\ commit THEN Apply(db, pend) ELSE db
    IN /\ db' = ndb
       /\ status' = "idle"
       /\ out' = [exc |-> exc, db |-> ndb, term |-> term]
       /\ nprogs' = nprogs + 1
       /\ UNCHANGED <<pend, thrown, explicit, nsteps>>

End(term) == status # "idle" /\ thrown = "none" /\ Leave(ExcOf(term), term)
Abandon == status # "idle" /\ thrown # "none" /\ Leave(thrown, "-")

Next == \/ (nprogs < MaxProgs /\ Begin)
        \/ (nsteps < MaxSteps /\ (\E k \in Keys : StepW(k) \/ StepD(k)))
        \/ (nsteps < MaxSteps /\ (StepC \/ StepR))
        \/ (\E t \in Terms : End(t))
        \/ Abandon

Spec == Init /\ [][Next]_vars

----------------------------------------------------------------------------
(* Property C42, on the step that leaves the body *)

Leaving == status # "idle" /\ status' = "idle"
Threw == out'.exc # "none"

\* the block's work is in the database afterwards iff it was explicitly completed, or it was
\* not explicitly rolled back and the block did not throw
CommitRule == [][Leaving =>
                    LET committed == explicit = "completed" \/ (explicit = "none" /\ ~Threw) IN
                    db' = IF committed /\ explicit = "none" THEN Apply(db, pend) ELSE db]_vars
\* nothing half done: the database is the old one or the old one with all changes
AllOrNothing == [][Leaving => db' \in {db, Apply(db, pend)}]_vars
\* the exception propagates
Propagates == [][Leaving => out'.exc = IF thrown # "none" THEN thrown ELSE ExcOf(out'.term)]_vars
\* work becomes visible only by completion: while the body runs the database is changed by StepC only
NoEarlyEffect == [][(status = "active" /\ status' = "active") => db' = db]_vars

TypeOK == /\ status \in {"idle", "active", "completed", "aborted"}
          /\ explicit \in {"none", "completed", "rolledback"}
          /\ thrown \in {"none", "user", "break", "continue", "other"}
=============================================================================
