------------------------------- MODULE TrigLib -------------------------------
(* C44 with library-defined triggers: design model of the lookup / caching    *)
(* path as the code implements it, checked against the promises of           *)
(* TrigLibRules.tla.                                                          *)
(*                                                                            *)
(* Code modelled (gsuneido):                                                  *)
(*  db19/triggers.go call2      enabled(table)?  fn = Global.FindName(th,     *)
(*                              "Trigger_"+table); nil => no call             *)
(*  core/globals.go FindName    values[gn] # nil => it; name in noDef => nil; *)
(*                              else Libload: nil => SetNoDef(name) (noDef,   *)
(*                              cleared = false) else SetName (values,        *)
(*                              cleared = false)                              *)
(*  core/globals.go Unload(n)   values[gn] = nil, delete noDef[n] (cleared    *)
(*                              untouched)                                    *)
(*  core/globals.go UnloadAll   if cleared {return}; clear values, errors,    *)
(*                              noDef; cleared = true                         *)
(*  gsuneido.go libload +       definitions of all libraries in use, in       *)
(*  dbms LibGet                 Libraries() order, each compiled on top of    *)
(*                              the previous one: the last library wins       *)
(*  builtin/library.go Use      dbms.Use (false if already in use) and only   *)
(*                              then UnloadAll                                *)
(*  builtin/library.go Unuse    UnloadAll first, then dbms.Unuse (false for   *)
(*                              stdlib / not in use)                          *)
(*  library tables are tables: editing a library record is a row change of    *)
(*  the library table and looks up Trigger_<library> (normally undefined:     *)
(*  noDef entry, cleared = false)                                             *)
(*  any other global loaded from a library (Global.Find: Set / SetErr)        *)
(*  resets cleared as well: action LoadOther                                  *)
(*                                                                            *)
(* RowChange(t) stands for an insert, update or delete of one row of t        *)
(* (tran.go Output / update / Delete all end in CallTrigger); `calls` is the  *)
(* part of the trigger call log the latest action appended (the definitions   *)
(* called, in order).                                                         *)
EXTENDS TrigLibRules, TLC

CONSTANTS Tables,      \* data tables
          Libs,        \* libraries (tables too)
          StdLib,      \* \in Libs, always in use
          MaxVer,      \* bound: versions of one library record
          MaxDisable,  \* bound: nested disable count
          Dev          \* deviation: "none" = the code as it is

ASSUME StdLib \in Libs /\ Tables \cap Libs = {}

Names == Tables \cup Libs          \* Trigger_<n> for every table, libraries included

VARIABLES recs,      \* [Libs \X Tables -> 0..MaxVer]  library records (0 = none)
          hi,        \* [Libs \X Tables -> 0..MaxVer]  highest version used so far (versions are never reused)
          libs,      \* libraries in use, Libraries() order
          cache,     \* [Names -> entry]  values / noDef of the global table
          other,     \* some other library global is loaded (values / errors)
          cleared,   \* g.cleared
          disabled,  \* [Tables -> 0..MaxDisable]
          held,      \* ghost (TrigLibRules): what may legitimately still be cached
          calls,     \* definitions called by the latest action
          ok         \* ghost: the calls of the latest row change were the promised ones

vars == <<recs, hi, libs, cache, other, cleared, disabled, held, calls, ok>>

Unknown == [k |-> "unknown", d |-> None]     \* values[gn] = nil, not in noDef
NoDef == [k |-> "nodef", d |-> None]         \* name in noDef
Loaded(d) == [k |-> "def", d |-> d]          \* values[gn] = compiled definition d

Defs == {None} \cup {DefOf(lib, v) : lib \in Libs, v \in 1..MaxVer}

TypeOK ==
    /\ recs \in [Libs \X Tables -> 0..MaxVer]
    /\ hi \in [Libs \X Tables -> 0..MaxVer]
    /\ \A p \in Libs \X Tables : recs[p] \in {0, hi[p]}
    /\ libs \in Seq(Libs) /\ Len(libs) >= 1 /\ libs[1] = StdLib
    /\ \A i, j \in 1..Len(libs) : i # j => libs[i] # libs[j]
    /\ \A n \in Names : cache[n] \in {Unknown, NoDef} \cup {Loaded(d) : d \in Defs \ {None}}
    /\ other \in BOOLEAN /\ cleared \in BOOLEAN
    /\ disabled \in [Tables -> 0..MaxDisable]
    /\ \A t \in Tables : held[t] \subseteq Defs
    /\ calls \in Seq(Defs \ {None}) /\ Len(calls) <= 1
    /\ ok \in BOOLEAN

Init ==
    /\ recs = [p \in Libs \X Tables |-> 0]
    /\ hi = [p \in Libs \X Tables |-> 0]
    /\ libs = <<StdLib>>
    /\ cache = [n \in Names |-> Unknown]
    /\ other = FALSE
    /\ cleared \in BOOLEAN
    /\ disabled = [t \in Tables |-> 0]
    /\ held = NoHeld(Tables)
    /\ calls = <<>>
    /\ ok = TRUE

\* ---------------------------------------------------------------- the code
\* libload: what compiling the records of the libraries in use yields
CodeResolve(n) ==
    IF n \notin Tables THEN None                       \* libraries have no trigger records here
    ELSE IF Dev = "firstlibwins"
         THEN LET idx == {i \in 1..Len(libs) : recs[libs[i], n] # 0}
              IN IF idx = {} THEN None
                 ELSE LET i == CHOOSE i \in idx : \A j \in idx : i <= j
                      IN DefOf(libs[i], recs[libs[i], n])
         ELSE Resolve(recs, libs, n)

\* Global.FindName(name): result, cache and cleared afterwards
FindResult(c, n) == IF c[n].k = "unknown" THEN CodeResolve(n) ELSE c[n].d
FindCache(c, n) ==
    IF c[n].k # "unknown" THEN c
    ELSE [c EXCEPT ![n] = IF CodeResolve(n) = None THEN NoDef ELSE Loaded(CodeResolve(n))]
FindCleared(c, cl, n) ==
    IF c[n].k # "unknown" THEN cl
    ELSE IF CodeResolve(n) = None /\ Dev = "setnodefkeepscleared" THEN cl   \* seeded change
    ELSE IF CodeResolve(n) # None /\ Dev = "setnamekeepscleared" THEN cl
    ELSE FALSE

\* Global.UnloadAll on <<cache, other, cleared>>
UnloadAllOn(c, o, cl) ==
    IF cl THEN <<c, o, cl>>
    ELSE <<[n \in Names |-> IF Dev = "unloadallkeepsnodef" /\ c[n] = NoDef THEN NoDef ELSE Unknown],
           FALSE, TRUE>>

SetUA(x) == cache' = x[1] /\ other' = x[2] /\ cleared' = x[3]

\* Global.Unload(name)
UnloadOn(c, n) ==
    [c EXCEPT ![n] = IF Dev = "unloadkeepsnodef" /\ @ = NoDef THEN NoDef ELSE Unknown]

\* ---------------------------------------------------------------- actions
\* a library editor saves a record: row change of the library table (its own trigger name is
\* looked up), optionally followed by Unload("Trigger_<t>")
EditEffects(lib, t, unload) ==
    /\ cache' = (IF unload THEN UnloadOn(FindCache(cache, lib), t) ELSE FindCache(cache, lib))
    /\ cleared' = FindCleared(cache, cleared, lib)
    /\ held' = IF unload THEN Invalidate(held, t) ELSE held
    /\ calls' = <<>>
    /\ UNCHANGED <<libs, other, disabled, ok>>

AddLibRecord(lib, t, unload) ==
    /\ recs[lib, t] = 0 /\ hi[lib, t] < MaxVer
    /\ hi' = [hi EXCEPT ![lib, t] = @ + 1]
    /\ recs' = [recs EXCEPT ![lib, t] = hi[lib, t] + 1]
    /\ EditEffects(lib, t, unload)

UpdateLibRecord(lib, t, unload) ==
    /\ recs[lib, t] # 0 /\ hi[lib, t] < MaxVer
    /\ hi' = [hi EXCEPT ![lib, t] = @ + 1]
    /\ recs' = [recs EXCEPT ![lib, t] = hi[lib, t] + 1]
    /\ EditEffects(lib, t, unload)

DeleteLibRecord(lib, t, unload) ==
    /\ recs[lib, t] # 0
    /\ recs' = [recs EXCEPT ![lib, t] = 0]
    /\ EditEffects(lib, t, unload)
    /\ UNCHANGED hi

UnloadName(t) ==
    /\ cache' = UnloadOn(cache, t)
    /\ held' = Invalidate(held, t)
    /\ calls' = <<>>
    /\ UNCHANGED <<recs, hi, libs, other, cleared, disabled, ok>>

UnloadAll ==
    /\ SetUA(UnloadAllOn(cache, other, cleared))
    /\ held' = NoHeld(Tables)
    /\ calls' = <<>>
    /\ UNCHANGED <<recs, hi, libs, disabled, ok>>

Use(lib) ==
    /\ libs' = AfterUse(libs, lib)
    /\ IF UseOK(libs, lib)
       THEN /\ SetUA(IF Dev = "usenounload" THEN <<cache, other, cleared>> ELSE UnloadAllOn(cache, other, cleared))
            /\ held' = NoHeld(Tables)
       ELSE UNCHANGED <<cache, other, cleared, held>>
    /\ calls' = <<>>
    /\ UNCHANGED <<recs, hi, disabled, ok>>

Unuse(lib) ==
    /\ SetUA(UnloadAllOn(cache, other, cleared))     \* before and regardless of the result
    /\ libs' = AfterUnuse(libs, lib, StdLib)
    /\ held' = IF UnuseOK(libs, lib, StdLib) THEN NoHeld(Tables) ELSE held
    /\ calls' = <<>>
    /\ UNCHANGED <<recs, hi, disabled, ok>>

LoadOther ==
    /\ ~other
    /\ other' = TRUE /\ cleared' = FALSE
    /\ calls' = <<>>
    /\ UNCHANGED <<recs, hi, libs, cache, disabled, held, ok>>

Disable(t) ==
    /\ disabled[t] < MaxDisable
    /\ disabled' = [disabled EXCEPT ![t] = @ + 1]
    /\ calls' = <<>>
    /\ UNCHANGED <<recs, hi, libs, cache, other, cleared, held, ok>>

Enable(t) ==
    /\ disabled[t] > 0
    /\ disabled' = [disabled EXCEPT ![t] = @ - 1]
    /\ calls' = <<>>
    /\ UNCHANGED <<recs, hi, libs, cache, other, cleared, held, ok>>

RowChange(t) ==
    LET en == disabled[t] = 0
        cur == Resolve(recs, libs, t)            \* what the documentation says is current
        d == FindResult(cache, t)                \* what the code finds
    IN /\ IF en
          THEN /\ cache' = FindCache(cache, t)
               /\ cleared' = FindCleared(cache, cleared, t)
               /\ calls' = IF d = None THEN <<>> ELSE <<d>>
          ELSE /\ calls' = <<>>
               /\ UNCHANGED <<cache, cleared>>
       /\ ok' = RowOK(held[t], cur, en, calls')
       /\ held' = [held EXCEPT ![t] = HeldAfterRow(held[t], cur, en, calls')]
       /\ UNCHANGED <<recs, hi, libs, other, disabled>>

Next ==
    \/ \E lib \in Libs, t \in Tables, u \in BOOLEAN :
          AddLibRecord(lib, t, u) \/ UpdateLibRecord(lib, t, u) \/ DeleteLibRecord(lib, t, u)
    \/ \E t \in Tables : UnloadName(t) \/ RowChange(t) \/ Disable(t) \/ Enable(t)
    \/ \E lib \in Libs : Use(lib) \/ Unuse(lib)
    \/ UnloadAll
    \/ LoadOther

Spec == Init /\ [][Next]_vars

\* ---------------------------------------------------------------- properties
\* C44 for library-defined triggers: every row change of a table whose trigger is enabled calls
\* exactly the definition the lookup rules promise (exactly once), none if there is none / disabled
Promised == ok

\* freshness: what is cached is always something the rules still allow
CacheAllowed ==
    \A t \in Tables : cache[t].k # "unknown" => cache[t].d \in Allowed(held[t], Resolve(recs, libs, t))

\* the meaning of g.cleared: nothing is cached
ClearedSound == cleared => (~other /\ \A n \in Names : cache[n] = Unknown)
=============================================================================
