---------------------------- MODULE TrigLibRules ----------------------------
(* C44, library-defined triggers: what the documented library semantics and  *)
(* the property promise about WHICH definition of Trigger_<table> a row       *)
(* change runs.  Pure operators (no variables): shared by the design model   *)
(* TrigLib.tla (exhaustive TLC) and by the trace spec TraceTrigLib.tla        *)
(* (validation of executions of the real code) - one source of truth.         *)
(*                                                                            *)
(* Documented semantics (Suneido "Libraries", Use/Unuse/Unload):              *)
(*  - a global name is looked up in the libraries in use; if several define   *)
(*    it the most recently used library (the last of Libraries()) wins;       *)
(*  - loaded definitions (and the fact that a name has none) are cached;      *)
(*    changing a library record does NOT by itself invalidate the cache, so   *)
(*    the definition loaded earlier may legitimately stay in use;             *)
(*  - Use(lib) that succeeds, Unuse(lib) that succeeds, Unload(name) and      *)
(*    Unload() promise that the next reference sees the current definition.   *)
(* Nothing more is required here: an implementation may drop its cache at any *)
(* other moment (then it must load the current definition).                   *)
EXTENDS Naturals, Sequences, FiniteSets

CONSTANT NoLib       \* "library" of the absent definition

\* a definition of Trigger_<t> is identified by the library record it was compiled from
None == [lib |-> NoLib, ver |-> 0]
DefOf(lib, ver) == [lib |-> lib, ver |-> ver]

\* rc[lib, t] = version of the record Trigger_<t> in library lib, 0 = no record
\* lb = libraries in use, in the order of Libraries() (stdlib first, most recently used last)
Resolve(rc, lb, t) ==
    LET idx == {i \in 1..Len(lb) : rc[lb[i], t] # 0}
    IN IF idx = {} THEN None
       ELSE LET i == CHOOSE i \in idx : \A j \in idx : j <= i
            IN DefOf(lb[i], rc[lb[i], t])

\* ---- Use / Unuse (dbms Use / Unuse: stdlib can not be removed, no duplicates)
InUse(lb, lib) == \E i \in 1..Len(lb) : lb[i] = lib
UseOK(lb, lib) == ~InUse(lb, lib)
AfterUse(lb, lib) == IF UseOK(lb, lib) THEN Append(lb, lib) ELSE lb
UnuseOK(lb, lib, std) == lib # std /\ InUse(lb, lib)
AfterUnuse(lb, lib, std) == IF UnuseOK(lb, lib, std) THEN SelectSeq(lb, LAMBDA x : x # lib) ELSE lb

\* ---- what may still be cached
\* held[t] = the definitions (or None = "known to have none") that a lookup of Trigger_<t>
\* may still have cached since the last promised invalidation of that name
NoHeld(tables) == [t \in tables |-> {}]
Invalidate(held, t) == [held EXCEPT ![t] = {}]

\* the outcomes of a lookup the semantics allow: something still cached, or the current definition
Allowed(h, cur) == h \cup {cur}

\* obs = the definitions called for ONE row change, in call order
\* en  = the trigger of the table is enabled (disable count 0)
RowOK(h, cur, en, obs) ==
    IF ~en THEN obs = <<>>
    ELSE \E d \in Allowed(h, cur) : obs = (IF d = None THEN <<>> ELSE <<d>>)

\* after the row change: an enabled one looked the name up, its result is what is cached now;
\* a disabled one makes no promise either way (the code does not look the name up; an
\* implementation that does would cache the current definition)
HeldAfterRow(h, cur, en, obs) ==
    IF en THEN {IF obs = <<>> THEN None ELSE obs[1]}
    ELSE h \cup {cur}
=============================================================================
