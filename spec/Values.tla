------------------------------- MODULE Values -------------------------------
(* Abstract Suneido values, the total order on them, and evaluation of        *)
(* operators on them (core/value.go, core/ops.go, core/su*.go,                *)
(* compile/ast/expr.go).  Used by C28 (order / equality / hash / member       *)
(* lookup), C30 (constant folding) and C25 (query expressions).               *)
(*                                                                            *)
(* TLC has 32-bit integers and cannot order strings, so                       *)
(*   numbers  are structural, exactly like util/dnum: sign, exponent and a    *)
(*            digit sequence:  value = sign * 0.d1d2...dk * 10^nx,            *)
(*            d1 # 0, dk # 0 (no trailing zeros); zero is (0, 0, <<>>),       *)
(*            +-infinity is (+-2, 0, <<>>);                                   *)
(*   strings  are sequences of byte values 0..255;                            *)
(*   dates    are (yyyymmdd, hhmmssmmm, extra) - extra # 0 is a timestamp;    *)
(*   objects  are a list (sequence of values) plus named members (sequence    *)
(*            of <<key, value>> pairs with pairwise unequal keys).            *)
(* Every type uses its own payload field names so that TLC never has to       *)
(* compare payloads of different types.                                       *)
EXTENDS Integers, Sequences, FiniteSets, TLC, Bitwise

Bool(b)        == [t |-> "bool", b |-> b]
Num(s, x, d)   == [t |-> "num", ns |-> s, nx |-> x, nd |-> d]
Str(c)         == [t |-> "str", c |-> c]
Date(d, tm, x) == [t |-> "date", dd |-> d, dt |-> tm, dx |-> x]
Obj(l, n)      == [t |-> "obj", l |-> l, n |-> n]

True  == Bool(TRUE)
False == Bool(FALSE)
Zero  == Num(0, 0, <<>>)
EmptyStr == Str(<<>>)

\* rank of the type in the order: boolean < number < string < date < object
TypeRank(v) == CASE v.t = "bool" -> 0 [] v.t = "num" -> 1 [] v.t = "str" -> 2
                 [] v.t = "date" -> 3 [] v.t = "obj" -> 4

Sgn(i) == IF i < 0 THEN -1 ELSE IF i > 0 THEN 1 ELSE 0
Min2(a, b) == IF a <= b THEN a ELSE b
Max2(a, b) == IF a >= b THEN a ELSE b

\* lexicographic comparison of two sequences of integers (a proper prefix is smaller).
\* Short sequences are scanned; in long ones the first difference is located by bisection
\* (native SubSeq equality) so that long strings need neither deep recursion nor
\* quadratic work.
RECURSIVE LexFrom(_, _, _, _), FirstDiff(_, _, _, _)
LexFrom(a, b, i, n) ==          \* a and b agree before i; n = length of the shorter
    IF i > n THEN (IF Len(a) < Len(b) THEN -1 ELSE IF Len(a) > Len(b) THEN 1 ELSE 0)
    ELSE IF a[i] < b[i] THEN -1
    ELSE IF a[i] > b[i] THEN 1
    ELSE LexFrom(a, b, i + 1, n)
FirstDiff(a, b, lo, hi) ==      \* a and b agree before lo and differ somewhere in lo..hi
    IF lo = hi THEN lo
    ELSE LET mid == (lo + hi) \div 2
         IN IF SubSeq(a, lo, mid) = SubSeq(b, lo, mid) THEN FirstDiff(a, b, mid + 1, hi)
            ELSE FirstDiff(a, b, lo, mid)
LexCmp(a, b) ==
    IF a = b THEN 0
    ELSE LET n == Min2(Len(a), Len(b))
         IN IF n <= 24 THEN LexFrom(a, b, 1, n)
            ELSE IF SubSeq(a, 1, n) = SubSeq(b, 1, n) THEN (IF Len(a) < Len(b) THEN -1 ELSE 1)
            ELSE LET i == FirstDiff(a, b, 1, n) IN IF a[i] < b[i] THEN -1 ELSE 1

\* numbers: sign, then (for finite non-zero numbers of equal sign) exponent, then digits;
\* zero and the infinities have nx = 0, nd = <<>>, so they fall out as equal
NumCmp(a, b) ==
    IF a.ns # b.ns THEN (IF a.ns < b.ns THEN -1 ELSE 1)
    ELSE IF a.nx # b.nx THEN (IF (a.nx < b.nx) = (a.ns > 0) THEN -1 ELSE 1)
    ELSE IF a.nd = b.nd THEN 0
    ELSE IF a.ns > 0 THEN LexCmp(a.nd, b.nd) ELSE LexCmp(b.nd, a.nd)

DateCmp(a, b) ==
    IF a.dd # b.dd THEN (IF a.dd < b.dd THEN -1 ELSE 1)
    ELSE IF a.dt # b.dt THEN (IF a.dt < b.dt THEN -1 ELSE 1)
    ELSE IF a.dx # b.dx THEN (IF a.dx < b.dx THEN -1 ELSE 1)
    ELSE 0

(* The order.  Objects compare by their LIST members only, lexicographically, *)
(* nested objects recursively (core/suobject.go deepCompare: "compares only   *)
(* list values (not named)"); so Cmp is a total PREorder on objects.          *)
RECURSIVE Cmp(_, _), ListCmp(_, _, _)
Cmp(a, b) ==
    IF a.t # b.t THEN (IF TypeRank(a) < TypeRank(b) THEN -1 ELSE 1)
    ELSE IF a.t = "num"  THEN NumCmp(a, b)
    ELSE IF a.t = "str"  THEN LexCmp(a.c, b.c)
    ELSE IF a.t = "obj"  THEN ListCmp(a.l, b.l, 1)
    ELSE IF a.t = "date" THEN DateCmp(a, b)
    ELSE (IF a.b = b.b THEN 0 ELSE IF b.b THEN -1 ELSE 1)
\* lists: first differing element decides, a proper prefix is smaller
ListCmp(a, b, i) ==
    IF i > Len(a) THEN (IF i > Len(b) THEN 0 ELSE -1)
    ELSE IF i > Len(b) THEN 1
    ELSE LET c == Cmp(a[i], b[i]) IN IF c # 0 THEN c ELSE ListCmp(a, b, i + 1)

(* Equality (`is').  Scalars: same type and same (canonical) payload.         *)
(* Objects: same list (element-wise equal) and the same named members         *)
(* (core/deepequal.go).  An object and a record with the same members are     *)
(* equal (order[types.Record] = types.Object).                                *)
RECURSIVE Eq(_, _)
Eq(a, b) ==
    /\ a.t = b.t
    /\ IF a.t # "obj" THEN a = b      \* canonical forms: equal scalars are identical
       ELSE
              /\ Len(a.l) = Len(b.l)
              /\ \A i \in 1..Len(a.l) : Eq(a.l[i], b.l[i])
              /\ Len(a.n) = Len(b.n)
              /\ \A i \in 1..Len(a.n) : \E j \in 1..Len(b.n) :
                    Eq(a.n[i][1], b.n[j][1]) /\ Eq(a.n[i][2], b.n[j][2])

\* well-formedness of the representation (canonical forms)
RECURSIVE WF(_)
WF(v) ==
    CASE v.t = "bool" -> v.b \in BOOLEAN
      [] v.t = "num"  ->
            /\ v.ns \in {-2, -1, 0, 1, 2}
            /\ v.ns \in {-2, 0, 2} => (v.nx = 0 /\ v.nd = <<>>)
            /\ v.ns \in {-1, 1} =>
                 /\ Len(v.nd) \in 1..19 /\ v.nx \in -127..127
                 /\ \A i \in 1..Len(v.nd) : v.nd[i] \in 0..9
                 /\ v.nd[1] # 0 /\ v.nd[Len(v.nd)] # 0
      [] v.t = "str"  -> \A i \in 1..Len(v.c) : v.c[i] \in 0..255
      [] v.t = "date" -> v.dd \in 0..30000101 /\ v.dt \in 0..235959999 /\ v.dx \in 0..255
      [] v.t = "obj"  ->
            /\ \A i \in 1..Len(v.l) : WF(v.l[i])
            /\ \A i \in 1..Len(v.n) : WF(v.n[i][1]) /\ WF(v.n[i][2])
            /\ \A i, j \in 1..Len(v.n) : i # j => ~Eq(v.n[i][1], v.n[j][1])


-----------------------------------------------------------------------------
(***************************************************************************)
(* Evaluation of operators (core/ops.go, core/interp.go,                   *)
(* compile/ast/expr.go).                                                    *)
(*                                                                         *)
(* An expression is a record  [op |-> "x", i |-> k]   (operand k of env)    *)
(* or [op |-> name, a |-> <<sub-expressions>>] with name one of             *)
(*   neg pos not bitnot                       unary - + not ~               *)
(*   is isnt lt lte gt gte                    comparisons (total order)     *)
(*   add sub mul div mod lshift rshift bitor bitand bitxor cat              *)
(*   and or if in                             short-circuit / lazy          *)
(*   isnum isstr isdate                       Number? String? Date?         *)
(*   match nomatch                            (not modelled: unknown)       *)
(* The result is a value, an exception CLASS ("type": operand of the wrong  *)
(* type, "arith": integer division by zero / negative shift count), or      *)
(* unknown when the operands leave the domain modelled here:                *)
(*   numbers with at most 9 significant digits and a small exponent         *)
(*   (exact in 32-bit TLC arithmetic and in util/dnum), non-negative        *)
(*   operands of the bit operators, divisions that terminate, results of    *)
(*   the same kind.  Outside it the implementations are only required to    *)
(*   agree with each other (TraceFold / TraceQExpr).                        *)
(***************************************************************************)

RV(v) == [k |-> "v", v |-> v, c |-> ""]
RX(c) == [k |-> "x", v |-> False, c |-> c]
RU    == [k |-> "u", v |-> False, c |-> ""]
TypeErr  == RX("type")
ArithErr == RX("arith")

\* two results are the same outcome
SameRes(r, s) ==
    /\ r.k = s.k
    /\ r.c = s.c
    /\ r.k = "v" => Eq(r.v, s.v)

---------------------------------------------------------------------------
(* small decimal arithmetic: value = m * 10^e with |m| < 10^9 *)

RECURSIVE DigVal(_, _), NDig(_), DigitsOf(_), StripZ(_, _)
DigVal(d, i) == IF i = 0 THEN 0 ELSE DigVal(d, i - 1) * 10 + d[i]
NDig(n) == IF n < 10 THEN 1 ELSE 1 + NDig(n \div 10)              \* n >= 0
DigitsOf(n) == IF n < 10 THEN <<n>> ELSE Append(DigitsOf(n \div 10), n % 10)
StripZ(m, e) == IF m % 10 = 0 THEN StripZ(m \div 10, e + 1) ELSE <<m, e>>   \* m > 0

IsSmall(v) == /\ v.t = "num"
              /\ \/ v.ns = 0
                 \/ /\ v.ns \in {-1, 1} /\ Len(v.nd) <= 9
                    /\ (v.nx - Len(v.nd)) \in -12..9
AbsM(v) == IF v.ns = 0 THEN 0 ELSE DigVal(v.nd, Len(v.nd))        \* magnitude of the mantissa
Exp10(v) == IF v.ns = 0 THEN 0 ELSE v.nx - Len(v.nd)
\* the number s * am * 10^e  (am >= 0)
FromME(s, am, e) ==
    IF am = 0 \/ s = 0 THEN Zero
    ELSE LET p == StripZ(am, e)
             d == DigitsOf(p[1])
         IN Num(s, p[2] + Len(d), d)
Pow10(n) == 10 ^ n
Fits(am, shift) == am = 0 \/ NDig(am) + shift <= 9

\* Two numbers agree up to rounding: same sign and |a - b| < 10^(X-13) where X is the
\* larger exponent (relative difference below about 1e-12).  Used only where the exact
\* result is outside the modelled domain (inexact division, more than 16 digits), where
\* re-association by the folder legitimately changes the last digits.
\* The digits are placed in 18 decimal places below 10^X and compared as two 9-digit limbs.
Limb(d, off, from) ==      \* value of places from..from+8 of (off zeros, then the digits d, then zeros)
    DigVal([i \in 1..9 |-> LET k == from + i - 1 - off IN IF k >= 1 /\ k <= Len(d) THEN d[k] ELSE 0], 9)
NumClose(a, b) ==
    /\ a.ns = b.ns
    /\ \/ a.ns \in {0, 2, -2}
       \/ LET X == Max2(a.nx, b.nx)
              oa == X - a.nx
              ob == X - b.nx
          IN /\ oa <= 1 /\ ob <= 1
             /\ LET dh == Limb(a.nd, oa, 1) - Limb(b.nd, ob, 1)
                    dl == Limb(a.nd, oa, 10) - Limb(b.nd, ob, 10)
                IN /\ dh \in {-1, 0, 1}
                   /\ LET t == dh * 1000000000 + dl IN t > -100000 /\ t < 100000

\* conversion of an operand to a number (core.ToDnum): false and "" are 0
IsFalseOrEmpty(v) == (v.t = "bool" /\ ~v.b) \/ (v.t = "str" /\ v.c = <<>>)
ToNumR(v) ==
    IF v.t = "num" THEN RV(v)
    ELSE IF IsFalseOrEmpty(v) THEN RV(Zero)
    ELSE TypeErr

\* conversion to an integer (core.ToInt): result [k, n]; k = "v" ok, "x" type error, "u" unknown
IntR(v) ==
    IF IsFalseOrEmpty(v) THEN [k |-> "v", n |-> 0]
    ELSE IF v.t # "num" THEN [k |-> "x", n |-> 0]
    ELSE IF v.ns = 0 THEN [k |-> "v", n |-> 0]
    ELSE IF v.ns \in {2, -2} THEN [k |-> "x", n |-> 0]
    ELSE IF Len(v.nd) > v.nx THEN [k |-> "x", n |-> 0]           \* has a fractional part
    ELSE IF v.nx > 19 THEN [k |-> "x", n |-> 0]                  \* beyond int64
    ELSE IF v.nx > 9 THEN [k |-> "u", n |-> 0]                   \* beyond the modelled range
    ELSE [k |-> "v", n |-> v.ns * DigVal(v.nd, Len(v.nd)) * Pow10(v.nx - Len(v.nd))]

IntV(n) == IF n = 0 THEN Zero ELSE FromME(IF n < 0 THEN -1 ELSE 1, IF n < 0 THEN -n ELSE n, 0)

AddNum(a, b, sb) ==      \* a + sb * b
    IF ~IsSmall(a) \/ ~IsSmall(b) THEN RU
    ELSE LET e == Min2(Exp10(a), Exp10(b))
             sa == Exp10(a) - e
             sh == Exp10(b) - e
         IN IF ~Fits(AbsM(a), sa) \/ ~Fits(AbsM(b), sh) THEN RU
            ELSE LET sum == a.ns * AbsM(a) * Pow10(sa) + sb * b.ns * AbsM(b) * Pow10(sh)
                 IN RV(FromME(Sgn(sum), IF sum < 0 THEN -sum ELSE sum, e))

MulNum(a, b) ==
    IF a.ns = 0 \/ b.ns = 0 THEN
        (IF (a.ns \in {2, -2}) \/ (b.ns \in {2, -2}) THEN RU ELSE RV(Zero))
    ELSE IF ~IsSmall(a) \/ ~IsSmall(b) THEN RU
    ELSE IF NDig(AbsM(a)) + NDig(AbsM(b)) > 9 THEN RU
    ELSE RV(FromME(a.ns * b.ns, AbsM(a) * AbsM(b), Exp10(a) + Exp10(b)))

DivNum(a, b) ==
    IF a.ns \in {2, -2} \/ b.ns \in {2, -2} THEN RU
    ELSE IF a.ns = 0 THEN RV(Zero)                                 \* 0 / anything (also 0 / 0) is 0
    ELSE IF b.ns = 0 THEN RV(Num(2 * a.ns, 0, <<>>))               \* x / 0 is +-infinity, not an exception
    ELSE IF ~IsSmall(a) \/ ~IsSmall(b) THEN RU
    ELSE LET ma == AbsM(a)
             mb == AbsM(b)
             K == {k \in 0..8 : Fits(ma, k) /\ (ma * Pow10(k)) % mb = 0}
         IN IF K = {} THEN RU                                      \* does not terminate within 9 digits
            ELSE LET k == CHOOSE k \in K : \A j \in K : k <= j
                 IN RV(FromME(a.ns * b.ns, (ma * Pow10(k)) \div mb, Exp10(a) - Exp10(b) - k))

\* display of a number as the language converts it to a string (dnum.String / Itoa)
DigitChars(d) == [i \in 1..Len(d) |-> 48 + d[i]]
Zeros(n) == [i \in 1..n |-> 48]
NumStrR(v) ==
    IF v.ns = 0 THEN RV(Str(<<48>>))
    ELSE IF v.ns \in {2, -2} THEN RU
    ELSE LET nd == Len(v.nd)
             sign == IF v.ns < 0 THEN <<45>> ELSE <<>>
         IN IF v.nx >= nd /\ v.nx <= 16 THEN RV(Str(sign \o DigitChars(v.nd) \o Zeros(v.nx - nd)))
            ELSE IF v.nx <= 0 /\ v.nx >= -7 THEN RV(Str(sign \o <<46>> \o Zeros(-v.nx) \o DigitChars(v.nd)))
            ELSE IF v.nx > 0 /\ v.nx < nd
                 THEN RV(Str(sign \o DigitChars(SubSeq(v.nd, 1, v.nx)) \o <<46>> \o DigitChars(SubSeq(v.nd, v.nx + 1, nd))))
            ELSE RU                                                \* scientific notation: not modelled
\* core.AsStr
AsStrR(v) ==
    IF v.t = "str" THEN RV(v)
    ELSE IF v.t = "bool" THEN RV(Str(IF v.b THEN <<116, 114, 117, 101>> ELSE <<102, 97, 108, 115, 101>>))
    ELSE IF v.t = "num" THEN NumStrR(v)
    ELSE TypeErr

MathOps == {"neg", "pos", "bitnot", "add", "sub", "mul", "div", "mod", "lshift", "rshift",
            "bitor", "bitand", "bitxor"}
CmpOps  == {"is", "isnt", "lt", "lte", "gt", "gte"}

BoolV(b) == RV(Bool(b))

\* strict operators applied to operand VALUES (all operands already evaluated, left to right)
Apply1(op, x) ==
    CASE op = "not" -> IF x.t = "bool" THEN BoolV(~x.b) ELSE TypeErr
      [] op = "pos" -> IF x.t = "num" THEN RV(x) ELSE ToNumR(x)
      [] op = "neg" -> LET n == ToNumR(x)
                       IN IF n.k # "v" THEN n
                          ELSE RV(IF n.v.ns = 0 THEN Zero ELSE Num(-n.v.ns, n.v.nx, n.v.nd))
      [] op = "bitnot" -> LET i == IntR(x)
                          IN IF i.k = "x" THEN TypeErr ELSE IF i.k = "u" THEN RU ELSE RV(IntV(-i.n - 1))
      [] op = "isnum"  -> BoolV(x.t = "num")
      [] op = "isstr"  -> BoolV(x.t = "str")
      [] op = "isdate" -> BoolV(x.t = "date")

IntOp(op, x, y) ==
    LET i == IntR(x)
        j == IntR(y)
    IN IF i.k = "x" \/ (i.k = "v" /\ j.k = "x") THEN TypeErr
       ELSE IF i.k = "u" \/ j.k = "u" THEN RU
       ELSE LET a == i.n
                b == j.n
            IN CASE op = "mod" -> IF b = 0 THEN ArithErr
                                  ELSE LET m == (IF a < 0 THEN -a ELSE a) % (IF b < 0 THEN -b ELSE b)
                                       IN RV(IntV(IF a < 0 THEN -m ELSE m))    \* truncated, sign of the dividend
                 [] op = "lshift" -> IF b < 0 THEN ArithErr
                                     ELSE IF a = 0 THEN RV(Zero)
                                     ELSE IF b > 20 \/ NDig(IF a < 0 THEN -a ELSE a) > 3 THEN RU
                                     ELSE RV(IntV(a * (2 ^ b)))
                 [] op = "rshift" -> IF b < 0 THEN ArithErr
                                     ELSE IF a < 0 THEN RU                      \* unsigned 64-bit shift
                                     ELSE IF b > 30 THEN RV(Zero)
                                     ELSE RV(IntV(a \div (2 ^ b)))
                 [] op \in {"bitor", "bitand", "bitxor"} ->
                        IF a < 0 \/ b < 0 THEN RU                               \* two's complement: not modelled
                        ELSE RV(IntV(IF op = "bitor" THEN a | b ELSE IF op = "bitand" THEN a & b ELSE a ^^ b))

\* Order on the STORED (packed) encodings, used by the query engine's optimized comparison:
\* the empty string packs to the empty byte string and therefore sorts before everything,
\* also before booleans and numbers (in the value order it comes after them).  This is the
\* documented exception of property C25; everything else is ordered as by Cmp.
IsEmptyStr(v) == v.t = "str" /\ v.c = <<>>
CmpRaw(a, b) ==
    IF IsEmptyStr(a) THEN (IF IsEmptyStr(b) THEN 0 ELSE -1)
    ELSE IF IsEmptyStr(b) THEN 1
    ELSE Cmp(a, b)

\* raw = TRUE: this comparison is done on the stored encodings (named relaxation, C25 only)
Apply2(op, x, y, raw) ==
    CASE op = "is"   -> BoolV(Eq(x, y))
      [] op = "isnt" -> BoolV(~Eq(x, y))
      [] op = "lt"   -> BoolV((IF raw THEN CmpRaw(x, y) ELSE Cmp(x, y)) < 0)
      [] op = "lte"  -> BoolV((IF raw THEN CmpRaw(x, y) ELSE Cmp(x, y)) <= 0)
      [] op = "gt"   -> BoolV((IF raw THEN CmpRaw(x, y) ELSE Cmp(x, y)) > 0)
      [] op = "gte"  -> BoolV((IF raw THEN CmpRaw(x, y) ELSE Cmp(x, y)) >= 0)
      [] op \in {"add", "sub", "mul", "div"} ->
            LET a == ToNumR(x)
                b == ToNumR(y)
            IN IF a.k # "v" THEN a ELSE IF b.k # "v" THEN b
               ELSE (CASE op = "add" -> AddNum(a.v, b.v, 1)
                       [] op = "sub" -> AddNum(a.v, b.v, -1)
                       [] op = "mul" -> MulNum(a.v, b.v)
                       [] op = "div" -> DivNum(a.v, b.v))
      [] op \in {"mod", "lshift", "rshift", "bitor", "bitand", "bitxor"} -> IntOp(op, x, y)
      [] op = "cat" ->
            LET s1 == AsStrR(x)
                s2 == AsStrR(y)
            IN IF s1.k # "v" THEN s1 ELSE IF s2.k # "v" THEN s2 ELSE RV(Str(s1.v.c \o s2.v.c))
      [] op \in {"match", "nomatch"} -> RU

\* EvalP(e, env, p, R): p is the path of e in the whole expression (sequence of operand
\* positions), R the set of paths of comparison nodes that are evaluated on stored
\* encodings (empty for the language semantics).
RECURSIVE EvalP(_, _, _, _), EvalInP(_, _, _, _, _, _)
EvalP(e, env, p, R) ==
    IF e.op = "x" THEN RV(env[e.i])
    ELSE IF e.op \in {"and", "or"} THEN
        \* left to right; the right operand is evaluated only if the left one does not decide;
        \* every evaluated operand must be a boolean
        LET l == EvalP(e.a[1], env, Append(p, 1), R)
        IN IF l.k # "v" THEN l
           ELSE IF l.v.t # "bool" THEN TypeErr
           ELSE IF l.v.b = (e.op = "or") THEN l
           ELSE LET r == EvalP(e.a[2], env, Append(p, 2), R)
                IN IF r.k # "v" THEN r ELSE IF r.v.t # "bool" THEN TypeErr ELSE r
    ELSE IF e.op = "if" THEN
        LET c == EvalP(e.a[1], env, Append(p, 1), R)
        IN IF c.k # "v" THEN c
           ELSE IF c.v.t # "bool" THEN TypeErr
           ELSE IF c.v.b THEN EvalP(e.a[2], env, Append(p, 2), R) ELSE EvalP(e.a[3], env, Append(p, 3), R)
    ELSE IF e.op = "in" THEN
        LET x == EvalP(e.a[1], env, Append(p, 1), R)
        IN IF x.k # "v" THEN x ELSE EvalInP(x.v, e.a, 2, env, p, R)
    ELSE IF Len(e.a) = 1 THEN
        LET x == EvalP(e.a[1], env, Append(p, 1), R)
        IN IF x.k # "v" THEN x ELSE Apply1(e.op, x.v)
    ELSE
        LET x == EvalP(e.a[1], env, Append(p, 1), R)
        IN IF x.k # "v" THEN x
           ELSE LET y == EvalP(e.a[2], env, Append(p, 2), R)
                IN IF y.k # "v" THEN y ELSE Apply2(e.op, x.v, y.v, p \in R)
\* x in (a[i], a[i+1], ...): members are evaluated in order until one is equal
EvalInP(x, a, i, env, p, R) ==
    IF i > Len(a) THEN BoolV(FALSE)
    ELSE LET y == EvalP(a[i], env, Append(p, i), R)
         IN IF y.k # "v" THEN y
            ELSE IF Eq(x, y.v) THEN BoolV(TRUE)
            ELSE EvalInP(x, a, i + 1, env, p, R)

\* the language semantics
Eval(e, env) == EvalP(e, env, <<>>, {})

\* Query engine: each order comparison may be evaluated on values or on stored encodings
\* (which one depends on the strategy chosen: index range, raw filter, value filter), so
\* the engine may produce any of these results; they differ only where an empty string
\* meets a boolean or a number (the documented exception).
RECURSIVE OrderNodes(_, _)
OrderNodes(e, p) ==
    IF e.op = "x" THEN {}
    ELSE (IF e.op \in {"lt", "lte", "gt", "gte"} THEN {p} ELSE {})
         \cup UNION {OrderNodes(e.a[i], Append(p, i)) : i \in 1..Len(e.a)}
EvalSet(e, env) == {EvalP(e, env, <<>>, R) : R \in SUBSET OrderNodes(e, <<>>)}

---------------------------------------------------------------------------
(* Which operands are read, as a sequence of operand indexes in left-to-right *)
(* order (only meaningful when Eval gives a value: no exception cuts it       *)
(* short).  Folding must not change it for operands that are not constants:   *)
(* reading an operand may have side effects.                                  *)
RECURSIVE EvalSeq(_, _), EvalSeqIn(_, _, _, _)
EvalSeq(e, env) ==
    IF e.op = "x" THEN <<e.i>>
    ELSE IF e.op \in {"and", "or"} THEN
        LET l == Eval(e.a[1], env)
        IN IF l.k = "v" /\ l.v.t = "bool" /\ l.v.b = (e.op = "or") THEN EvalSeq(e.a[1], env)
           ELSE EvalSeq(e.a[1], env) \o EvalSeq(e.a[2], env)
    ELSE IF e.op = "if" THEN
        LET c == Eval(e.a[1], env)
        IN EvalSeq(e.a[1], env) \o
           (IF c.k = "v" /\ c.v.t = "bool" THEN EvalSeq(e.a[IF c.v.b THEN 2 ELSE 3], env) ELSE <<>>)
    ELSE IF e.op = "in" THEN
        LET x == Eval(e.a[1], env)
        IN EvalSeq(e.a[1], env) \o (IF x.k = "v" THEN EvalSeqIn(x.v, e.a, 2, env) ELSE <<>>)
    ELSE IF Len(e.a) = 1 THEN EvalSeq(e.a[1], env)
    ELSE EvalSeq(e.a[1], env) \o EvalSeq(e.a[2], env)
EvalSeqIn(x, a, i, env) ==
    IF i > Len(a) THEN <<>>
    ELSE LET y == Eval(a[i], env)
         IN EvalSeq(a[i], env) \o
            (IF y.k = "v" /\ ~Eq(x, y.v) THEN EvalSeqIn(x, a, i + 1, env) ELSE <<>>)
\* number of occurrences of n in the sequence s
Count(s, n) == Cardinality({p \in 1..Len(s) : s[p] = n})

---------------------------------------------------------------------------
(* Compile-time diagnostics.  The compiler rejects a program (instead of     *)
(* folding) when a constant operand is of the wrong type for its operator:   *)
(* arithmetic on a literal that is not a number ("cannot do math on String   *)
(* literal" - also for false and "" which would convert to 0 at run time),   *)
(* a non-integer in a bit operation, a non-boolean under and / or / not /    *)
(* ?:, a date or object under $, or when a constant subexpression raises an  *)
(* exception when it is folded.  These are static checks on literals, not    *)
(* folding: a compile-time error is accepted exactly when such an operand    *)
(* exists.  lit[i] says whether operand i is a literal (or a propagated      *)
(* single-assignment local) in the compiled form.                            *)
OperandOK(op, pos, v) ==
    IF op \in {"neg", "pos", "add", "sub", "mul", "div"} THEN v.t = "num"
    ELSE IF op \in {"bitnot", "mod", "lshift", "rshift", "bitor", "bitand", "bitxor"}
         THEN v.t = "num" /\ IntR(v).k # "x"
    ELSE IF op \in {"and", "or", "not"} THEN v.t = "bool"
    ELSE IF op = "if" THEN (pos # 1 \/ v.t = "bool")
    ELSE IF op = "cat" THEN v.t \in {"bool", "num", "str"}
    ELSE TRUE

\* does the sub-expression fold to a constant at compile time: all its operands are literals,
\* or a literal decides a short-circuit operator / selects a constant branch
RECURSIVE AllLit(_, _), CF(_, _, _), CFIn(_, _, _, _, _), LitDiag(_, _, _)
AllLit(e, lit) == IF e.op = "x" THEN lit[e.i] ELSE \A i \in 1..Len(e.a) : AllLit(e.a[i], lit)
CF(e, env, lit) ==
    IF e.op = "x" THEN lit[e.i]
    ELSE IF e.op \in {"and", "or"} THEN
        /\ CF(e.a[1], env, lit)
        /\ LET l == Eval(e.a[1], env)
           IN \/ (l.k = "v" /\ l.v.t = "bool" /\ l.v.b = (e.op = "or"))    \* decided by the left operand
              \/ CF(e.a[2], env, lit)
    ELSE IF e.op = "if" THEN
        /\ CF(e.a[1], env, lit)
        /\ LET c == Eval(e.a[1], env)
           IN c.k = "v" /\ c.v.t = "bool" /\ CF(e.a[IF c.v.b THEN 2 ELSE 3], env, lit)
    ELSE IF e.op = "in" THEN
        /\ CF(e.a[1], env, lit)
        /\ LET x == Eval(e.a[1], env) IN x.k = "v" /\ CFIn(x.v, e.a, 2, env, lit)
    ELSE \A i \in 1..Len(e.a) : CF(e.a[i], env, lit)
\* constant members are compared in order; an equal one folds the whole to true
CFIn(x, a, i, env, lit) ==
    \/ i > Len(a)
    \/ /\ CF(a[i], env, lit)
       /\ LET y == Eval(a[i], env)
          IN y.k = "v" /\ (Eq(x, y.v) \/ CFIn(x, a, i + 1, env, lit))
BadConstOperand(e, env, lit) ==
    \E i \in 1..Len(e.a) :
        /\ CF(e.a[i], env, lit)
        /\ LET r == Eval(e.a[i], env) IN r.k = "v" /\ ~OperandOK(e.op, i, r.v)
LitDiag(e, env, lit) ==
    /\ e.op # "x"
    /\ \/ BadConstOperand(e, env, lit)
       \/ (AllLit(e, lit) \/ CF(e, env, lit)) /\ Eval(e, env).k \in {"x", "u"}   \* ("u": cannot tell, accept)
       \/ \E i \in 1..Len(e.a) : LitDiag(e.a[i], env, lit)

=============================================================================
