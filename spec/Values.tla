------------------------------- MODULE Values -------------------------------
(* Abstract Suneido values, the total order on them, and evaluation of        *)
(* operators on them (core/value.go, core/ops.go, core/su*.go,                *)
(* compile/ast/expr.go).  Used by C28 (order / equality / hash / member       *)
(* lookup), C30 (constant folding) and C25 (query expressions).               *)
(*                                                                            *)
(* TLC has 32-bit integers and cannot order strings, so                       *)
(*   numbers  are structural, exactly like util/dnum: sign, exponent and a    *)
(*            digit sequence:  value = sign * 0.d1d2...dk * 10^nx,            *)
(*            d1 # 0, dk # 0 (no trailing zeros); zero is (0, 0, <<>>),       *)
(*            +-infinity is (+-2, 0, <<>>);                                   *)
(*   strings  are sequences of byte values 0..255;                            *)
(*   dates    are (yyyymmdd, hhmmssmmm, extra) - extra # 0 is a timestamp;    *)
(*   objects  are a list (sequence of values) plus named members (sequence    *)
(*            of <<key, value>> pairs with pairwise unequal keys).            *)
(* Every type uses its own payload field names so that TLC never has to       *)
(* compare payloads of different types.                                       *)
EXTENDS Integers, Sequences, FiniteSets, TLC

Bool(b)        == [t |-> "bool", b |-> b]
Num(s, x, d)   == [t |-> "num", ns |-> s, nx |-> x, nd |-> d]
Str(c)         == [t |-> "str", c |-> c]
Date(d, tm, x) == [t |-> "date", dd |-> d, dt |-> tm, dx |-> x]
Obj(l, n)      == [t |-> "obj", l |-> l, n |-> n]

True  == Bool(TRUE)
False == Bool(FALSE)
Zero  == Num(0, 0, <<>>)
EmptyStr == Str(<<>>)

\* rank of the type in the order: boolean < number < string < date < object
TypeRank(v) == CASE v.t = "bool" -> 0 [] v.t = "num" -> 1 [] v.t = "str" -> 2
                 [] v.t = "date" -> 3 [] v.t = "obj" -> 4

Sgn(i) == IF i < 0 THEN -1 ELSE IF i > 0 THEN 1 ELSE 0
Min2(a, b) == IF a <= b THEN a ELSE b
Max2(a, b) == IF a >= b THEN a ELSE b

\* lexicographic comparison of two sequences of integers (a proper prefix is smaller).
\* Short sequences are scanned; in long ones the first difference is located by bisection
\* (native SubSeq equality) so that long strings need neither deep recursion nor
\* quadratic work.
RECURSIVE LexFrom(_, _, _, _), FirstDiff(_, _, _, _)
LexFrom(a, b, i, n) ==          \* a and b agree before i; n = length of the shorter
    IF i > n THEN (IF Len(a) < Len(b) THEN -1 ELSE IF Len(a) > Len(b) THEN 1 ELSE 0)
    ELSE IF a[i] < b[i] THEN -1
    ELSE IF a[i] > b[i] THEN 1
    ELSE LexFrom(a, b, i + 1, n)
FirstDiff(a, b, lo, hi) ==      \* a and b agree before lo and differ somewhere in lo..hi
    IF lo = hi THEN lo
    ELSE LET mid == (lo + hi) \div 2
         IN IF SubSeq(a, lo, mid) = SubSeq(b, lo, mid) THEN FirstDiff(a, b, mid + 1, hi)
            ELSE FirstDiff(a, b, lo, mid)
LexCmp(a, b) ==
    IF a = b THEN 0
    ELSE LET n == Min2(Len(a), Len(b))
         IN IF n <= 24 THEN LexFrom(a, b, 1, n)
            ELSE IF SubSeq(a, 1, n) = SubSeq(b, 1, n) THEN (IF Len(a) < Len(b) THEN -1 ELSE 1)
            ELSE LET i == FirstDiff(a, b, 1, n) IN IF a[i] < b[i] THEN -1 ELSE 1

\* numbers: sign, then (for finite non-zero numbers of equal sign) exponent, then digits;
\* zero and the infinities have nx = 0, nd = <<>>, so they fall out as equal
NumCmp(a, b) ==
    IF a.ns # b.ns THEN (IF a.ns < b.ns THEN -1 ELSE 1)
    ELSE IF a.nx # b.nx THEN (IF (a.nx < b.nx) = (a.ns > 0) THEN -1 ELSE 1)
    ELSE IF a.nd = b.nd THEN 0
    ELSE IF a.ns > 0 THEN LexCmp(a.nd, b.nd) ELSE LexCmp(b.nd, a.nd)

DateCmp(a, b) ==
    IF a.dd # b.dd THEN (IF a.dd < b.dd THEN -1 ELSE 1)
    ELSE IF a.dt # b.dt THEN (IF a.dt < b.dt THEN -1 ELSE 1)
    ELSE IF a.dx # b.dx THEN (IF a.dx < b.dx THEN -1 ELSE 1)
    ELSE 0

(* The order.  Objects compare by their LIST members only, lexicographically, *)
(* nested objects recursively (core/suobject.go deepCompare: "compares only   *)
(* list values (not named)"); so Cmp is a total PREorder on objects.          *)
RECURSIVE Cmp(_, _), ListCmp(_, _, _)
Cmp(a, b) ==
    IF a.t # b.t THEN (IF TypeRank(a) < TypeRank(b) THEN -1 ELSE 1)
    ELSE IF a.t = "num"  THEN NumCmp(a, b)
    ELSE IF a.t = "str"  THEN LexCmp(a.c, b.c)
    ELSE IF a.t = "obj"  THEN ListCmp(a.l, b.l, 1)
    ELSE IF a.t = "date" THEN DateCmp(a, b)
    ELSE (IF a.b = b.b THEN 0 ELSE IF b.b THEN -1 ELSE 1)
\* lists: first differing element decides, a proper prefix is smaller
ListCmp(a, b, i) ==
    IF i > Len(a) THEN (IF i > Len(b) THEN 0 ELSE -1)
    ELSE IF i > Len(b) THEN 1
    ELSE LET c == Cmp(a[i], b[i]) IN IF c # 0 THEN c ELSE ListCmp(a, b, i + 1)

(* Equality (`is').  Scalars: same type and same (canonical) payload.         *)
(* Objects: same list (element-wise equal) and the same named members         *)
(* (core/deepequal.go).  An object and a record with the same members are     *)
(* equal (order[types.Record] = types.Object).                                *)
RECURSIVE Eq(_, _)
Eq(a, b) ==
    /\ a.t = b.t
    /\ IF a.t # "obj" THEN a = b      \* canonical forms: equal scalars are identical
       ELSE
              /\ Len(a.l) = Len(b.l)
              /\ \A i \in 1..Len(a.l) : Eq(a.l[i], b.l[i])
              /\ Len(a.n) = Len(b.n)
              /\ \A i \in 1..Len(a.n) : \E j \in 1..Len(b.n) :
                    Eq(a.n[i][1], b.n[j][1]) /\ Eq(a.n[i][2], b.n[j][2])

\* well-formedness of the representation (canonical forms)
RECURSIVE WF(_)
WF(v) ==
    CASE v.t = "bool" -> v.b \in BOOLEAN
      [] v.t = "num"  ->
            /\ v.ns \in {-2, -1, 0, 1, 2}
            /\ v.ns \in {-2, 0, 2} => (v.nx = 0 /\ v.nd = <<>>)
            /\ v.ns \in {-1, 1} =>
                 /\ Len(v.nd) \in 1..19 /\ v.nx \in -127..127
                 /\ \A i \in 1..Len(v.nd) : v.nd[i] \in 0..9
                 /\ v.nd[1] # 0 /\ v.nd[Len(v.nd)] # 0
      [] v.t = "str"  -> \A i \in 1..Len(v.c) : v.c[i] \in 0..255
      [] v.t = "date" -> v.dd \in 0..30000101 /\ v.dt \in 0..235959999 /\ v.dx \in 0..255
      [] v.t = "obj"  ->
            /\ \A i \in 1..Len(v.l) : WF(v.l[i])
            /\ \A i \in 1..Len(v.n) : WF(v.n[i][1]) /\ WF(v.n[i][2])
            /\ \A i, j \in 1..Len(v.n) : i # j => ~Eq(v.n[i][1], v.n[j][1])

=============================================================================
