----------------------------- MODULE ValuesLazy -----------------------------
(* C28, lazily materialised representations (core/surecord.go SuRecordFromRow, *)
(* core/susequence.go): a value whose members are still in a database row (or *)
(* an iterator) and are moved into the in-memory object on demand.            *)
(*                                                                            *)
(* A lazy record is  [row, ob, userow]:                                        *)
(*   row     the stored fields, a sequence of <<key, value>> (keys pairwise    *)
(*           different, no empty values - an empty field is not a member)      *)
(*   ob      the named members materialised so far (reading a field caches it) *)
(*   userow  TRUE until the record has been unpacked as a whole                *)
(* Its VALUE (AbsOf) is the object with all the members, wherever they are;    *)
(* no read-only operation (reading a field, unpacking for display/compare,    *)
(* hashing) may change it, and everything the language can observe - Compare, *)
(* Equal, Hash, the shallow Hash2 that a container uses for its members - is  *)
(* a function of the value, never of the materialisation state.               *)
(*                                                                            *)
(* Hashes are symbolic (the structure the real hash is computed from, as in   *)
(* core/suobject.go Hash / hash2), so "equal values hash equally" can be      *)
(* stated without modelling 64-bit arithmetic.                                *)
EXTENDS Values

\* Hash2: shallow - an object contributes only its sizes, a scalar itself
Hash2Sym(v) == IF v.t = "obj" THEN [k |-> "o", nn |-> Len(v.n), nl |-> Len(v.l), sv |-> False]
               ELSE [k |-> "s", nn |-> 0, nl |-> 0, sv |-> v]
NoHash == [k |-> "-", nn |-> 0, nl |-> 0, sv |-> False]

\* Hash of an object given the Hash2 of its members: own sizes, first two list members,
\* and (1..4 named members) the BAG of <<Hash2(key), Hash2(value)>> - order independent
NamedBag(ps) == LET S == {ps[i] : i \in 1..Len(ps)}
                IN {<<p, Cardinality({i \in 1..Len(ps) : ps[i] = p})>> : p \in S}
HashFrom(nn, nl, l1, l2, nps) ==
    [sz |-> <<nn, nl>>, l1 |-> l1, l2 |-> l2, nm |-> IF Len(nps) \in 1..4 THEN NamedBag(nps) ELSE {}]
HashSym(v) ==
    IF v.t # "obj" THEN [sz |-> <<0, 0>>, l1 |-> Hash2Sym(v), l2 |-> NoHash, nm |-> {}]
    ELSE HashFrom(Len(v.n), Len(v.l),
                  IF Len(v.l) > 0 THEN Hash2Sym(v.l[1]) ELSE NoHash,
                  IF Len(v.l) > 1 THEN Hash2Sym(v.l[2]) ELSE NoHash,
                  [i \in 1..Len(v.n) |-> <<Hash2Sym(v.n[i][1]), Hash2Sym(v.n[i][2])>>])

-----------------------------------------------------------------------------
LazyNew(row) == [row |-> row, ob |-> <<>>, userow |-> TRUE]
InOb(x, k) == \E i \in 1..Len(x.ob) : Eq(x.ob[i][1], k)
InRow(x, k) == \E i \in 1..Len(x.row) : Eq(x.row[i][1], k)
\* fields that are still only in the row
Pending(x) == IF x.userow THEN SelectSeq(x.row, LAMBDA p : ~InOb(x, p[1])) ELSE <<>>
\* the value
AbsOf(x) == Obj(<<>>, x.ob \o Pending(x))

\* reading member k: a field that is still in the row is unpacked and cached
LazyGet(x, k) ==
    IF x.userow /\ ~InOb(x, k) /\ InRow(x, k)
    THEN [x EXCEPT !.ob = Append(@, x.row[CHOOSE i \in 1..Len(x.row) : Eq(x.row[i][1], k)])]
    ELSE x
\* ToObject: everything that is still in the row moves into ob
LazyUnpack(x) == [x EXCEPT !.ob = @ \o Pending(x), !.userow = FALSE]

\* Hash2 as the implementation computes it: <<result, state afterwards>>.
\* partial = TRUE is the deviation "hash the in-memory part only, do not unpack".
LazyHash2(x, partial) ==
    IF partial THEN <<Hash2Sym(Obj(<<>>, x.ob)), x>>
    ELSE LET y == LazyUnpack(x) IN <<Hash2Sym(Obj(<<>>, y.ob)), y>>
\* Hash of a container with the list <<x, s>> (x lazy, s a scalar) and no named members -
\* a compound member key like Object(rec, "x")
KeyHash(x, s, partial) ==
    HashFrom(0, 2, LazyHash2(x, partial)[1], Hash2Sym(s), <<>>)
=============================================================================
