---------------------------- MODULE TimestampInd ----------------------------
(* OPTIONAL extra assurance for C34 (nothing in checks/C34.py depends on it): *)
(* an inductive invariant of the timestamp protocol of Timestamp.tla for      *)
(* UNBOUNDED time, any number of operations, any start value, checked with    *)
(* Apalache (SMT), for two clients and any number of direct callers (a direct *)
(* caller has no state, so one action covers them all).                       *)
(*                                                                            *)
(* Distinctness is expressed with an arbitrary witness value w = (wms, wx),   *)
(* chosen once: wIssued records that w has been handed out, bad that it was   *)
(* handed out a second time. Since w is arbitrary, ~bad for all w is global   *)
(* distinctness. Per-caller increase is `mono`: every value a client or the   *)
(* server hands out is above the previous one it handed out (prevSrv / the    *)
(* client's own (last, count)).                                               *)
(*                                                                            *)
(*   apalache-mc check --init=Init    --inv=IndInv --length=0 TimestampInd.tla   (initiation)                  *)
(*   apalache-mc check --init=IndInit --inv=IndInv --length=1 TimestampInd.tla   (consecution)                 *)
(*   apalache-mc check --init=IndInit --inv=Safe   --length=0 TimestampInd.tla   (IndInv => property)          *)
EXTENDS Integers

Batch == 5
Threshold == 500
ExtraLimit == 256

VARIABLES
    \* @type: Int;
    ts,
    \* client batch state (tsLast, tsCount, tsLimit), one function per field
    \* @type: Str -> Int;
    last,
    \* @type: Str -> Int;
    count,
    \* @type: Str -> Int;
    limit,
    \* @type: Int;
    wms,
    \* @type: Int;
    wx,
    \* @type: Bool;
    wIssued,
    \* @type: Bool;
    bad,
    \* @type: Bool;
    mono

Clients == {"c1", "c2"}

InBatchHalf(t) == t % 1000 < Threshold
SrvNext(t) == IF InBatchHalf(t) THEN t + Batch ELSE t + 1
ClLimitFor(t) == IF InBatchHalf(t) THEN Batch ELSE ExtraLimit

\* handing out the value (m, x)
Hand(m, x) ==
    /\ bad' = (bad \/ (wIssued /\ m = wms /\ x = wx))
    /\ wIssued' = (wIssued \/ (m = wms /\ x = wx))

Init ==
    /\ ts \in Nat
    /\ last = [c \in Clients |-> 0] /\ count = [c \in Clients |-> 0] /\ limit = [c \in Clients |-> 0]
    /\ wms \in Nat /\ wx \in 0..255
    /\ wIssued = FALSE /\ bad = FALSE /\ mono = TRUE

\* the ticker: any wall clock second t, only forwards
Tick ==
    /\ \E t \in Nat : t % 1000 = 0 /\ ts' = (IF t > ts THEN t ELSE ts)
    /\ UNCHANGED <<last, count, limit, wms, wx, wIssued, bad, mono>>

\* any direct caller (the server's own sequence increases by construction: ts' > ts)
ServerGet ==
    /\ Hand(ts, 0)
    /\ ts' = SrvNext(ts)
    /\ UNCHANGED <<last, count, limit, wms, wx, mono>>

ClientGet(c) ==
    IF count[c] + 1 < limit[c]
    THEN IF limit[c] = Batch
         THEN /\ Hand(last[c] + 1, 0)                   \* (last+1, 0) > (last, 0)
              /\ last' = [last EXCEPT ![c] = last[c] + 1]
              /\ count' = [count EXCEPT ![c] = count[c] + 1]
              /\ UNCHANGED <<ts, limit, wms, wx, mono>>
         ELSE /\ Hand(last[c], count[c] + 1)            \* (last, count+1) > (last, count)
              /\ count' = [count EXCEPT ![c] = count[c] + 1]
              /\ UNCHANGED <<ts, last, limit, wms, wx, mono>>
    ELSE /\ Hand(ts, 0)
         /\ last' = [last EXCEPT ![c] = ts]
         /\ count' = [count EXCEPT ![c] = 0]
         /\ limit' = [limit EXCEPT ![c] = ClLimitFor(ts)]
         /\ ts' = SrvNext(ts)
         \* the caller's previous value was (last, 0) in batch mode or (last, <= count) in extra
         \* mode; the new one (ts, 0) is above it iff last < ts (or nothing was fetched yet)
         /\ mono' = (mono /\ (limit[c] = 0 \/ last[c] < ts))
         /\ UNCHANGED <<wms, wx>>

Expire(c) ==
    /\ count' = [count EXCEPT ![c] = limit[c] + 1]
    /\ UNCHANGED <<ts, last, limit, wms, wx, wIssued, bad, mono>>

Next == Tick \/ ServerGet \/ (\E c \in Clients : ClientGet(c)) \/ (\E c \in Clients : Expire(c))

----------------------------------------------------------------------------
\* number of batch values client c may still hand out without asking the server
Left(c) == IF limit[c] = Batch /\ count[c] < Batch THEN Batch - 1 - count[c] ELSE 0
InReserve(c, m) == last[c] < m /\ m <= last[c] + Left(c)

TypeOK ==
    /\ ts \in Nat /\ wms \in Nat /\ wx \in 0..255
    /\ \A c \in Clients :
        /\ last[c] \in Nat
        /\ limit[c] \in {0, Batch, ExtraLimit}
        /\ count[c] \in 0..(ExtraLimit + 1)
        /\ (limit[c] = 0 => count[c] \in {0, 1})
        /\ (limit[c] = Batch => count[c] <= Batch + 1)

IndInv ==
    /\ TypeOK
    /\ ~bad /\ mono
    \* everything handed out lies below the server's next value
    /\ (wIssued => wms < ts)
    /\ \A c \in Clients :
        \* what a client holds or has reserved lies below the server's next value
        /\ (limit[c] # 0 => last[c] + Left(c) < ts)
        \* batch mode: the reserve has not been handed out
        /\ (wIssued => ~InReserve(c, wms))
        \* extra mode: of the extras of my millisecond only those up to my count are out
        /\ ((limit[c] = ExtraLimit /\ wIssued /\ wms = last[c]) => wx <= count[c])
    \* reserves / held milliseconds of different clients do not meet
    /\ \A c1 \in Clients : \A c2 \in Clients : c1 # c2 =>
        /\ \A m \in {last[c1] + 1, last[c1] + 2, last[c1] + 3, last[c1] + 4} :
              ~(InReserve(c1, m) /\ InReserve(c2, m))
        /\ ((limit[c1] = ExtraLimit /\ limit[c2] # 0) => ~InReserve(c2, last[c1]))
        /\ ((limit[c1] = ExtraLimit /\ limit[c2] # 0) => last[c1] # last[c2])

\* IndInv as an initial predicate (assignments first, as Apalache wants them)
IndInit ==
    /\ ts \in Nat /\ wms \in Nat /\ wx \in 0..255
    /\ last \in [Clients -> Nat]
    /\ count \in [Clients -> 0..(ExtraLimit + 1)]
    /\ limit \in [Clients -> {0, Batch, ExtraLimit}]
    /\ wIssued \in BOOLEAN /\ bad = FALSE /\ mono = TRUE
    /\ IndInv

Safe == ~bad /\ mono

=============================================================================
