SPECIFICATION Spec
CONSTANTS
  NK = 5
  Split = 2
  MaxBatches = 2
  SepMax = TRUE
  DevContainsLE = TRUE
  DevNoInherit = FALSE
INVARIANTS ModifyAssertsOK ContentOK NodesOK OldVersionOK
CHECK_DEADLOCK FALSE
