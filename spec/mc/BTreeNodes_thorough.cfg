SPECIFICATION Spec
CONSTANTS
  NK = 6
  Split = 2
  MaxBatches = 2
  SepMax = FALSE
  DevContainsLE = FALSE
  DevNoInherit = FALSE
INVARIANTS ModifyAssertsOK ContentOK NodesOK OldVersionOK
CHECK_DEADLOCK FALSE
