SPECIFICATION Spec
CONSTANTS
  NK = 6
  Split = 3
  MaxBatches = 2
  SepMax = TRUE
  DevContainsLE = FALSE
  DevNoInherit = FALSE
INVARIANTS ModifyAssertsOK ContentOK NodesOK OldVersionOK
CHECK_DEADLOCK FALSE
