SPECIFICATION Spec
CONSTANTS
  NK = 4
  Split = 2
  MaxBatches = 3
  SepMax = FALSE
  DevContainsLE = FALSE
  DevNoInherit = FALSE
INVARIANTS ModifyAssertsOK ContentOK NodesOK OldVersionOK
CHECK_DEADLOCK FALSE
