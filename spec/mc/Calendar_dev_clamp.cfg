SPECIFICATION Spec
CONSTANTS
  Tier = "quick"
  Dev = "clamp"
INVARIANTS MonthOverflow
CHECK_DEADLOCK FALSE
