SPECIFICATION Spec
CONSTANTS
  Tier = "quick"
  Dev = "julian"
INVARIANTS JulianAgrees
CHECK_DEADLOCK FALSE
