SPECIFICATION Spec
CONSTANTS
  Tier = "quick"
  Dev = "trunc"
INVARIANTS ResultWellFormed
CHECK_DEADLOCK FALSE
