SPECIFICATION Spec
CONSTANTS
  Tier = "quick"
  Dev = "none"
INVARIANTS ResultWellFormed DayNumInverse DaysRoundTrip DiffIsOffset MonthOverflow OrderChronological JulianAgrees LiteralRoundTrip Anchors
CHECK_DEADLOCK FALSE
