SPECIFICATION Spec
CONSTANTS
  Tier = "quick"
  Dev = "none"
INVARIANTS ResultWellFormed DayNumInverse DaysRoundTrip DiffIsOffset MonthOverflow OrderChronological JulianAgrees LiteralRoundTrip
CHECK_DEADLOCK FALSE
