SPECIFICATION MCSpec
CONSTANTS
  MaxCallDepth = 12
  Family = {2, 3}
  BodyLen = 1
  DevNoParamShare = TRUE
INVARIANTS SlotsOK FunctionBlocksOK EvalTotal

CHECK_DEADLOCK FALSE
