SPECIFICATION MCSpec
CONSTANTS
  MaxCallDepth = 12
  Family = {1, 2, 3, 4, 5}
  BodyLen = 1
  DevNoParamShare = FALSE
INVARIANTS SlotsOK FunctionBlocksOK EvalTotal
CONSTRAINT GenPrint
CHECK_DEADLOCK FALSE
