SPECIFICATION MCSpec
CONSTANTS
  MaxCallDepth = 12
  Family = {1, 3, 4, 5}
  BodyLen = 2
  DevNoParamShare = FALSE
INVARIANTS SlotsOK FunctionBlocksOK EvalTotal
CONSTRAINT GenPrint
CHECK_DEADLOCK FALSE
