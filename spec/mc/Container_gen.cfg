SPECIFICATION MCSpec
CONSTANTS
  Objs = {1, 2}
  Keys <- KeysG
  Ats <- AtsG
  Vals <- MCVals
  SliceArgs <- SlicesG
  MaxSize = 6
  MaxDepth = 40
  Dev = "none"
CONSTRAINT GenPrint
CHECK_DEADLOCK FALSE
