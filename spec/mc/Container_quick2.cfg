SPECIFICATION MCSpec
CONSTANTS
  Objs = {1, 2}
  Keys <- KeysS
  Ats <- AtsS
  Vals <- MCVals3
  SliceArgs <- SlicesQ
  MaxSize = 3
  MaxDepth = 4
  Dev = "none"
VIEW MCView
CONSTRAINT Depth
INVARIANTS TypeOK KeysDisjoint
PROPERTIES PutIsMapUpdate AddIsAppend EraseIsMapDelete DeleteIsListDelete InsertIsListInsert SizeAccounting UniqueOK SortIsStable ReadOnlyRejects ReadOnlyErrors Independent
CHECK_DEADLOCK FALSE
