SPECIFICATION MCSpec
CONSTANTS
  Objs = {1}
  Keys <- KeysT
  Ats <- AtsT
  Vals <- MCVals
  SliceArgs <- SlicesG
  MaxSize = 5
  MaxDepth = 6
  Dev = "none"
VIEW MCView
CONSTRAINT Depth
INVARIANTS TypeOK KeysDisjoint
PROPERTIES PutIsMapUpdate AddIsAppend EraseIsMapDelete DeleteIsListDelete InsertIsListInsert SizeAccounting UniqueOK SortIsStable ReadOnlyRejects ReadOnlyErrors Independent
CHECK_DEADLOCK FALSE
