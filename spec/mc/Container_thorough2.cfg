SPECIFICATION MCSpec
CONSTANTS
  Objs = {1, 2}
  Keys <- KeysQ
  Ats <- AtsQ
  Vals <- MCVals3
  SliceArgs <- SlicesQ
  MaxSize = 4
  MaxDepth = 5
  Dev = "none"
VIEW MCView
CONSTRAINT Depth
INVARIANTS TypeOK KeysDisjoint
PROPERTIES PutIsMapUpdate AddIsAppend EraseIsMapDelete DeleteIsListDelete InsertIsListInsert SizeAccounting UniqueOK SortIsStable ReadOnlyRejects ReadOnlyErrors Independent
CHECK_DEADLOCK FALSE
