SPECIFICATION Spec
CONSTANTS
  MaxCommits = 3
  MaxPersists = 3
  MaxClock = 2
  DevSearchLo = FALSE
  DevNoEmptyCheck = FALSE
INVARIANTS TypeOK CleanReopenExact OpenRefusedUnlessMarked RepairYieldsLatestDurable NothingUncommitted AsofMonotone StepsInOrder SearchCorrect
CHECK_DEADLOCK FALSE
