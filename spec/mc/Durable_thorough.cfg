SPECIFICATION Spec
CONSTANTS
  MaxCommits = 4
  MaxPersists = 4
  MaxClock = 3
  DevSearchLo = FALSE
  DevNoEmptyCheck = FALSE
INVARIANTS TypeOK CleanReopenExact OpenRefusedUnlessMarked RepairYieldsLatestDurable NothingUncommitted AsofMonotone StepsInOrder SearchCorrect
CHECK_DEADLOCK FALSE
