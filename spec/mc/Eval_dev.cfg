SPECIFICATION Spec
CONSTANTS
  Big = FALSE
  DevLtGte = TRUE
INVARIANTS Total CmpTotal LtGte GtLte IsIsnt IsSym LtGt LteIs Commut SubNeg ArithType NumResult DivZero ModZero AndOr IfLaw InLaw CatLaw DiagLaw NoDiagOnParams RawOnlyEmpty RawDiffers
CHECK_DEADLOCK FALSE
