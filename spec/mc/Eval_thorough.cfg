SPECIFICATION Spec
CONSTANTS
  Big = TRUE
  DevLtGte = FALSE
INVARIANTS Total CmpTotal LtGte GtLte IsIsnt IsSym LtGt LteIs Commut SubNeg ArithType NumResult DivZero ModZero AndOr IfLaw InLaw CatLaw DiagLaw NoDiagOnParams RawOnlyEmpty RawDiffers
CHECK_DEADLOCK FALSE
