SPECIFICATION Spec
CONSTANTS
  Ids = {1, 2}
  Sks = {1}
  MaxSteps = 6
  DevDeleteUnderCascadeUpdate = FALSE
INVARIANTS FkOK UniqueOK_ RefusalsJustified
CHECK_DEADLOCK FALSE
