SPECIFICATION Spec
CONSTANTS
  Keys = {1, 2, 3, 4, 5}
  Vals = {1}
  Slots = {0, 1}
  Depth = 2
  Hash <- MC_Hash5
  MaxVers = 3
  MaxOps = 8
  DevNoCopy = ""
INVARIANTS GetOK AllOK StructOK OwnNodesPrivate
PROPERTIES FrozenNeverChange
CHECK_DEADLOCK FALSE
