SPECIFICATION Spec
CONSTANTS
  Keys = {1, 2, 3, 4}
  Vals = {1, 2}
  Slots = {0, 1}
  Depth = 3
  Hash <- MC_Hash3deep
  MaxVers = 3
  MaxOps = 7
  DevNoCopy = ""
INVARIANTS GetOK AllOK StructOK OwnNodesPrivate
PROPERTIES FrozenNeverChange
CHECK_DEADLOCK FALSE
