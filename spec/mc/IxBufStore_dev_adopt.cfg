SPECIFICATION Spec
CONSTANTS
  K = 5
  NB = 2
  Memb = {{1}, {2}, {1, 2}}
  Pats = {1, 2}
  Goals = {2}
  MaxChunk = 2
  DevAdoptChunk = TRUE
INVARIANTS TypeOK InputsUnchanged MergeMatches SizeOK NoInvalidStore
PROPERTIES InputsUnchangedStep
CHECK_DEADLOCK FALSE
