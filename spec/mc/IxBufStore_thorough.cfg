SPECIFICATION Spec
CONSTANTS
  K = 6
  NB = 2
  Memb = {{}, {1}, {2}, {1, 2}}
  Pats = {1, 2}
  Goals = {2, 3, 4}
  MaxChunk = 4
  DevAdoptChunk = FALSE
INVARIANTS TypeOK InputsUnchanged MergeMatches SizeOK NoInvalidStore
PROPERTIES InputsUnchangedStep
CHECK_DEADLOCK FALSE
