SPECIFICATION Spec
CONSTANTS
  K = 3
  NB = 3
  Memb = {{}, {1}, {2}, {3}, {1, 2}, {1, 3}, {2, 3}, {1, 2, 3}}
  Pats = {1, 2}
  Goals = {2, 3}
  MaxChunk = 3
  DevAdoptChunk = FALSE
INVARIANTS TypeOK InputsUnchanged MergeMatches SizeOK NoInvalidStore
PROPERTIES InputsUnchangedStep
CHECK_DEADLOCK FALSE
