SPECIFICATION Spec
CONSTANTS
  K = 1
  Offs = {1, 2}
  MaxOps = 3
  MaxBufs = 3
  DevDelAdd = TRUE
INVARIANTS TypeOK NoInvalid MergeIsSequential NoSpurious Associative
CHECK_DEADLOCK FALSE
