SPECIFICATION Spec
CONSTANTS
  K = 1
  Offs = {1, 2}
  MaxOps = 5
  MaxBufs = 4
  DevDelAdd = FALSE
INVARIANTS TypeOK NoInvalid MergeIsSequential NoSpurious Associative
CHECK_DEADLOCK FALSE
