SPECIFICATION Spec
CONSTANTS
  K = 2
  Offs = {1, 2}
  MaxOps = 4
  MaxBufs = 3
  DevDelAdd = FALSE
INVARIANTS TypeOK NoInvalid MergeIsSequential NoSpurious Associative
CHECK_DEADLOCK FALSE
