SPECIFICATION Spec
CONSTANTS
  Alphabet = {0, 1, 2}
  MaxLen = 2
  NF = 2
  DevSwapEsc = TRUE
  DevTruncNoTrim = FALSE
INVARIANTS OrderPreserved Injective
CHECK_DEADLOCK FALSE
