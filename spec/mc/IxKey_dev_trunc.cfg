SPECIFICATION Spec
CONSTANTS
  Alphabet = {0, 1, 2}
  MaxLen = 1
  NF = 3
  DevSwapEsc = FALSE
  DevTruncNoTrim = TRUE
INVARIANTS TruncIsKeyOfLeading
CHECK_DEADLOCK FALSE
