SPECIFICATION Spec
CONSTANTS
  Alphabet = {0, 1, 255}
  MaxLen = 2
  NF = 2
  DevSwapEsc = FALSE
  DevTruncNoTrim = FALSE
INVARIANTS OrderPreserved Injective KeyOrder DecodeInverse PrefixByField SplitJoin TruncIsKeyOfLeading RangeEndSelects
CHECK_DEADLOCK FALSE
