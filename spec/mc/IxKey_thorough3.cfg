SPECIFICATION Spec
CONSTANTS
  Alphabet = {0, 1}
  MaxLen = 2
  NF = 3
  DevSwapEsc = FALSE
  DevTruncNoTrim = FALSE
INVARIANTS OrderPreserved Injective KeyOrder DecodeInverse PrefixByField SplitJoin TruncIsKeyOfLeading RangeEndSelects
CHECK_DEADLOCK FALSE
