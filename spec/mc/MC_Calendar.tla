---------------------------- MODULE MC_Calendar ----------------------------
(* Exhaustive boundary-grid check of the calendar model (C33).               *)
(* One initial state per grid date-time d; one step picks an offset o from   *)
(* the offset grid and computes r = Plus(d, o).  The consistency properties  *)
(* of the calendar (Calendar.tla) are invariants of the states after the     *)
(* step.  Nothing here runs gSuneido code: this is the design-level check    *)
(* that the specification the real code is compared against (by              *)
(* trace/TraceCalendar.tla) is a calendar - day numbers and dates are        *)
(* inverse, additions and differences agree, the order is chronological,     *)
(* the code's Julian day formula and literal format mean the same.           *)
EXTENDS Calendar, TLC

CONSTANTS Tier,   \* "quick" | "thorough": size of the offset grid
          Dev     \* "none", or a deviation for the anti-vacuity runs:
                  \*   "clamp"   month addition clamps to the end of the month
                  \*   "trunc"   carries by truncating division (Go's / and %)
                  \*   "julian"  Julian-calendar day number (no century rule) in MinusDays

VARIABLES d, o, r, ph
vars == <<d, o, r, ph>>

Years == {1700, 1899, 1900, 2000, 2023, 2024, 2999, 3000}
DaysG == {1, 28, 29, 30, 31}
T0 == <<12, 34, 56, 789>>
TimesQ == {T0, <<0, 0, 0, 0>>, <<23, 59, 59, 999>>}
Times == IF Tier = "quick" THEN TimesQ ELSE TimesQ \cup {<<0, 0, 0, 1>>, <<23, 59, 59, 0>>, <<0, 59, 0, 999>>}

GridDates == {t \in {<<y, m, dd, tm[1], tm[2], tm[3], tm[4]>> :
                        y \in Years, m \in 1..12, dd \in DaysG, tm \in Times} : InRange(t)}

Neg(S) == {-x : x \in S}
PM(S) == S \cup Neg(S)
One(i, S) == {[k \in 1..7 |-> IF k = i THEN x ELSE 0] : x \in S}

DaysQuick == PM(0..70 \cup 360..370 \cup 725..735 \cup 790..800)
OffYears   == One(1, PM({1, 4, 5, 99, 100, 101, 400, 1300}))
OffMonths  == One(2, -25..25)
OffDays    == One(3, IF Tier = "quick" THEN DaysQuick ELSE -800..800)
OffHours   == One(4, PM({1, 23, 24, 25, 49, 8760}))
OffMinutes == One(5, PM({1, 59, 60, 61, 1439, 1440, 1441}))
OffSeconds == One(6, PM({1, 59, 60, 61, 3599, 3600, 3601, 86399, 86400, 86401, 31622400}))
OffMs      == One(7, PM({1, 211, 212, 999, 1000, 1001, 59999, 60000, 60001, 3599999, 3600000, 3600001,
                         86399999, 86400000, 86400001, 2000000000}))
OffCombo   == IF Tier = "quick"
              THEN {<<y, m, dd, h, 0, s, ms>> : y \in {0, 1}, m \in {-13, 1}, dd \in {-31, 31},
                        h \in {-25, 25}, s \in {0, -61}, ms \in {-1, 1000}}
              ELSE {<<y, m, dd, h, mi, s, ms>> : y \in {-1, 0, 1}, m \in {-13, -1, 0, 1, 13},
                        dd \in {-31, 0, 1, 31}, h \in {-25, 0, 25}, mi \in {0, 61}, s \in {0, -61}, ms \in {-1, 0, 1000}}
\* offsets of years/months/days alone never touch the time of day: they are
\* combined with one time of day (T0) only; the others with every time of the grid
DateOffsets == OffYears \cup OffMonths \cup OffDays
TimeOffsets == OffHours \cup OffMinutes \cup OffSeconds \cup OffMs \cup OffCombo
AllOffsets == DateOffsets \cup TimeOffsets
OffsetsFor(t) == IF SubSeq(t, 4, 7) = T0 THEN AllOffsets ELSE TimeOffsets

----------------------------------------------------------------------------
(* deviations (anti-vacuity): plausible wrong calendars *)

TruncDiv(x, n) == IF x >= 0 THEN x \div n ELSE -((-x) \div n)
TruncRem(x, n) == x - n * TruncDiv(x, n)
NormalizeTrunc(t) ==
    LET s1  == Sec(t) + TruncDiv(Msec(t), 1000)
        mi1 == Mnt(t) + TruncDiv(s1, 60)
        h1  == Hr(t) + TruncDiv(mi1, 60)
        d1  == Day(t) + TruncDiv(h1, 24)
        y1  == Yr(t) + Carry(Mon(t) - 1, 12)
        mo1 == Rest(Mon(t) - 1, 12) + 1
        ymd == DateOfDay(DayNum3(y1, mo1, d1))
    IN <<ymd[1], ymd[2], ymd[3], TruncRem(h1, 24), TruncRem(mi1, 60), TruncRem(s1, 60), TruncRem(Msec(t), 1000)>>
PlusClamp(t, off) ==
    LET y1  == Yr(t) + off[1] + Carry(Mon(t) + off[2] - 1, 12)
        mo1 == Rest(Mon(t) + off[2] - 1, 12) + 1
        dd  == IF Day(t) > DaysInMonth(y1, mo1) THEN DaysInMonth(y1, mo1) ELSE Day(t)
    IN Plus(<<y1, mo1, dd, Hr(t), Mnt(t), Sec(t), Msec(t)>>, <<0, 0, off[3], off[4], off[5], off[6], off[7]>>)
JulianDayNoCentury(t) ==
    LET a == (14 - Mon(t)) \div 12
        y == Yr(t) + 4800 - a
        m == Mon(t) + 12 * a - 3
    IN Day(t) + (153 * m + 2) \div 5 + 365 * y + y \div 4 - 32083

PlusM(t, off) == IF Dev = "clamp" THEN PlusClamp(t, off)
                 ELSE IF Dev = "trunc" THEN NormalizeTrunc(<<Yr(t) + off[1], Mon(t) + off[2], Day(t) + off[3],
                                        Hr(t) + off[4], Mnt(t) + off[5], Sec(t) + off[6], Msec(t) + off[7]>>)
                 ELSE Plus(t, off)
JDay(t) == IF Dev = "julian" THEN JulianDayNoCentury(t) ELSE JulianDay(t)

----------------------------------------------------------------------------
Zero == <<0, 0, 0, 0, 0, 0, 0>>
Init == d \in GridDates /\ o = Zero /\ r = d /\ ph = 0
Next == /\ ph = 0
        /\ ph' = 1
        /\ o' \in OffsetsFor(d)
        /\ r' = PlusM(d, o')
        /\ d' = d
Spec == Init /\ [][Next]_vars

----------------------------------------------------------------------------
(* Properties *)

OnlyField(i) == \A k \in 1..7 : k # i => o[k] = 0
NoYM == o[1] = 0 /\ o[2] = 0
NegO == [k \in 1..7 |-> -o[k]]

\* the sum is a date of the calendar
ResultWellFormed == WellFormed(r)

\* day numbers and dates are inverse to each other (both directions)
DayNumInverse == /\ DateOfDay(DayNum(r)) = <<Yr(r), Mon(r), Day(r)>>
                 /\ \A n \in {DayNum(d) + o[3] + o[6]} :           \* some day number
                       \A t \in {DateOfDay(n)} : DayNum3(t[1], t[2], t[3]) = n /\ WellFormed(t \o <<0, 0, 0, 0>>)

\* Plus(days: n) followed by MinusDays gives n, the time of day is kept
DaysRoundTrip == OnlyField(3) =>
                    /\ MinusDays(r, d) = o[3]
                    /\ SubSeq(r, 4, 7) = SubSeq(d, 4, 7)

\* without years/months: the difference of the sum to the original is the offset
\* reduced on its own (milliseconds differences are consistent with additions),
\* and adding the negated offsets leads back
DiffIsOffset == NoYM => /\ MinusMs(r, d) = OffsetAsMs(o, 0)
                        /\ MinusMs(d, r) = OffsetAsMs(NegO, 0)
                        /\ Plus(r, NegO) = d

\* years/months only: the target month is reached by counting months; a day
\* that the target month does not have runs over into the following month
\* (by at most 3 days), nothing is clamped; the time of day is kept
MonthOverflow == (\A k \in 3..7 : o[k] = 0) =>
    LET mm  == Mon(d) + o[2] - 1
        ty  == Yr(d) + o[1] + mm \div 12
        tm  == (mm % 12) + 1
        dim == DaysInMonth(ty, tm)
    IN /\ SubSeq(r, 4, 7) = SubSeq(d, 4, 7)
       /\ IF Day(d) <= dim THEN <<Yr(r), Mon(r), Day(r)>> = <<ty, tm, Day(d)>>
          ELSE <<Yr(r), Mon(r), Day(r)>> = <<IF tm = 12 THEN ty + 1 ELSE ty, (tm % 12) + 1, Day(d) - dim>>
       /\ (Day(r) = Day(d) => Plus(r, NegO) = d)

\* chronological order: the lexicographic order of the fields is the order by
\* elapsed time, is antisymmetric, and adding a positive (negative) amount of one
\* unit gives a later (earlier) date
OrderChronological ==
    /\ Cmp(r, d) = CmpByDiff(r, d)
    /\ Cmp(d, r) = -Cmp(r, d)
    /\ (Cmp(r, d) = 0) = (r = d)
    /\ \A i \in 1..7 : OnlyField(i) => Cmp(r, d) = Sign(o[i])

\* the code's Julian day numbers differ like the specification's day numbers
JulianAgrees == JDay(r) - JDay(d) = DayNum(r) - DayNum(d)

\* the literal text of a date denotes that date (String, then DateFromLiteral)
LiteralRoundTrip == \A lit \in {Literal(r)} : LitShape(lit) /\ LitFields(lit) = r

\* a few fixed points, so that the whole model is not consistently shifted
ASSUME
    /\ DayNum(<<1700, 1, 1, 0, 0, 0, 0>>) = 0
    /\ DayNum(<<1970, 1, 1, 0, 0, 0, 0>>) = 98615
    /\ DayNum(<<2000, 3, 1, 0, 0, 0, 0>>) - DayNum(<<2000, 2, 28, 0, 0, 0, 0>>) = 2
    /\ DayNum(<<1900, 3, 1, 0, 0, 0, 0>>) - DayNum(<<1900, 2, 28, 0, 0, 0, 0>>) = 1
    /\ DayNum(<<3000, 1, 1, 0, 0, 0, 0>>) = 474815
    /\ Plus(<<2024, 1, 31, 0, 0, 0, 0>>, <<0, 1, 0, 0, 0, 0, 0>>) = <<2024, 3, 2, 0, 0, 0, 0>>
    /\ Plus(<<2023, 1, 31, 0, 0, 0, 0>>, <<0, 1, 0, 0, 0, 0, 0>>) = <<2023, 3, 3, 0, 0, 0, 0>>
    /\ Plus(<<1999, 12, 31, 23, 59, 59, 999>>, <<0, 0, 0, 0, 0, 0, 1>>) = <<2000, 1, 1, 0, 0, 0, 0>>
    /\ Plus(<<2000, 1, 1, 0, 0, 0, 0>>, <<0, 0, 0, 0, 0, 0, -1>>) = <<1999, 12, 31, 23, 59, 59, 999>>
    /\ JulianDay(<<2000, 1, 1, 0, 0, 0, 0>>) = 2451545
=============================================================================
