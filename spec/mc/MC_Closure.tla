---- MODULE MC_Closure ----
(* Exhaustive enumeration of small programs of the block language of Closure.tla.  *)
(* Every program of the families below is one initial state; TLC checks on each    *)
(* that the slot assignment transcribed from compile/ast/blocks.go implements the  *)
(* scoping model, that blocks without shared slots touch no shared cell, and that  *)
(* the reference interpreter gives every program a result. With the Gen constraint *)
(* the programs are printed as JSON for the driver, which renders them to Suneido  *)
(* source and runs them in the real interpreter.                                   *)
EXTENDS Closure, Json

CONSTANTS Family,          \* which program families to enumerate
          BodyLen,         \* maximal length of the free part of block bodies
          DevNoParamShare  \* deviation: a captured block parameter gets no shared slot

VARIABLE prog

N(k, v, w, c, a, id, r, b, b2, vs) ==
    [k |-> k, v |-> v, w |-> w, c |-> c, a |-> a, id |-> id, r |-> r, b |-> b, b2 |-> b2, vs |-> vs]
Const(v, c) == N("const", v, "", c, "", 0, "", <<>>, <<>>, <<>>)
Inc(v, w) == N("inc", v, w, 0, "", 0, "", <<>>, <<>>, <<>>)
Dec(v, w) == N("dec", v, w, 0, "", 0, "", <<>>, <<>>, <<>>)
Copy(v, w) == N("copy", v, w, 0, "", 0, "", <<>>, <<>>, <<>>)
Blk(v, a, id, b, r) == N("blk", v, "", 0, a, id, r, b, <<>>, <<>>)
Call0(v, w) == N("call0", v, w, 0, "", 0, "", <<>>, <<>>, <<>>)
Call1c(v, w, c) == N("call1c", v, w, c, "", 0, "", <<>>, <<>>, <<>>)
Call1v(v, w, a) == N("call1v", v, w, 0, a, 0, "", <<>>, <<>>, <<>>)
Ret(w) == N("ret", "", w, 0, "", 0, "", <<>>, <<>>, <<>>)
Throw == N("throw", "", "", 0, "", 0, "", <<>>, <<>>, <<>>)
Try(b, b2) == N("try", "", "", 0, "", 0, "", b, b2, <<>>)
Ifnz(w, b) == N("ifnz", "", w, 0, "", 0, "", b, <<>>, <<>>)
Rep(v, c, b) == N("rep", v, "", c, "", 0, "", b, <<>>, <<>>)
Obs(vs) == N("obs", "", "", 0, "", 0, "", <<>>, <<>>, vs)

\* call with the right number of arguments for a block whose parameter is a
CallP(v, w, a, c) == IF a = "" THEN Call0(v, w) ELSE Call1c(v, w, c)

\* simple statements over the variables V (reads from R)
Simple(V, R) == {Const(v, 1) : v \in V} \cup {Inc(v, w) : v \in V, w \in R} \cup {Copy(v, w) : v \in V, w \in R \ V}
SeqsUpTo(S, n) == UNION {[1..m -> S] : m \in 0..n}

\* F1: one block, called twice; does the block's variable live in F, is it private per call,
\*     does a parameter hide the outer variable
F1 == {<<i, p, b, r, o>> \in {0, 1} \X {"", "p", "x"} \X SeqsUpTo(Simple({"x", "t"}, {"x", "t", "p"}) \cup {Throw, Ret("x")}, BodyLen)
                              \X {"", "x", "t", "p"} \X {0, 1} : TRUE}
F1Prog(c) ==
    LET i == c[1] p == c[2] b == c[3] r == c[4] o == c[5] IN
    (IF i = 1 THEN <<Const("x", 0)>> ELSE <<>>) \o
    <<Blk("f", p, 1, b, r), CallP("y", "f", p, 5), CallP("z", "f", p, 8),
      Obs(IF o = 1 THEN <<"x", "y", "z">> ELSE <<"y", "z">>)>>

\* F2: a block that makes and returns an inner block (factory, escaping closures):
\*     captured parameter, captured block variable, shadowing in the inner block
F2 == {<<p, j, q, b, r, o>> \in {"p", "x"} \X {0, 1, 2} \X {"", "q", "p"}
                                \X SeqsUpTo(Simple({"x", "t"}, {"x", "t", "p", "q"}), BodyLen) \X {"x", "t", "p", "q"} \X {0, 1} : TRUE}
F2Prog(c) ==
    LET p == c[1] j == c[2] q == c[3] b == c[4] r == c[5] o == c[6]
        pre == CASE j = 0 -> <<>> [] j = 1 -> <<Const("t", 0)>> [] j = 2 -> <<Copy("t", p)>>
    IN <<Blk("f", p, 1, pre \o <<Blk("g", q, 2, b, r)>>, "g"),
         Call1c("h", "f", 1), Call1c("u", "f", 2),
         CallP("y", "h", q, 3), CallP("z", "u", q, 4), CallP("t", "h", q, 5),
         Obs(IF o = 1 THEN <<"y", "z", "t", "h", "u">> ELSE <<"y", "z", "t">>)>>

\* F3: recursion through a block; a parameter captured (or not) by an inner block
F3 == {<<cap, b, r>> \in {0, 1, 2} \X SeqsUpTo(Simple({"x", "t", "q"}, {"x", "t", "p", "q"}), BodyLen) \X {"p", "q", "t", "x"} : TRUE}
F3Prog(c) ==
    LET cap == c[1] b == c[2] r == c[3]
        inner == CASE cap = 0 -> <<>>
                   [] cap = 1 -> <<Blk("g", "", 2, <<>>, "p")>>
                   [] cap = 2 -> <<Blk("g", "", 2, <<>>, "p"), Call0("x", "g")>>
    IN <<Const("x", 0),
         Blk("f", "p", 1, <<Ifnz("p", <<Dec("q", "p"), Call1v("t", "f", "q")>>)>> \o inner \o b, r),
         Call1c("y", "f", 2), Obs(<<"x", "y">>)>>

\* F4: return from a block, exceptions through blocks, try/catch in F and in the block
F4 == {<<e, b, w, o>> \in {0, 1, 2, 3, 4} \X SeqsUpTo(Simple({"x", "t"}, {"x", "t", "p"}), BodyLen) \X {0, 1} \X {0, 1} : TRUE}
F4Prog(c) ==
    LET e == c[1] b == c[2] w == c[3] o == c[4]
        ending == CASE e = 0 -> <<>> [] e = 1 -> <<Ret("p")>> [] e = 2 -> <<Throw>>
                    [] e = 3 -> <<Try(<<Throw>>, <<Inc("x", "x")>>)>>
                    \* return from a block nested in f, called inside a try of f: not an exception
                    [] e = 4 -> <<Blk("g", "", 2, <<Ret("p")>>, ""), Try(<<Call0("t", "g")>>, <<Const("x", 7)>>)>>
        callf == <<Call1c("y", "f", 3), Inc("x", "x")>>
    IN <<Const("x", 0), Blk("f", "p", 1, b \o ending, "x")>> \o
       (IF w = 1 THEN <<Try(callf, <<Const("z", 9)>>)>> ELSE callf) \o
       <<Obs(IF o = 1 THEN <<"x", "y">> ELSE <<"x">>)>>

\* F5: blocks created in a loop: all of them share the cells of the one invocation of F
\*     (including the loop variable)
F5 == {<<b, r, cl, o>> \in SeqsUpTo(Simple({"x", "t"}, {"x", "t", "i"}), BodyLen) \X {"x", "t", "i"} \X {0, 1, 2} \X {0, 1} : TRUE}
F5Prog(c) ==
    LET b == c[1] r == c[2] cl == c[3] o == c[4]
        inloop == CASE cl = 0 -> <<>>
                    [] cl = 1 -> <<Call0("y", "f")>>
                    [] cl = 2 -> <<Ifnz("i", <<Copy("g", "f")>>)>>
    IN <<Const("x", 0), Const("y", 0), Rep("i", 2, <<Blk("f", "", 1, b, r)>> \o inloop),
         Call0("z", "f"), Obs(IF o = 1 THEN <<"x", "y", "z", "i">> ELSE <<"y", "z", "f">>)>>

Progs == (IF 1 \in Family THEN {F1Prog(c) : c \in F1} ELSE {}) \cup
         (IF 2 \in Family THEN {F2Prog(c) : c \in F2} ELSE {}) \cup
         (IF 3 \in Family THEN {F3Prog(c) : c \in F3} ELSE {}) \cup
         (IF 4 \in Family THEN {F4Prog(c) : c \in F4} ELSE {}) \cup
         (IF 5 \in Family THEN {F5Prog(c) : c \in F5} ELSE {})

MCInit == prog \in Progs
MCNext == UNCHANGED prog
MCSpec == MCInit /\ [][MCNext]_prog

\* invariants, evaluated on every program
SlotsOK == SlotsImplementModel(prog, DevNoParamShare)
FunctionBlocksOK == FunctionBlocksShareNothing(prog)
EvalTotal == RunF(prog).ctl \in {"nil", "exc", "ret", "obs", "undef"}

\* generation: print every program
GenPrint == PrintT(<<"PROGRAM", ToJson(prog)>>)
====
