---- MODULE MC_Container ----
(* model checking / generation wrapper for Container.tla *)
EXTENDS Container, Json
VARIABLE hist
MCVals == {<<0, 0>>, <<2, 0>>, <<1, 1>>, <<1, 2>>}
MCVals3 == {<<0, 0>>, <<1, 1>>, <<1, 2>>}
\* key / position sets (negative numbers cannot be written in a cfg file)
KeysQ == {0, 1, 2, 3, 100}
AtsQ == {-1, 0, 1, 3}
KeysS == {0, 2, 100}
AtsS == {0, 2}
KeysT == {-1, 0, 1, 2, 3, 4, 100}
AtsT == {-2, -1, 0, 1, 2, 3, 5}
KeysD == {0, 1, 100}
AtsD == {0, 1}
KeysG == {-1, 0, 1, 2, 3, 4, 5, 100, 101}
AtsG == {-2, -1, 0, 1, 2, 3, 4, 6}
SlicesQ == {-1, 1}
SlicesG == {-3, -2, -1, 0, 1, 2, 3, 5}
MCInit == Init /\ hist = <<>>
MCNext == Next /\ hist' = Append(hist, [op |-> out'.op, o |-> out'.o, k |-> out'.k, x |-> out'.x, n |-> out'.n])
MCSpec == MCInit /\ [][MCNext]_<<vars, hist>>
\* the length of the history is part of the state identity so that the depth bound is exact
MCView == <<objs, Len(hist)>>
CONSTANT MaxDepth
Depth == Len(hist) < MaxDepth
GenPrint == Len(hist) < MaxDepth \/ PrintT(<<"BEHAVIOUR", ToJson(hist)>>)
====
