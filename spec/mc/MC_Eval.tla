---- MODULE MC_Eval ----
(* C30 / C25, design level: the reference evaluator Values!Eval is total and satisfies    *)
(* the algebraic laws the language promises, exhaustively over every operator and every  *)
(* pair (triple for ?: and in) of values of a universe containing every type.  One state *)
(* per (operator, operands) combination.                                                 *)
EXTENDS Values

CONSTANTS Big,     \* larger value universe
          DevLtGte \* self-test deviation: "<" on two strings answers like ">" (must violate LtGte)

N(s) == CASE s = "0" -> Zero [] s = "1" -> Num(1, 1, <<1>>) [] s = "2" -> Num(1, 1, <<2>>)
          [] s = "-1" -> Num(-1, 1, <<1>>) [] s = ".5" -> Num(1, 0, <<5>>) [] s = "1.5" -> Num(1, 1, <<1, 5>>)
          [] s = "10" -> Num(1, 2, <<1>>) [] s = "255" -> Num(1, 3, <<2, 5, 5>>) [] s = "3" -> Num(1, 1, <<3>>)
          [] s = "1e20" -> Num(1, 21, <<1>>) [] s = "inf" -> Num(2, 0, <<>>) [] s = "-2.5" -> Num(-1, 1, <<2, 5>>)
          [] s = "100000" -> Num(1, 6, <<1>>)

Vals == IF Big
        THEN <<True, False, N("0"), N("1"), N("2"), N("3"), N("-1"), N(".5"), N("1.5"), N("-2.5"), N("10"), N("255"),
               N("100000"), N("1e20"), N("inf"),
               EmptyStr, Str(<<97>>), Str(<<97, 98>>), Str(<<49>>), Str(<<48>>),
               Date(20200101, 0, 0), Date(20200101, 0, 3), Obj(<<>>, <<>>), Obj(<<N("1"), N("2")>>, <<>>),
               Obj(<<>>, << <<Str(<<97>>), N("1")>> >>)>>
        ELSE <<True, False, N("0"), N("1"), N("2"), N("-1"), N(".5"), N("255"), N("1e20"),
               EmptyStr, Str(<<97>>), Str(<<49>>), Date(20200101, 0, 0), Obj(<<>>, <<>>), Obj(<<N("1")>>, <<>>)>>
NV == Len(Vals)

Un  == {"neg", "pos", "not", "bitnot", "isnum", "isstr", "isdate"}
Bin == {"is", "isnt", "lt", "lte", "gt", "gte", "add", "sub", "mul", "div", "mod", "lshift", "rshift",
        "bitor", "bitand", "bitxor", "cat", "and", "or"}
Tri == {"if", "in"}

VARIABLES op, i, j, k       \* operator and the indexes of its operands in Vals (k only for Tri)
vars == <<op, i, j, k>>
Init == /\ op \in Un \cup Bin \cup Tri
        /\ i \in 1..NV
        /\ j \in (IF op \in Un THEN {1} ELSE 1..NV)
        /\ k \in (IF op \in Tri THEN 1..NV ELSE {1})
Next == UNCHANGED vars
Spec == Init /\ [][Next]_vars

X(n) == [op |-> "x", i |-> n]
Env == <<Vals[i], Vals[j], Vals[k]>>
E1(o) == [op |-> o, a |-> <<X(1)>>]
E2(o) == [op |-> o, a |-> <<X(1), X(2)>>]
E2r(o) == [op |-> o, a |-> <<X(2), X(1)>>]
E3(o) == [op |-> o, a |-> <<X(1), X(2), X(3)>>]
Ex == IF op \in Un THEN E1(op) ELSE IF op \in Bin THEN E2(op) ELSE E3(op)
EvalD(e) == LET r == Eval(e, Env)
            IN IF DevLtGte /\ e.op = "lt" /\ Vals[i].t = "str" /\ Vals[j].t = "str" /\ r.k = "v"
               THEN RV(Bool(Cmp(Vals[i], Vals[j]) > 0)) ELSE r
R == EvalD(Ex)
Known(r) == r.k # "u"
NotOf(r) == IF r.k = "v" THEN RV(Bool(~r.v.b)) ELSE r

\* the evaluator is total and its results are well formed
Total == /\ R.k \in {"v", "x", "u"}
         /\ R.k = "v" => WF(R.v)
         /\ R.k = "x" => R.c \in {"type", "arith"}
\* comparisons never fail, are boolean, and are mutually consistent
CmpTotal == op \in CmpOps => (R.k = "v" /\ R.v.t = "bool")
LtGte  == op = "lt"  => SameRes(R, NotOf(EvalD(E2("gte"))))
GtLte  == op = "gt"  => SameRes(R, NotOf(EvalD(E2("lte"))))
IsIsnt == op = "is"  => SameRes(R, NotOf(EvalD(E2("isnt"))))
IsSym  == op \in {"is", "isnt"} => SameRes(R, EvalD(E2r(op)))
LtGt   == op = "lt"  => SameRes(R, EvalD(E2r("gt")))
LteIs  == op = "lte" => (R.v.b <=> (EvalD(E2("lt")).v.b \/ Eq(Vals[i], Vals[j]) \/ Cmp(Vals[i], Vals[j]) = 0))
\* arithmetic: commutative where known, a - b = a + (-b), exceptions only for operands that
\* are neither numbers nor false / ""
Commut == (op \in {"add", "mul", "bitor", "bitand", "bitxor"} /\ Known(R) /\ Known(EvalD(E2r(op))))
             => (R.k = EvalD(E2r(op)).k /\ (R.k = "v" => Eq(R.v, EvalD(E2r(op)).v)))
SubNeg == (op = "sub" /\ R.k = "v") =>
             LET nb == Eval(E1("neg"), <<Vals[j]>>)
             IN nb.k = "v" /\ SameRes(R, Eval(E2("add"), <<Vals[i], nb.v>>))
ArithType == (op \in {"add", "sub", "mul", "div"}) =>
             ((R.k = "x") <=> (~(Vals[i].t = "num" \/ IsFalseOrEmpty(Vals[i])) \/ ~(Vals[j].t = "num" \/ IsFalseOrEmpty(Vals[j]))))
NumResult == (op \in MathOps /\ R.k = "v") => R.v.t = "num"
DivZero == (op = "div" /\ Vals[i].t = "num" /\ Vals[j] = Zero /\ Vals[i].ns \in {-1, 1}) => (R.k = "v" /\ R.v.ns \in {-2, 2})
ModZero == (op = "mod" /\ IntR(Vals[i]).k = "v" /\ IntR(Vals[j]).k = "v" /\ IntR(Vals[j]).n = 0) => R = ArithErr
\* boolean operators: short circuit and De Morgan
AndOr == op \in {"and", "or"} =>
            /\ (Vals[i].t # "bool") => R = TypeErr
            /\ (Vals[i] = True /\ op = "or") => R = RV(True)        \* right operand not looked at
            /\ (Vals[i] = False /\ op = "and") => R = RV(False)
            /\ (Vals[i].t = "bool" /\ Vals[j].t = "bool") =>
                 R = RV(Bool(IF op = "and" THEN Vals[i].b /\ Vals[j].b ELSE Vals[i].b \/ Vals[j].b))
\* ?: selects lazily; in is a disjunction of is
IfLaw == op = "if" => (IF Vals[i].t # "bool" THEN R = TypeErr ELSE R = RV(IF Vals[i].b THEN Vals[j] ELSE Vals[k]))
InLaw == op = "in" => R = RV(Bool(Eq(Vals[i], Vals[j]) \/ Eq(Vals[i], Vals[k])))
\* concatenation: strings concatenate, numbers and booleans are displayed, dates / objects fail
CatLaw == op = "cat" =>
            /\ (Vals[i].t = "str" /\ Vals[j].t = "str") => R = RV(Str(Vals[i].c \o Vals[j].c))
            /\ (Vals[i].t \in {"date", "obj"}) => R = TypeErr
            /\ R.k = "v" => R.v.t = "str"
\* the stored-encoding order differs from the value order only where an empty string meets a
\* boolean or a number (the documented exception of C25)
RawOnlyEmpty == op \in {"lt", "lte", "gt", "gte"} =>
                  LET raw == EvalP(Ex, Env, <<>>, {<<>>})
                  IN /\ raw \in EvalSet(Ex, Env) /\ R \in EvalSet(Ex, Env)
                     /\ raw # R => \/ IsEmptyStr(Vals[i]) /\ Vals[j].t \in {"bool", "num"}
                                   \/ IsEmptyStr(Vals[j]) /\ Vals[i].t \in {"bool", "num"}
RawDiffers == (op = "lt" /\ IsEmptyStr(Vals[i]) /\ Vals[j].t = "num") => EvalP(Ex, Env, <<>>, {<<>>}) # R
\* static diagnostics: an all-literal program gets a compile-time diagnostic whenever it is erroneous
DiagLaw == (R.k = "x") => LitDiag(Ex, Env, <<TRUE, TRUE, TRUE>>)
NoDiagOnParams == ~LitDiag(Ex, Env, <<FALSE, FALSE, FALSE>>)
====
