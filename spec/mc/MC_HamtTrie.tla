---- MODULE MC_HamtTrie ----
EXTENDS HamtTrie
\* keys 1 and 2 collide on every level (overflow node), 3 collides with them on
\* level 1 only, 4 is alone in its slot, 5 collides with 3 on both... see cfgs
MC_Hash4 == (1 :> <<0, 0>>) @@ (2 :> <<0, 0>>) @@ (3 :> <<0, 1>>) @@ (4 :> <<1, 0>>)
MC_Hash5 == (1 :> <<0, 0>>) @@ (2 :> <<0, 0>>) @@ (3 :> <<0, 1>>) @@ (4 :> <<0, 1>>) @@ (5 :> <<0, 0>>)
MC_Hash3deep == (1 :> <<0, 0, 0>>) @@ (2 :> <<0, 0, 1>>) @@ (3 :> <<0, 0, 0>>) @@ (4 :> <<0, 1, 0>>)
====
