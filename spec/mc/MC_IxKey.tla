------------------------------ MODULE MC_IxKey ------------------------------
(* Exhaustive small-scope check of the key encoding design (C12).            *)
(* Every pair <<a, b>> of NF-field tuples over Alphabet with fields of       *)
(* length <= MaxLen is one state; the properties are invariants.             *)
EXTENDS IxKey, TLC

CONSTANTS Alphabet,   \* byte values used (0 and 1 are the special ones, 255 for Max)
          MaxLen,     \* maximal field length
          NF,         \* number of fields of the tuples
          DevSwapEsc, \* deviation (self-test): escape 0 as 0,0 and separate with 0,1
          DevTruncNoTrim \* deviation: TruncFunc as in the pinned commit (no trimming)

VARIABLES a, b, ph
vars == <<a, b, ph>>

FieldSet == UNION {[1..n -> Alphabet] : n \in 0..MaxLen}
Tuples == [1..NF -> FieldSet]

Init == a \in Tuples /\ b = a /\ ph = 0
Next == ph = 0 /\ ph' = 1 /\ b' \in Tuples /\ a' = a
Spec == Init /\ [][Next]_vars

----------------------------------------------------------------------------
\* the encoding under test: the specified one, or the deviation
RECURSIVE EncFieldDev(_)
EncFieldDev(f) == IF f = <<>> THEN <<>>
                  ELSE (IF Head(f) = 0 THEN <<0, 0>> ELSE <<Head(f)>>) \o EncFieldDev(Tail(f))
RECURSIVE JoinDev(_)
JoinDev(t) == IF t = <<>> THEN <<>>
              ELSE IF Len(t) = 1 THEN EncFieldDev(t[1])
              ELSE EncFieldDev(t[1]) \o <<0, 1>> \o JoinDev(Tail(t))
E(t) == IF DevSwapEsc THEN JoinDev(Trim(t)) ELSE Enc(t)

\* splits of a tuple into primary / secondary fields for the Fields2 rule
Splits == 1..(NF - 1)
P(t, s) == SubSeq(t, 1, s)
S(t, s) == SubSeq(t, s + 1, NF)

----------------------------------------------------------------------------
(* Properties (C12) *)

\* byte order of keys = field order of tuples
OrderPreserved == CmpSeq(E(a), E(b)) = CmpTuple(a, b)

\* distinct tuples (up to trailing empty fields) have distinct keys
Injective == (E(a) = E(b)) => (Trim(a) = Trim(b))

\* Spec.Key / Spec.Compare incl. the single-field and the Fields2 rules
KeyOrder ==
    /\ CmpSeq(KeyOf(a, <<>>), KeyOf(b, <<>>)) = CmpRec(a, <<>>, b, <<>>)
    /\ \A s \in Splits :
          CmpSeq(KeyOf(P(a, s), S(a, s)), KeyOf(P(b, s), S(b, s)))
              = CmpRec(P(a, s), S(a, s), P(b, s), S(b, s))
    /\ CmpSeq(KeyOf(<<a[1]>>, <<>>), KeyOf(<<b[1]>>, <<>>)) = CmpSeq(a[1], b[1])

\* decoding recovers the fields
\* (properties of a single tuple are evaluated in the states with ph = 0, where a = b)
DecodeInverse == ph = 0 =>
    /\ Decode(Enc(b)) = Trim(b)
    /\ \A i \in 0..NF : Decode1(Enc(b), i) = Pad(Trim(b), NF + 1)[i + 1]

\* HasPrefix is "leading fields match"
PrefixByField ==
    \A n \in 1..NF : HasPrefixB(Enc(a), Enc(Lead(b, n))) = LeadingMatch(a, Lead(b, n))

\* prefix/suffix split and join
SplitJoin == ph = 0 =>
    \A n \in 1..NF :
       /\ SplitPS(Enc(b), n) = <<Enc(Lead(b, n)), Enc(Rest(b, n))>>
       /\ \A x \in {Enc(Rest(b, n)), Enc(<<b[1]>>), MaxKey, <<>>} :
             JoinPS(Enc(Lead(b, n)), n, x) = JoinEnc(Lead(b, n)) \o Sep \o x
       /\ (~AllEmpty(Rest(b, n))) =>
             JoinPS(SplitPS(Enc(b), n)[1], n, SplitPS(Enc(b), n)[2]) = Enc(b)

\* TruncFunc converts a key of an index to the key of an index on its leading fields
TruncIsKeyOfLeading == ph = 0 =>
    /\ \A n2 \in 1..NF :
          TruncB(KeyOf(b, <<>>), NF, FALSE, n2, ~DevTruncNoTrim) = KeyOf(Lead(b, n2), <<>>)
    /\ \A s \in Splits : \A n2 \in 1..s :
          TruncB(KeyOf(P(b, s), S(b, s)), s, TRUE, n2, ~DevTruncNoTrim) = KeyOf(Lead(P(b, s), n2), <<>>)

\* rangeEnd: the code's scan equals its declarative meaning, and [key, end) selects
\* exactly the tuples whose leading n fields are the given ones
RangeEndSelects ==
    \A n \in 1..NF :
       LET p == Lead(a, n) IN
       /\ ph = 0 => RangeEndB(Enc(p), n) = RangeEndOf(p, n)
       /\ InRangeB(Enc(b), Enc(p), RangeEndB(Enc(p), n)) = (Lead(b, n) = p)
=============================================================================
