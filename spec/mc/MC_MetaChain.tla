---- MODULE MC_MetaChain ----
EXTENDS MetaChain
====
