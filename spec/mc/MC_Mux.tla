---- MODULE MC_Mux ----
EXTENDS Mux
CONSTANTS s1, s2, s3
Sym == Permutations({s1, s2, s3})
Sym2 == Permutations({s1, s2})
====
