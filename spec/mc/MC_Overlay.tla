---- MODULE MC_Overlay ----
EXTENDS Overlay
\* ranges over key ranks 0..K+1 and skip-scan ranges over prefix/suffix ranks
MC_Ranges4 == {<<2, 4>>, <<1, 3>>}
MC_Skips22 == {<<0, 3, 2, 3>>, <<2, 3, 1, 2>>}
MC_Ranges6 == {<<2, 5>>, <<3, 7>>}
MC_Skips23 == {<<0, 3, 2, 4>>, <<1, 2, 1, 3>>, <<2, 3, 2, 3>>}
MC_Ranges4a == {<<2, 4>>}
MC_Skips22a == {<<0, 3, 2, 3>>}
MC_None == {}
====
