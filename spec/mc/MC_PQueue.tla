---- MODULE MC_PQueue ----
EXTENDS PQueue
CONSTANTS p1, p2, p3
MC_OwnTrans2 == (p1 :> {1}) @@ (p2 :> {2})
MC_OwnTrans3 == (p1 :> {1}) @@ (p2 :> {2}) @@ (p3 :> {3})
====
