---- MODULE MC_Record ----
(* model checking / generation wrapper for Record.tla: adds the operation history *)
EXTENDS Record, Json
VARIABLE hist
MCInit == Init /\ hist = <<>>
MCNext == Next /\ hist' = Append(hist, [op |-> out'.op, r |-> out'.r, f |-> out'.f,
                                         v |-> out'.v, q |-> out'.q, o |-> out'.o])
MCSpec == MCInit /\ [][MCNext]_<<vars, hist>>
\* exhaustive runs: the history and the observation are not part of the state identity
MCView == <<recs, obs, link>>
CONSTANT MaxDepth
Depth == Len(hist) < MaxDepth
\* generation (simulation mode, -depth MaxDepth+1): print every behaviour of full length
GenPrint == Len(hist) < MaxDepth \/ PrintT(<<"BEHAVIOUR", ToJson(hist)>>)
====
