---- MODULE MC_Record ----
(* model checking / generation wrapper for Record.tla: adds the operation history *)
EXTENDS Record, Json
VARIABLE hist
MCInit == Init /\ hist = <<>>
MCNext == Next /\ hist' = Append(hist, [op |-> out'.op, r |-> out'.r, f |-> out'.f,
                                         v |-> out'.v, q |-> out'.q, o |-> out'.o])
MCSpec == MCInit /\ [][MCNext]_<<vars, hist>>
\* exhaustive runs only need the length of the history (depth bound)
MCNextX == Next /\ hist' = Append(hist, 0)
MCSpecX == MCInit /\ [][MCNextX]_<<vars, hist>>
\* exhaustive runs: the observation and the content of the history are not part of the state
\* identity; its length is, so that the depth bound is exact (every state reachable within
\* MaxDepth operations is explored, independent of the order in which workers find states)
MCView == <<recs, obs, link, Len(hist)>>
CONSTANT MaxDepth
Depth == Len(hist) < MaxDepth
\* generation (simulation mode, -depth MaxDepth+1): print every behaviour of full length
GenPrint == Len(hist) < MaxDepth \/ PrintT(<<"BEHAVIOUR", ToJson(hist)>>)
====
