---------------------------- MODULE MC_Relational ----------------------------
(* Exhaustive sanity check of the denotation itself (C22-C24 oracle):        *)
(* TLC enumerates every database of a tiny universe and every query AST up   *)
(* to MaxDepth operators built from a small vocabulary, and checks the       *)
(* algebraic laws the relational operators must satisfy.  A wrong Denote     *)
(* (e.g. project without duplicate removal, leftjoin fill, summarize groups) *)
(* violates one of them.                                                     *)
(* A second, independent state machine (the cursor of C23) is explored by    *)
(* the Cursor* configuration.                                                *)
EXTENDS Relational

CONSTANTS MaxDepth,     \* number of operators applied on top of a base table
          MaxRows,      \* rows of base table t1
          MaxRows2,     \* rows of base table t2
          NVals,        \* numeric values 1..NVals (plus "" if WithEmpty)
          WithEmpty,
          DevNoDedup,   \* deviation for anti-vacuity: project keeps duplicates (as a bag would)
          DevSharedPrefix, \* deviation: exploded index prefixes share storage (Relational.tla Explode)
          DevStreamInsert  \* deviation: an insert query writes while its source is still being read

VARIABLES db, q, depth, cur

vars == <<db, q, depth, cur>>

Vals == {VNum(i) : i \in 1..NVals} \cup (IF WithEmpty THEN {VEmpty} ELSE {})

T1Cols == {"a", "b"}
T2Cols == {"b", "c"}
Tabs(C, n) == {S \in SUBSET [C -> Vals] : Cardinality(S) <= n}

Tbl(n) == [op |-> "table", name |-> n]

Const(v) == [k |-> "const", v |-> v]
Col(c) == [k |-> "col", c |-> c]
Preds(C) == {[k |-> "cmp", o |-> "is", a |-> Col(c), b |-> Const(VNum(1))] : c \in C}
            \cup {[k |-> "cmp", o |-> "lt", a |-> Col(c), b |-> Const(VNum(2))] : c \in C}

Where(x, p) == [op |-> "where", src |-> x, e |-> p]
RECURSIVE SetToSeq(_)
SetToSeq(S) == IF S = {} THEN <<>> ELSE LET x == CHOOSE y \in S : TRUE IN <<x>> \o SetToSeq(S \ {x})
Project(x, C) == [op |-> "project", src |-> x, cols |-> SetToSeq(C)]
Remove(x, C) == [op |-> "remove", src |-> x, cols |-> SetToSeq(C)]
Rename(x, f, t) == [op |-> "rename", src |-> x, from |-> <<f>>, to |-> <<t>>]
Extend(x, c, e) == [op |-> "extend", src |-> x, cols |-> <<c>>, exprs |-> <<e>>]
Summ(x, by, col, o, on) == [op |-> "summarize", src |-> x, by |-> by, cols |-> <<col>>,
                            ops |-> <<o>>, ons |-> <<on>>, whole |-> FALSE]
Bin(o, x, y) == [op |-> o, l |-> x, r |-> y]

D(x) == Denote(x, db)
C(x) == Cols(x, db)

\* successors of a query: one more operator
Succ(x) ==
    LET cs == C(x)
    IN {Where(x, p) : p \in Preds(cs)}
       \cup {Project(x, P) : P \in (SUBSET cs) \ {{}, cs}}
       \cup (IF "z" \in cs THEN {} ELSE {Rename(x, c, "z") : c \in cs})
       \cup (IF "x" \in cs THEN {} ELSE
               {Extend(x, "x", Const(VNum(1)))}
               \cup {Extend(x, "x", [k |-> "arith", o |-> "add", a |-> Col(c), b |-> Const(VNum(1))]) : c \in cs})
       \cup {Summ(x, <<>>, "n", "count", "")}
       \cup {Summ(x, <<c>>, "n", "count", "") : c \in cs \ {"n"}}
       \cup UNION {{Summ(x, <<c>>, "m", o, d) : d \in cs \ {c, "m"}, o \in {"max", "total"}} : c \in cs \ {"m"}}
       \cup UNION {{Bin(o, x, Tbl(t)) : o \in
                        (IF cs \cap db[t].cols # {} THEN {"join", "leftjoin", "semijoin"} ELSE {"times"})
                        \cup (IF cs = db[t].cols THEN {"union", "intersect", "minus"} ELSE {})}
                   : t \in {"t1", "t2"}}

Init == /\ db \in {[t1 |-> [cols |-> T1Cols, rows |-> r1], t2 |-> [cols |-> T2Cols, rows |-> r2]] :
                       r1 \in Tabs(T1Cols, MaxRows), r2 \in Tabs(T2Cols, MaxRows2)}
        /\ q \in {Tbl("t1"), Tbl("t2")}
        /\ depth = 0
        /\ cur = <<>>

Next == /\ depth < MaxDepth
        /\ q' \in Succ(q)
        /\ depth' = depth + 1
        /\ UNCHANGED <<db, cur>>

Spec == Init /\ [][Next]_vars

-----------------------------------------------------------------------------
(* Laws *)

\* the deviation: a projection that does not remove duplicates cannot be a set of rows;
\* modelled by tagging each projected row with the source row it came from
BagProject(x, P) == {<<Restrict(r, P), r>> : r \in D(x)}
ProjCard(x, P) == IF DevNoDedup THEN Cardinality(BagProject(x, P))
                  ELSE Cardinality(D(Project(x, P)))

WellFormed == \A r \in D(q) : DOMAIN r = C(q)

LawProject ==
    \A P1 \in (SUBSET C(q)) \ {{}} :
        /\ \A P2 \in (SUBSET P1) \ {{}} :
              D(Project(Project(q, P1), P2)) = D(Project(q, P2))
        /\ D(Project(q, P1)) = {Restrict(r, P1) : r \in D(q)}
        \* duplicates are removed: as many rows as distinct value combinations
        /\ ProjCard(q, P1) = Cardinality({Restrict(r, P1) : r \in D(q)})
        /\ (P1 # C(q) => D(Remove(q, C(q) \ P1)) = D(Project(q, P1)))

\* (pairs: every predicate with the "is" and the "lt" predicate of one fixed column)
LawWhere ==
    \A p1 \in Preds(C(q)) : \A p2 \in Preds({CHOOSE c \in C(q) : TRUE}) :
        /\ D(Where(Where(q, p1), p2)) = D(Where(Where(q, p2), p1))
        /\ D(Where(Where(q, p1), p2)) = D(Where(q, [k |-> "and", es |-> <<p1, p2>>]))
        /\ D(Where(q, p1)) \cup D(Where(q, [k |-> "not", a |-> p1])) = D(q)
        /\ D(Where(q, [k |-> "or", es |-> <<p1, p2>>])) = D(Where(q, p1)) \cup D(Where(q, p2))

LawSets ==
    \A p \in Preds(C(q)) :
        LET r == Where(q, p)
        IN /\ D(Bin("union", q, r)) = D(q)
           /\ D(Bin("union", r, q)) = D(Bin("union", q, r))
           /\ D(Bin("intersect", q, r)) = D(r)
           /\ D(Bin("minus", q, q)) = {}
           /\ D(Bin("minus", q, Bin("minus", q, r))) = D(Bin("intersect", q, r))
           /\ D(Bin("union", Bin("minus", q, r), Bin("intersect", q, r))) = D(q)
           /\ \A p2 \in Preds({CHOOSE c \in C(q) : TRUE}) :
                D(Where(Bin("union", q, r), p2)) = D(Bin("union", Where(q, p2), Where(r, p2)))

LawJoin ==
    /\ D(Bin("join", q, q)) = D(q)
    /\ D(Bin("semijoin", q, q)) = D(q)
    /\ \A t \in {"t1", "t2"} :
          LET r == Tbl(t)
              com == C(q) \cap C(r)
          IN IF com = {} THEN
                 Cardinality(D(Bin("times", q, r))) = Cardinality(D(q)) * Cardinality(D(r))
             ELSE /\ D(Bin("join", q, r)) = D(Bin("join", r, q))
                  /\ D(Bin("join", q, r)) \subseteq D(Bin("leftjoin", q, r))
                  \* every left row survives a leftjoin, exactly the matching ones survive a semijoin
                  /\ D(Project(Bin("leftjoin", q, r), C(q))) = D(q)
                  /\ D(Bin("semijoin", q, r)) = D(Project(Bin("join", q, r), C(q)))
                  \* unmatched rows are filled with ""
                  /\ \A x \in D(Bin("leftjoin", q, r)) \ D(Bin("join", q, r)) :
                        \A c \in C(r) \ C(q) : x[c] = VEmpty
                  \* where on left columns commutes with leftjoin
                  /\ \A p \in Preds(C(q)) :
                        D(Where(Bin("leftjoin", q, r), p)) = D(Bin("leftjoin", Where(q, p), r))

LawSummarize ==
    /\ D(q) # {} => D(Summ(q, <<>>, "n", "count", "")) = {("n" :> VNum(Cardinality(D(q))))}
    /\ D(q) = {} => D(Summ(q, <<>>, "n", "count", "")) = {}
    /\ \A c \in C(q) \ {"n"} :
          LET s == Summ(q, <<c>>, "n", "count", "")
          IN /\ D(Project(s, {c})) = D(Project(q, {c}))
             /\ D(Summ(s, <<>>, "t", "total", "n")) =
                    IF D(q) = {} THEN {} ELSE {("t" :> VNum(Cardinality(D(q))))}

LawRenameExtend ==
    /\ "z" \notin C(q) => \A c \in C(q) : D(Rename(Rename(q, c, "z"), "z", c)) = D(q)
    /\ "x" \notin C(q) =>
          /\ D(Remove(Extend(q, "x", Const(VNum(1))), {"x"})) = D(q)
          /\ D(Where(Extend(q, "x", Const(VNum(1))), [k |-> "cmp", o |-> "is", a |-> Col("x"), b |-> Const(VNum(1))]))
               = D(Extend(q, "x", Const(VNum(1))))


\* reading a composite index once per exploded prefix = the where with the conjunction of the
\* per-column in-lists, each row ONCE (index over all columns of q, every choice of values)
AltSeqs == {SetToSeq(X) : X \in (SUBSET Vals) \ {{}}}
LawIndexSpans ==
    LET ic == SetToSeq(C(q))
        n == Len(ic)
    IN \A alts \in [1..n -> AltSeqs] :
         LET reads == IndexReads(D(q), ic, alts, DevSharedPrefix)
             cond == [k |-> "and", es |-> [i \in 1..n |->
                          [k |-> "in", a |-> Col(ic[i]), vs |-> alts[i]]]]
             want == D(Where(q, cond))
         IN /\ UNION {reads[k] : k \in 1..Len(reads)} = want
            /\ SumCard(reads) = Cardinality(want)

\* `insert (q rename c to z extend c = z + d remove z) into t` for a base table t = q: the new
\* table is the old one plus one shifted row per OLD row, the count is the number of old rows
LawInsertQuery ==
    q.op = "table" =>
      \A c \in C(q) : \A d \in {1, NVals} :
        LET T == D(q)
            Shift(r) == [r EXCEPT ![c] = VNum(r[c][2] + d)]
            res == ScanInsert(T, T, 0, c, Shift, ~DevStreamInsert, 20)
        IN (\A r \in T : r[c][1] = 2) =>
              /\ res.rows = T \cup {Shift(r) : r \in T}
              /\ res.n = Cardinality(T)

-----------------------------------------------------------------------------
(* Cursor machine (C23) explored on its own: sequences of Rewind/Next/Prev   *)
(* over a result of N rows.  cur = <<st, pos, trail>>                        *)
CONSTANT N
CInit == /\ cur = [st |-> "rewound", pos |-> 0, last |-> 0, steps |-> 0]
         /\ db = <<>> /\ q = <<>> /\ depth = 0
CStep(dir) ==
    LET nx == CursorNext(cur.st, cur.pos, N, dir)
    IN cur' = [st |-> nx.st, pos |-> nx.pos, last |-> nx.ret, steps |-> cur.steps + 1]
CRewind == cur' = [cur EXCEPT !.st = "rewound", !.pos = 0, !.last = 0, !.steps = @ + 1]
CNext == /\ cur.steps < 2 * N + 3
         /\ (CStep("next") \/ CStep("prev") \/ CRewind)
         /\ UNCHANGED <<db, q, depth>>
CSpec == CInit /\ [][CNext]_vars

CursorInRange == /\ cur.last \in 0..N
                 /\ (cur.st = "within" => cur.pos \in 1..N /\ cur.last = cur.pos)
                 /\ (cur.st # "within" => cur.last = 0)
\* sticks at eof until Rewind; steps move by exactly one row
CursorSticks == [][cur.st = "eof" /\ cur'.st # "rewound" => cur'.st = "eof" /\ cur'.last = 0]_vars
CursorAdjacent == [][(cur.st = "within" /\ cur'.st = "within") =>
                        (cur'.pos = cur.pos + 1 \/ cur'.pos = cur.pos - 1)]_vars
=============================================================================
