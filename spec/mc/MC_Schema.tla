---- MODULE MC_Schema ----
(* Exhaustive exploration of Schema.tla: every sequence of at most MaxDepth   *)
(* requests from a finite request universe (valid and invalid ones) starting  *)
(* with the empty database.                                                   *)
EXTENDS Schema
CONSTANTS MaxDepth,     \* number of requests per sequence
          Modes,        \* index modes used in create / alter create / ensure
          FkModes,      \* fk modes (0 block, 1 cascade update, 3 cascade)
          FkCols,       \* column lists foreign keys may name in the target
          Wide          \* TRUE: also two-column indexes, renames of several columns, third table name

VARIABLE n              \* requests so far
mcvars == <<sch, views, data, n>>

T == {"ta", "tb"}
FkColsA == {<<"a">>}
FkColsAB == {<<"a">>, <<"b">>}
FkColsWide == {<<"a">>, <<"b">>, <<"a", "b">>}
TNames == IF Wide THEN {"ta", "tb", "tc", "tables"} ELSE {"ta", "tb", "tables"}
NoFk3 == [tbl |-> "", cols |-> <<>>, mode |-> 0]
Cols1 == {<<"a">>, <<"b">>, <<"c">>}
Cols2 == IF Wide THEN {<<"a", "b">>, <<"b", "c">>} ELSE {}
FkSpecs(k) == {NoFk3} \cup {[tbl |-> t, cols |-> fc, mode |-> m] :
                              t \in T, fc \in {x \in FkCols : Len(x) = k}, m \in FkModes}
IdxPool == {[mode |-> m, cols |-> c, fk |-> f] : m \in Modes, c \in Cols1, f \in FkSpecs(1)}
           \cup {[mode |-> m, cols |-> c, fk |-> f] : m \in Modes, c \in Cols2, f \in FkSpecs(2) \cup FkSpecs(1)}
\* indexes with a foreign key on b or c (for tables with several foreign keys)
FkPool == {x \in IdxPool : x.fk.tbl # "" /\ x.cols \in {<<"b">>, <<"c">>} /\ x.mode = "i" /\ x.fk.cols = <<"a">>}
KeyA == [mode |-> "k", cols |-> <<"a">>, fk |-> NoFk3]
CNames == {"a", "b", "c", "d"}

Req(op, t, t2, cols, idxs, from, to) ==
    [op |-> op, t |-> t, t2 |-> t2, cols |-> cols, idxs |-> idxs, from |-> from, to |-> to,
     def |-> "d", row |-> <<>>]

DropIdx(c) == [mode |-> "i", cols |-> c, fk |-> NoFk3]

Requests ==
    \* create: key(a) alone (2 or 3 columns), one index of the pool, key(a) plus one or two
    {Req("Create", t, "", c, <<KeyA>>, <<>>, <<>>) : t \in T \cup {"tables"}, c \in {<<"a", "b">>, <<"a", "b", "c">>}}
    \cup {Req("Create", t, "", <<"a", "b", "c">>, <<x>>, <<>>, <<>>) : t \in T, x \in {x \in IdxPool : x.mode # "k" \/ x.fk.tbl # ""}}
    \cup {Req("Create", t, "", <<"a", "b", "c">>, <<KeyA, x>>, <<>>, <<>>) : t \in T, x \in IdxPool}
    \cup {Req("Create", t, "", <<"a", "b", "c">>, <<KeyA, x, y>>, <<>>, <<>>) : t \in T, x \in FkPool, y \in FkPool}
    \* ensure: like create / alter create (existing parts are skipped)
    \cup {Req("Ensure", t, "", <<"a", "b", "c">>, <<KeyA, x>>, <<>>, <<>>) : t \in T, x \in IdxPool}
    \cup {Req("Ensure", t, "", <<"d">>, <<>>, <<>>, <<>>) : t \in T}
    \* alter create: one index, or one column
    \cup {Req("AlterCreate", t, "", <<>>, <<x>>, <<>>, <<>>) : t \in T, x \in IdxPool}
    \cup {Req("AlterCreate", t, "", <<c>>, <<>>, <<>>, <<>>) : t \in T, c \in {"c", "d"}}
    \* alter drop: one column and/or one index
    \cup {Req("AlterDrop", t, "", <<>>, <<DropIdx(c)>>, <<>>, <<>>) : t \in T, c \in Cols1 \cup Cols2}
    \cup {Req("AlterDrop", t, "", <<c>>, <<>>, <<>>, <<>>) : t \in T, c \in CNames}
    \cup {Req("AlterDrop", t, "", <<c[1]>>, <<DropIdx(c)>>, <<>>, <<>>) : t \in T, c \in Cols1}
    \* alter rename
    \cup {Req("AlterRename", t, "", <<>>, <<>>, <<f>>, <<g>>) : t \in T, f \in CNames, g \in CNames}
    \cup (IF Wide THEN {Req("AlterRename", t, "", <<>>, <<>>, <<"a", "b", "d">>, <<"d", "a", "b">>) : t \in T}
                       \cup {Req("AlterRename", t, "", <<>>, <<>>, <<"a", "b">>, <<"d", "a">>) : t \in T}
          ELSE {})
    \* rename table, drop, view
    \cup {Req("RenameTable", t, u, <<>>, <<>>, <<>>, <<>>) : t \in TNames, u \in TNames}
    \cup {Req("Drop", t, "", <<>>, <<>>, <<>>, <<>>) : t \in TNames \cup {"v"}}
    \cup {Req("View", t, "", <<>>, <<>>, <<>>, <<>>) : t \in {"ta", "v", "tables"}}

\* failing requests leave the state unchanged: only successful outcomes are steps here
\* (which requests must fail is validated against the real code by TraceSchema)
Step(r) == \E res \in Results(St, r) :
              /\ res.ok
              /\ sch' = res.st.sch /\ views' = res.st.views /\ data' = res.st.data

\* the environment stores one row per table (so that alter create / drop of columns
\* has rows to transform and index builds have data)
Populate == \E t \in DOMAIN sch :
               /\ data[t] = {}
               /\ Step([Req("Ins", t, "", <<>>, <<>>, <<>>, <<>>) EXCEPT
                          !.row = [k \in 1..Len(sch[t].cols) |-> k]])

MCInit == Init /\ n = 0
MCNext == /\ n < MaxDepth
          /\ n' = n + 1
          /\ ((\E r \in Requests : Step(r)) \/ Populate)
Spec == MCInit /\ [][MCNext]_mcvars

NReq == Cardinality(Requests)
====
