---- MODULE MC_Schema ----
(* Exhaustive exploration of Schema.tla: every sequence of at most MaxDepth   *)
(* requests from a finite request universe (valid and invalid ones) starting  *)
(* with the empty database.                                                   *)
EXTENDS Schema
CONSTANTS MaxDepth,     \* number of requests per sequence
          Modes,        \* index modes used in create / alter create / ensure
          FkModes,      \* fk modes (0 block, 1 cascade update, 3 cascade)
          FkCols,       \* column lists foreign keys may name in the target
          Seeds,        \* start states (SeedsEmpty, SeedsRich, SeedsAll)
          RichAt,       \* value of the request counter in the rich start states
          Wide          \* TRUE: also two-column indexes, renames of several columns, third table name

VARIABLE n              \* requests so far
mcvars == <<sch, views, data, n>>

T == {"ta", "tb"}
FkColsA == {<<"a">>}
FkColsAB == {<<"a">>, <<"b">>}
FkColsWide == {<<"a">>, <<"b">>, <<"a", "b">>}
TNames == IF Wide THEN {"ta", "tb", "tc", "tables"} ELSE {"ta", "tb", "tables"}
NoFk3 == [tbl |-> "", cols |-> <<>>, mode |-> 0]
Cols1 == {<<"a">>, <<"b">>, <<"c">>}
Cols2 == IF Wide THEN {<<"a", "b">>, <<"b", "c">>} ELSE {}
FkSpecs(k) == {NoFk3} \cup {[tbl |-> t, cols |-> fc, mode |-> m] :
                              t \in T, fc \in {x \in FkCols : Len(x) = k}, m \in FkModes}
IdxPool == {[mode |-> m, cols |-> c, fk |-> f] : m \in Modes, c \in Cols1, f \in FkSpecs(1)}
           \cup {[mode |-> m, cols |-> c, fk |-> f] : m \in Modes, c \in Cols2, f \in FkSpecs(2) \cup FkSpecs(1)}
\* indexes with a foreign key on b or c (for tables with several foreign keys)
FkPool == {x \in IdxPool : x.fk.tbl # "" /\ x.cols \in {<<"b">>, <<"c">>} /\ x.mode = "i" /\ x.fk.cols = <<"a">>}
KeyA == [mode |-> "k", cols |-> <<"a">>, fk |-> NoFk3]
CNames == {"a", "b", "c", "d"}

Req(op, t, t2, cols, idxs, from, to) ==
    [op |-> op, t |-> t, t2 |-> t2, cols |-> cols, idxs |-> idxs, from |-> from, to |-> to,
     def |-> "d", row |-> <<>>]

DropIdx(c) == [mode |-> "i", cols |-> c, fk |-> NoFk3]

\* requests that can succeed only if table t does not exist
NewReqs(t) ==
    \* create: key(a) alone (2 or 3 columns), one index of the pool, key(a) plus one or two
    {Req("Create", t, "", c, <<KeyA>>, <<>>, <<>>) : c \in {<<"a", "b">>, <<"a", "b", "c">>}}
    \cup {Req("Create", t, "", <<"a", "b", "c">>, <<x>>, <<>>, <<>>) : x \in {x \in IdxPool : x.mode # "k" \/ x.fk.tbl # ""}}
    \cup {Req("Create", t, "", <<"a", "b", "c">>, <<KeyA, x>>, <<>>, <<>>) : x \in IdxPool}
    \cup {Req("Create", t, "", <<"a", "b", "c">>, <<KeyA, x, y>>, <<>>, <<>>) : x \in FkPool, y \in FkPool}

\* requests that can succeed only if table t exists
OldReqs(t) ==
    \* alter create: one index, or one column
    {Req("AlterCreate", t, "", <<>>, <<x>>, <<>>, <<>>) : x \in IdxPool}
    \cup {Req("AlterCreate", t, "", <<c>>, <<>>, <<>>, <<>>) : c \in {"c", "d"}}
    \* alter drop: one column and/or one index
    \cup {Req("AlterDrop", t, "", <<>>, <<DropIdx(c)>>, <<>>, <<>>) : c \in Cols1 \cup Cols2}
    \cup {Req("AlterDrop", t, "", <<c>>, <<>>, <<>>, <<>>) : c \in CNames}
    \cup {Req("AlterDrop", t, "", <<c[1]>>, <<DropIdx(c)>>, <<>>, <<>>) : c \in Cols1}
    \* alter rename
    \cup {Req("AlterRename", t, "", <<>>, <<>>, <<f>>, <<g>>) : f \in CNames, g \in CNames}
    \cup (IF Wide THEN {Req("AlterRename", t, "", <<>>, <<>>, <<"a", "b", "d">>, <<"d", "a", "b">>),
                        Req("AlterRename", t, "", <<>>, <<>>, <<"a", "b">>, <<"d", "a">>)}
          ELSE {})
    \cup {Req("RenameTable", t, u, <<>>, <<>>, <<>>, <<>>) : u \in TNames}

\* requests whose fate does not depend on one table alone
AnyReqs ==
    \* ensure: like create / alter create (existing parts are skipped)
    {Req("Ensure", t, "", <<"a", "b", "c">>, <<KeyA, x>>, <<>>, <<>>) : t \in T, x \in IdxPool}
    \cup {Req("Ensure", t, "", <<"d">>, <<>>, <<>>, <<>>) : t \in T}
    \cup {Req("Drop", t, "", <<>>, <<>>, <<>>, <<>>) : t \in TNames \cup {"v"}}
    \cup {Req("View", t, "", <<>>, <<>>, <<>>, <<>>) : t \in {"ta", "v", "tables"}}
    \cup {Req("Create", "tables", "", <<"a", "b">>, <<KeyA>>, <<>>, <<>>),
          Req("AlterCreate", "tables", "", <<"d">>, <<>>, <<>>, <<>>),
          Req("RenameTable", "tables", "tb", <<>>, <<>>, <<>>, <<>>)}

\* the request universe: every request below is tried in every state (a create of an
\* existing table and an alter / rename of a missing one fail by CreateInvalid resp.
\* the first test of the alter actions, and failing requests leave the state unchanged,
\* so Next does not evaluate them)
Requests == AnyReqs \cup UNION {NewReqs(t) \cup OldReqs(t) : t \in TNames \ {"tables"}}

\* failing requests leave the state unchanged: only successful outcomes are steps here
\* (which requests must fail is validated against the real code by TraceSchema)
Step(r) == \E res \in Results(St, r) :
              /\ res.ok
              /\ sch' = res.st.sch /\ views' = res.st.views /\ data' = res.st.data

\* the environment stores one row per table (so that alter create / drop of columns
\* has rows to transform and index builds have data)
Populate == \E t \in DOMAIN sch :
               /\ data[t] = {}
               /\ Step([Req("Ins", t, "", <<>>, <<>>, <<>>, <<>>) EXCEPT
                          !.row = [k \in 1..Len(sch[t].cols) |-> k]])

\* start states: the empty database, or databases built by the specification itself
\* from request sequences (so that short sequences reach schemas with several links)
RECURSIVE RunSeq(_, _)
RunSeq(S, rs) ==
    IF rs = <<>> THEN S
    ELSE RunSeq((CHOOSE res \in Results(S, Head(rs)) : res.ok).st, Tail(rs))
Empty == [sch |-> EmptyFn, views |-> EmptyFn, data |-> EmptyFn]
Ix(m, c, t, fc) == [mode |-> m, cols |-> c, fk |-> [tbl |-> t, cols |-> fc, mode |-> 0]]
Row(t, r) == [Req("Ins", t, "", <<>>, <<>>, <<>>, <<>>) EXCEPT !.row = r]
SeedsEmpty == {Empty}
SeedsRich == {
    \* two indexes of tb reference the same key of ta, an index before them
    RunSeq(Empty, <<Req("Create", "ta", "", <<"a", "b">>, <<KeyA, Ix("k", <<"b">>, "", <<>>)>>, <<>>, <<>>),
                    Req("Create", "tb", "", <<"a", "b", "c", "d">>,
                        <<Ix("k", <<"a">>, "", <<>>), Ix("i", <<"b">>, "ta", <<"a">>), Ix("i", <<"c">>, "ta", <<"a">>)>>, <<>>, <<>>),
                    Row("ta", <<1, 2>>), Row("tb", <<1, 2, 3, 4>>)>>),
    \* self references before and after the key, referenced from tb as well
    RunSeq(Empty, <<Req("Create", "ta", "", <<"a", "b", "c">>,
                        <<Ix("i", <<"b">>, "ta", <<"a">>), KeyA, Ix("k", <<"c">>, "ta", <<"a">>)>>, <<>>, <<>>),
                    Req("Create", "tb", "", <<"a", "b">>, <<KeyA, Ix("i", <<"b">>, "ta", <<"a">>)>>, <<>>, <<>>),
                    Row("ta", <<1, 2, 3>>)>>),
    \* two tables referencing each other, a view
    RunSeq(Empty, <<Req("Create", "tb", "", <<"a", "b">>, <<KeyA>>, <<>>, <<>>),
                    Req("Create", "ta", "", <<"a", "b", "c">>, <<KeyA, Ix("i", <<"b">>, "tb", <<"a">>)>>, <<>>, <<>>),
                    Req("AlterCreate", "tb", "", <<>>, <<Ix("i", <<"b">>, "ta", <<"a">>)>>, <<>>, <<>>),
                    Req("View", "v", "", <<>>, <<>>, <<>>, <<>>)>>)}

\* rich start states count as RichAt requests already made
SeedsAll == SeedsEmpty \cup SeedsRich

MCInit == \E S \in Seeds : /\ sch = S.sch /\ views = S.views /\ data = S.data
                           /\ n = IF S = Empty THEN 0 ELSE RichAt
MCNext == /\ n < MaxDepth
          /\ n' = n + 1
          /\ \/ \E r \in AnyReqs : Step(r)
             \/ \E t \in TNames \ {"tables"} :
                   IF t \in DOMAIN sch THEN \E r \in OldReqs(t) : Step(r)
                   ELSE \E r \in NewReqs(t) : Step(r)
             \/ Populate
Spec == MCInit /\ [][MCNext]_mcvars

NReq == Cardinality(Requests)
====
