---- MODULE MC_Session ----
EXTENDS Session
CONSTANTS c1, c2, c3
F2Bypass == {"Token", "Kill", "Connections", "Cursors"}
====
