---- MODULE MC_Stor ----
(* Exhaustive configurations of Stor.tla (C18). Goroutines are model values so *)
(* that TLC can use symmetry (safety only).                                    *)
EXTENDS Stor
CONSTANTS p1, p2, p3
Perms2 == Permutations({p1, p2})
Perms3 == Permutations({p1, p2, p3})
====
