---- MODULE MC_StorSim ----
(* Schedule generation for the gate driver (C18): Stor.tla plus a history    *)
(* variable; every finished behaviour with a chunk crossing is printed as    *)
(* JSON [[proc, label index, n], ...] (first element [0, 0, initial size]).  *)
EXTENDS Stor, Json
VARIABLE hist

Labels == <<"enter", "loadChunk", "addSize", "check", "extendLock", "extendCheck",
            "extendAppend", "extendStoreSize", "extendIncChunk", "retry">>
LabelIdx(lb) == CHOOSE i \in 1..Len(Labels) : Labels[i] = lb

SimInit == Init /\ hist = << <<0, 0, size>> >>
SimNext == \E self \in Procs :
              /\ a(self)
              /\ hist' = Append(hist, <<self, LabelIdx(pc[self]), n'[self]>>)
SimSpec == SimInit /\ [][SimNext]_<<vars, hist>>

AllDone == \A p \in Procs : pc[p] = "Done"
\* chunk crossing in mid-run: a second extension happened
Crossing == nchunks >= NChunksFor(hist[1][3]) + (IF hist[1][3] = 0 THEN 2 ELSE 1)
SimPrint == (AllDone /\ Crossing) => PrintT(<<"BEHAVIOUR", ToJson(hist)>>)
====
