---- MODULE MC_TableModel ----
(* Small exhaustive sanity run of TableModel.tla (the rules used to judge local *)
(* and client-server executions alike in trace/TraceCS.tla).                    *)
EXTENDS TableModel, TLC
CONSTANTS Vals, MaxOps
VARIABLES db, nops, lastop
vars == <<db, nops, lastop>>
Init == db = NewDb /\ nops = 0 /\ lastop = [op |-> "none", h |-> 0, cls |-> "ok"]
Step(op, h, upd, k, v) ==
    LET r == Apply(db, op, h, upd, k, v) IN
    /\ nops < MaxOps
    /\ (op = "Begin" => db.tr[h].st = "none")
    /\ OneWriter(r.db)
    /\ db' = r.db /\ nops' = nops + 1
    /\ lastop' = [op |-> op, h |-> h, cls |-> r.cls]
Next == \E op \in Ops, h \in Handles, upd \in BOOLEAN, k \in Keys, v \in Vals : Step(op, h, upd, k, v)
Spec == Init /\ [][Next]_vars
\* the committed table changes only by a successful Commit of an update transaction,
\* and then becomes that transaction's view
CommitOnly == [][db'.tab # db.tab =>
                   /\ lastop'.op = "Commit" /\ lastop'.cls = "ok"
                   /\ db.tr[lastop'.h].upd /\ db'.tab = db.tr[lastop'.h].view]_vars
\* an open read-only transaction keeps the snapshot it started with
SnapshotStable == [][\A h \in Handles :
                       (db.tr[h].st = "open" /\ ~db.tr[h].upd /\ db'.tr[h].st = "open") =>
                            db'.tr[h].view = db.tr[h].view]_vars
\* failed operations change nothing
ErrNoEffect == [][lastop'.cls = "err" /\ nops' # nops => db' = db]_vars
TypeOK == \A h \in Handles : db.tr[h].st \in {"none", "open", "ended"}
====
