---- MODULE MC_Timestamp ----
EXTENDS Timestamp
CONSTANTS c1, c2, d1, d2
\* start values near the batch threshold and the second boundary
MC_Start == {0} \cup 495..505 \cup 995..999
MC_StartSmall == {0, 496, 499, 500, 998, 999}
MC_Ticks == {1000, 2000}
PermsC == Permutations({c1, c2})
PermsCD == Permutations({c1, c2}) \cup Permutations({d1, d2})
====
