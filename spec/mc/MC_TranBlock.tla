---- MODULE MC_TranBlock ----
EXTENDS TranBlock
====
