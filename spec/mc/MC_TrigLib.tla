---- MODULE MC_TrigLib ----
(* model-checking instance of TrigLib.tla (C44, library-defined triggers) *)
EXTENDS TrigLib
MC_NoLib == "-"
MC_Tables2 == {"t1", "t2"}
MC_Tables1 == {"t1"}
MC_Libs2 == {"stdlib", "applib"}
MC_Libs3 == {"stdlib", "applib", "extlib"}
====
