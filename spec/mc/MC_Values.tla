---- MODULE MC_Values ----
(* C28, design level: exhaustive check that the reference order Cmp of Values.tla is a   *)
(* total preorder that respects the type ranks and is consistent with the reference     *)
(* equality Eq, on a generated universe of abstract values - all pairs and all triples. *)
(* (TraceValues.tla then requires the real Compare / Equal / Hash / member lookup to     *)
(* agree with Cmp / Eq, so the real code inherits these properties on whatever values   *)
(* the driver instantiates.)                                                            *)
EXTENDS Values

CONSTANTS Big,   \* TRUE: larger universe (thorough)
          Tiny,  \* TRUE: a dozen values only (self-test run)
          Dev    \* self-test deviation: "none", or "asym" (a string is smaller than a
                 \* number whichever side it is on - must violate AntiSym)

SX == INSTANCE SequencesExt
SeqOf(S) == SX!SetToSeq(S)

\* numbers: signs x exponents x digit sequences, zero, both infinities
Digs == IF Big THEN { <<1>>, <<1, 2>>, <<1, 0, 5>>, <<3, 2, 7, 6, 8>>,
                      <<1, 2, 3, 4, 5, 6, 7, 8, 9, 0, 1, 2, 3, 4, 5, 6, 7>> }
               ELSE { <<1>>, <<1, 2>>, <<1, 0, 5>>, <<9>> }
Exps == IF Big THEN {-3, 0, 1, 5, 17} ELSE {0, 1}
NumSet == {Zero, Num(2, 0, <<>>), Num(-2, 0, <<>>)} \cup
          {Num(s, x, d) : s \in {-1, 1}, x \in Exps, d \in Digs}

\* strings: every byte sequence of length <= 2 over a small alphabet incl. 0 and 255
Alpha == IF Big THEN {0, 49, 97, 255} ELSE {0, 97, 255}
StrSet == {Str(<<>>)} \cup {Str(<<a>>) : a \in Alpha} \cup {Str(<<a, b>>) : a, b \in Alpha}

DateSet == {Date(d, t, x) : d \in (IF Big THEN {20200101, 20200102} ELSE {20200101}),
                            t \in {0, 120000000}, x \in (IF Big THEN {0, 1, 255} ELSE {0, 7})}
           \cup {Date(17000101, 0, 0)}

One == Num(1, 1, <<1>>)
Two == Num(1, 1, <<2>>)
SA  == Str(<<97>>)
SB  == Str(<<98>>)
Elems == IF Big THEN {One, Two, SA, True} ELSE {One, SA}
Lists == {<<>>} \cup {<<a>> : a \in Elems} \cup {<<a, b>> : a, b \in Elems}
Nameds == << <<>>, << <<SA, One>> >>, << <<SA, Two>> >>,
             << <<SA, One>>, <<SB, Two>> >>, << <<SB, Two>>, <<SA, One>> >>,   \* same members, two orders
             << <<Num(1, 6, <<1>>), SA>> >> >>
FlatObjs == {Obj(l, Nameds[k]) : l \in Lists, k \in (IF Big THEN {1, 2, 4, 5, 6} ELSE {1, 4, 5})}
E0 == Obj(<<>>, <<>>)
O1 == Obj(<<One>>, <<>>)
Nested == { Obj(<<E0>>, <<>>), Obj(<<O1>>, <<>>), Obj(<<O1, Two>>, <<>>), Obj(<<Obj(<<One, Two>>, <<>>)>>, <<>>),
            Obj(<<Obj(<<One>>, << <<SA, One>> >>)>>, <<>>), Obj(<<One>>, << <<O1, E0>> >>),
            Obj(<<Obj(<<O1>>, <<>>)>>, <<>>), Obj(<<>>, << <<SA, Obj(<<>>, << <<SA, One>> >>)>> >>) }

U == IF Tiny THEN <<True, False, Zero, One, Num(-1, 1, <<1, 2>>), EmptyStr, SA, Str(<<97, 0>>),
                     Date(20200101, 0, 0), Date(20200101, 0, 7), E0, O1,
                     Obj(<<>>, << <<SA, One>>, <<SB, Two>> >>), Obj(<<>>, << <<SB, Two>>, <<SA, One>> >>)>>
     ELSE <<True, False>> \o SeqOf(NumSet) \o SeqOf(StrSet) \o SeqOf(DateSet) \o SeqOf(FlatObjs) \o SeqOf(Nested)

CmpX(a, b) == IF Dev = "asym" /\ ((a.t = "num" /\ b.t = "str") \/ (a.t = "str" /\ b.t = "num")) THEN 1
              ELSE Cmp(a, b)

\* The universe and its comparison / equality matrices are computed once, in the initial
\* state (TLC does not cache constant definitions that use RECURSIVE operators) and
\* carried along; state i checks all pairs and triples that start with u[i].
VARIABLES i, u, cm, em
vars == <<i, u, cm, em>>
Init == /\ i = 1
        /\ u = U
        /\ cm = LET uu == U IN [j \in 1..Len(uu) |-> [k \in 1..Len(uu) |-> CmpX(uu[j], uu[k])]]
        /\ em = LET uu == U IN [j \in 1..Len(uu) |-> [k \in 1..Len(uu) |-> Eq(uu[j], uu[k])]]
Next == i < Len(u) /\ i' = i + 1 /\ UNCHANGED <<u, cm, em>>
Spec == Init /\ [][Next]_vars
NU == Len(u)
C(j, k) == cm[j][k]
E(j, k) == em[j][k]
IsScalar(v) == v.t # "obj"

Total      == \A j \in 1..NU : C(i, j) \in {-1, 0, 1}
Reflexive  == C(i, i) = 0 /\ E(i, i)
AntiSym    == \A j \in 1..NU : C(i, j) = -C(j, i)
Transitive == \A j, k \in 1..NU : (C(i, j) <= 0 /\ C(j, k) <= 0) => C(i, k) <= 0
TransStrict == \A j, k \in 1..NU : (C(i, j) < 0 /\ C(j, k) <= 0) => C(i, k) < 0
TypeOrder  == \A j \in 1..NU : TypeRank(u[i]) < TypeRank(u[j]) => C(i, j) = -1
EqSym      == \A j \in 1..NU : E(i, j) = E(j, i)
EqTrans    == \A j, k \in 1..NU : (E(i, j) /\ E(j, k)) => E(i, k)
EqImpliesCmp0 == \A j \in 1..NU : E(i, j) => C(i, j) = 0
\* for scalars the order is total (not just a preorder): Cmp = 0 only for equal values
ScalarCmp0ImpliesEq == \A j \in 1..NU :
                 (IsScalar(u[i]) /\ IsScalar(u[j]) /\ C(i, j) = 0) => E(i, j)
\* objects: Cmp = 0 exactly when the lists are pairwise Cmp-equal (named members do not count)
ObjCmp0 == \A j \in 1..NU : (u[i].t = "obj" /\ u[j].t = "obj") =>
              ((C(i, j) = 0) <=> (/\ Len(u[i].l) = Len(u[j].l)
                                  /\ \A k \in 1..Len(u[i].l) : Cmp(u[i].l[k], u[j].l[k]) = 0))
\* long strings take the bisection path of LexCmp: it must agree with the plain scan
Long(n, pos, c) == [k \in 1..n |-> IF k = pos THEN c ELSE 120]
LongStrs == << Long(30, 0, 0), Long(31, 0, 0), Long(30, 30, 121), Long(30, 17, 0), Long(30, 1, 255),
               Long(64, 33, 119), Long(64, 0, 0), Long(25, 25, 119), Long(25, 0, 0) >>
LongLexOK == \A a, b \in 1..Len(LongStrs) :
                LET x == LongStrs[a]
                    y == LongStrs[b]
                IN /\ LexCmp(x, y) = LexFrom(x, y, 1, Min2(Len(x), Len(y)))
                   /\ LexCmp(x, y) = -LexCmp(y, x)
WellFormed == WF(u[i])
\* anti-vacuity: the universe contains equal objects written differently and unequal
\* objects that compare 0, and values of every type
NonVacuous == /\ \E j, k \in 1..NU : j # k /\ E(j, k)
              /\ \E j, k \in 1..NU : ~E(j, k) /\ C(j, k) = 0
              /\ \A t \in {"bool", "num", "str", "date", "obj"} : \E j \in 1..NU : u[j].t = t
====
