---- MODULE MC_ValuesLazy ----
(* C28, design level for lazily materialised records (ValuesLazy.tla): every interleaving *)
(* of read-only operations on a record that is still backed by its database row - reading *)
(* single fields (cached), unpacking it as a whole, taking its shallow hash, storing a    *)
(* member under a compound key Object(rec, "a") and looking it up again - leaves the      *)
(* value unchanged, gives one and the same hash in every materialisation state, namely    *)
(* the hash of the equal in-memory value, and so the member is found by the same key      *)
(* later and by any equal key.                                                            *)
EXTENDS ValuesLazy

CONSTANTS Partial   \* self-test deviation: Hash2 of the record looks at the members
                    \* materialised so far only (must violate Hash2OK / EqualKeyFound / SameKeyFound)

One == Num(1, 1, <<1>>)
Two == Num(1, 1, <<2>>)
SA  == Str(<<97>>)
SB  == Str(<<98>>)
SC  == Str(<<99>>)
Rows == { <<>>, << <<SA, One>> >>, << <<SA, One>>, <<SB, Two>> >>, << <<SB, Two>>, <<SA, One>> >>,
          << <<SA, One>>, <<SB, SA>>, <<SC, Obj(<<One>>, <<>>)>> >> }
Keys == {SA, SB, SC, Str(<<100>>)}      \* d: not a field

None == [sz |-> <<-1, -1>>, l1 |-> NoHash, l2 |-> NoHash, nm |-> {}]

VARIABLES x,       \* the lazy record
          abs0,    \* its value when it was created
          h2s,     \* every Hash2 result it has given
          stored   \* hash under which a member was stored with the key Object(x, "a"), or None
vars == <<x, abs0, h2s, stored>>

Init == /\ x \in {LazyNew(r) : r \in Rows}
        /\ abs0 = AbsOf(x)
        /\ h2s = {} /\ stored = None
Get(k)  == x' = LazyGet(x, k) /\ UNCHANGED <<abs0, h2s, stored>>
Unpack  == x' = LazyUnpack(x) /\ UNCHANGED <<abs0, h2s, stored>>
Hash2   == LET r == LazyHash2(x, Partial) IN x' = r[2] /\ h2s' = h2s \cup {r[1]} /\ UNCHANGED <<abs0, stored>>
Put     == /\ stored = None
           /\ stored' = KeyHash(x, SA, Partial) /\ x' = LazyHash2(x, Partial)[2]
           /\ UNCHANGED <<abs0, h2s>>
Next == (\E k \in Keys : Get(k)) \/ Unpack \/ Hash2 \/ Put
Spec == Init /\ [][Next]_vars

AbsStable == Eq(AbsOf(x), abs0) /\ WF(AbsOf(x))
Hash2OK   == h2s \subseteq {Hash2Sym(abs0)}
\* the member is found by the very same key now (the container re-hashes the key) ...
SameKeyFound  == stored # None => KeyHash(x, SA, Partial) = stored
\* ... and by an equal key built in memory
EqualKeyFound == stored # None => HashSym(Obj(<<abs0, SA>>, <<>>)) = stored
\* the symbolic hash respects equality on objects written in different member orders
Objs == {Obj(l, n) : l \in ({<<>>, <<One>>} \cup {<<Obj(<<>>, r)>> : r \in Rows}), n \in Rows}
EqHashSym == \A a, b \in Objs : Eq(a, b) => HashSym(a) = HashSym(b)
NonVacuous == \E a, b \in Objs : a # b /\ Eq(a, b)
====
