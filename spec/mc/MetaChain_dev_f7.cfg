SPECIFICATION Spec
CONSTANTS
  Keys = {1, 2}
  Vals = {1}
  MaxChain = 3
  MaxWrites = 5
  MaxReopens = 1
  DevStaleStamp = FALSE
  DevF7 = TRUE
INVARIANTS TypeOK ReopenSeesPersisted ChainMatchesFile ChainBounded AgesOK MemoryCoversFile FilterSound
PROPERTIES PersistIsCurrent
CHECK_DEADLOCK FALSE
