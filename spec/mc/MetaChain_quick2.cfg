SPECIFICATION Spec
CONSTANTS
  Keys = {1, 2}
  Vals = {1}
  MaxChain = 3
  MaxWrites = 8
  MaxReopens = 2
  DevStaleStamp = FALSE
  DevF7 = FALSE
INVARIANTS TypeOK ReopenSeesPersisted ChainMatchesFile ChainBounded AgesOK MemoryCoversFile FilterSound
PROPERTIES PersistIsCurrent
CHECK_DEADLOCK FALSE
