SPECIFICATION Spec
CONSTANTS
  Sessions = {s1, s2}
  s1 = s1
  s2 = s2
  s3 = s3
  MaxMsgs = 2
  MaxUnits = 2
  MaxFrags = 3
  MaxChunk = 2
  HdrCells = 2
  DevSplitWrite = FALSE
  DevShortRead = FALSE
  DevLoseFinal = TRUE
SYMMETRY Sym2
INVARIANTS AllDeliveredAtEnd
CHECK_DEADLOCK FALSE
