SPECIFICATION Spec
CONSTANTS
  Sessions = {s1, s2, s3}
  s1 = s1
  s2 = s2
  s3 = s3
  MaxMsgs = 2
  MaxUnits = 2
  MaxFrags = 3
  MaxChunk = 2
  HdrCells = 1
  DevSplitWrite = FALSE
  DevShortRead = FALSE
  DevLoseFinal = FALSE
SYMMETRY Sym
INVARIANTS InOrderDelivery PartialIsOwnPrefix ReaderInSync AllDeliveredAtEnd
CHECK_DEADLOCK TRUE
