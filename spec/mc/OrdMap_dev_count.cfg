SPECIFICATION Spec
CONSTANTS
  K = 3
  Offs = {1, 2}
  MaxBatches = 2
  DevCountDrift = TRUE
INVARIANTS TypeOK CountOK IterOK CursorOK MeaningOK
CHECK_DEADLOCK FALSE
