SPECIFICATION Spec
CONSTANTS
  K = 5
  Offs = {1, 2}
  MaxBatches = 2
  DevCountDrift = FALSE
INVARIANTS TypeOK CountOK IterOK CursorOK MeaningOK
CHECK_DEADLOCK FALSE
