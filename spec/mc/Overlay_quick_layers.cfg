SPECIFICATION Spec
CONSTANTS
  NP = 2
  NS = 2
  MaxLayers = 2
  MaxSteps = 3
  InitLayer = TRUE
  RangeChoices <- MC_Ranges4a
  SkipChoices <- MC_Skips22a
  DevFirstWins = FALSE
  DevFastNoSecond = FALSE
  DevNoReseek = FALSE
  AllowMoved = FALSE
  InPlaceCommit = FALSE
INVARIANTS ContentOK StructurePreservesContent Agree NoPanic ReadsCover InRangeResult
CHECK_DEADLOCK FALSE
