SPECIFICATION Spec
CONSTANTS
  NP = 2
  NS = 2
  MaxLayers = 2
  MaxSteps = 5
  InitLayer = TRUE
  RangeChoices <- MC_Ranges4
  SkipChoices <- MC_Skips22
  DevFirstWins = FALSE
  DevFastNoSecond = FALSE
  DevNoReseek = FALSE
  AllowMoved = FALSE
  InPlaceCommit = FALSE
INVARIANTS ContentOK StructurePreservesContent Agree NoPanic ReadsCover InRangeResult
CHECK_DEADLOCK FALSE
