SPECIFICATION Spec
CONSTANTS
  NP = 2
  NS = 3
  MaxLayers = 2
  MaxSteps = 5
  InitLayer = FALSE
  RangeChoices <- MC_Ranges6
  SkipChoices <- MC_Skips23
  DevFirstWins = FALSE
  DevFastNoSecond = FALSE
  DevNoReseek = FALSE
  AllowMoved = FALSE
  InPlaceCommit = FALSE
INVARIANTS ContentOK StructurePreservesContent Agree NoPanic ReadsCover InRangeResult
CHECK_DEADLOCK FALSE
