SPECIFICATION Spec
CONSTANTS
  Producers = {p1, p2}
  p1 = p1
  p2 = p2
  p3 = p3
  MaxMsgs = 2
  Pris = {0, 1}
  OwnTrans <- MC_OwnTrans2
  SharedTrans = {0}
  Cap = 3
  DevGE = FALSE
INVARIANTS TypeOK PerTranFIFO ExactlyOnce
PROPERTIES PriorityRule AllDelivered
CHECK_DEADLOCK FALSE
