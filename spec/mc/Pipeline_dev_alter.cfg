SPECIFICATION Spec
CONSTANTS
  MaxRows = 4
  ChanCap = 4
  FixedAlter = FALSE
  MaxPersists = 3
  MaxDeletes = 2
  MaxLoads = 1
  DirectLoad = FALSE
  FirstOnlyModified = FALSE
INVARIANTS QueueFits LayersParallel IndexesAgree StatsExact ReopenSeesAll BtreeCount DurableIndexesAgree
CHECK_DEADLOCK FALSE
