SPECIFICATION Spec
CONSTANTS
  MaxRows = 3
  ChanCap = 4
  FixedAlter = TRUE
  MaxPersists = 3
  MaxDeletes = 2
  FirstOnlyModified = TRUE
INVARIANTS LayersParallel IndexesAgree StatsExact ReopenSeesAll BtreeCount DurableIndexesAgree
CHECK_DEADLOCK FALSE
