SPECIFICATION Spec
CONSTANTS
  MaxRows = 3
  ChanCap = 4
  FixedAlter = TRUE
  MaxPersists = 3
  MaxDeletes = 2
  MaxLoads = 1
  DirectLoad = FALSE
  FirstOnlyModified = TRUE
INVARIANTS QueueFits LayersParallel IndexesAgree StatsExact ReopenSeesAll BtreeCount DurableIndexesAgree
CHECK_DEADLOCK FALSE
