SPECIFICATION Spec
CONSTANTS
  MaxRows = 3
  ChanCap = 4
  FixedAlter = TRUE
  MaxPersists = 3
  MaxDeletes = 2
  MaxLoads = 1
  DirectLoad = TRUE
  FirstOnlyModified = FALSE
INVARIANTS IndexesAgree StatsExact
CHECK_DEADLOCK FALSE
