SPECIFICATION Spec
CONSTANTS
  MaxRows = 4
  ChanCap = 4
  FixedAlter = TRUE
  MaxPersists = 3
INVARIANTS LayersParallel IndexesAgree StatsExact ReopenSeesAll BtreeCount
CHECK_DEADLOCK FALSE
