SPECIFICATION Spec
CONSTANTS
  MaxRows = 6
  ChanCap = 4
  FixedAlter = TRUE
  MaxPersists = 5
INVARIANTS LayersParallel IndexesAgree StatsExact ReopenSeesAll BtreeCount
CHECK_DEADLOCK FALSE
