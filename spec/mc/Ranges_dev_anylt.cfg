SPECIFICATION Spec
CONSTANTS
  N = 4
  MaxIns = 4
  DevTouch = FALSE
  DevAnyLT = TRUE
INVARIANTS TypeOK SeqIsSet ContainsOK CountOK ExistedOK AnyInRangeOK
CHECK_DEADLOCK FALSE
