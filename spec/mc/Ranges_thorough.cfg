SPECIFICATION Spec
CONSTANTS
  N = 5
  MaxIns = 5
  DevTouch = FALSE
  DevAnyLT = FALSE
INVARIANTS TypeOK SeqIsSet ContainsOK CountOK ExistedOK AnyInRangeOK
CHECK_DEADLOCK FALSE
