SPECIFICATION MCSpecX
CONSTANTS
  Recs = {1}
  Obs = {1}
  Vals = {0, 1}
  MaxDepth = 8
  Extra = {}
  DB = FALSE
  Dev = "nodep"
VIEW MCView
CONSTRAINT Depth
INVARIANTS TypeOK GetReflectsCurrent CacheFresh
PROPERTIES NotifyEach
CHECK_DEADLOCK FALSE
