SPECIFICATION MCSpec
CONSTANTS
  Recs = {1, 2}
  Obs = {1, 2}
  Vals = {0, 1, 2}
  MaxDepth = 40
  Extra = {"g", "h", "k"}
  DB = TRUE
  Dev = "none"
CONSTRAINT GenPrint
CHECK_DEADLOCK FALSE
