SPECIFICATION MCSpecX
CONSTANTS
  Recs = {1}
  Obs = {1}
  Vals = {0, 1, 2}
  MaxDepth = 8
  Extra = {}
  DB = FALSE
  Dev = "none"
VIEW MCView
CONSTRAINT Depth
INVARIANTS TypeOK GetReflectsCurrent CacheFresh
PROPERTIES NotifyEach
CHECK_DEADLOCK FALSE
