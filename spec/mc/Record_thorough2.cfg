SPECIFICATION MCSpecX
CONSTANTS
  Recs = {1, 2}
  Obs = {1, 2}
  Vals = {0, 1, 2}
  MaxDepth = 5
  Extra = {}
  Dev = "none"
VIEW MCView
CONSTRAINT Depth
INVARIANTS TypeOK GetReflectsCurrent CacheFresh
PROPERTIES NotifyEach
CHECK_DEADLOCK FALSE
