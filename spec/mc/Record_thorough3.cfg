SPECIFICATION MCSpecX
CONSTANTS
  Recs = {1, 2}
  Obs = {1}
  Vals = {0, 1}
  MaxDepth = 4
  Extra = {}
  DB = TRUE
  Dev = "none"
VIEW MCView
CONSTRAINT Depth
INVARIANTS TypeOK GetReflectsCurrent CacheFresh
PROPERTIES NotifyEach
CHECK_DEADLOCK FALSE
