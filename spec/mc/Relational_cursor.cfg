SPECIFICATION CSpec
CONSTANTS
  MaxDepth = 0
  MaxRows = 0
  MaxRows2 = 1
  NVals = 1
  WithEmpty = FALSE
  DevNoDedup = FALSE
  DevSharedPrefix = FALSE
  DevStreamInsert = FALSE
  N = 3
INVARIANTS CursorInRange
PROPERTIES CursorSticks CursorAdjacent
CHECK_DEADLOCK FALSE
