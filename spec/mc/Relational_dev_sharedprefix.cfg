SPECIFICATION Spec
CONSTANTS
  MaxDepth = 1
  MaxRows = 2
  MaxRows2 = 1
  NVals = 2
  WithEmpty = FALSE
  DevNoDedup = FALSE
  DevSharedPrefix = TRUE
  DevStreamInsert = FALSE
  N = 0
INVARIANTS LawIndexSpans
CHECK_DEADLOCK FALSE
