SPECIFICATION Spec
CONSTANTS
  MaxDepth = 1
  MaxRows = 2
  MaxRows2 = 1
  NVals = 2
  WithEmpty = FALSE
  DevNoDedup = FALSE
  DevSharedPrefix = FALSE
  DevStreamInsert = TRUE
  N = 0
INVARIANTS LawInsertQuery
CHECK_DEADLOCK FALSE
