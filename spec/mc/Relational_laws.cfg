SPECIFICATION Spec
CONSTANTS
  MaxDepth = 2
  MaxRows = 2
  NVals = 2
  WithEmpty = FALSE
  DevNoDedup = FALSE
  N = 0
INVARIANTS WellFormed LawProject LawWhere LawSets LawJoin LawSummarize LawRenameExtend
CHECK_DEADLOCK FALSE
