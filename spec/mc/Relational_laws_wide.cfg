SPECIFICATION Spec
CONSTANTS
  MaxDepth = 1
  MaxRows = 1
  MaxRows2 = 1
  NVals = 2
  WithEmpty = TRUE
  DevNoDedup = FALSE
  DevSharedPrefix = FALSE
  DevStreamInsert = FALSE
  N = 0
INVARIANTS WellFormed LawProject LawWhere LawSets LawJoin LawSummarize LawRenameExtend LawIndexSpans LawInsertQuery
CHECK_DEADLOCK FALSE
