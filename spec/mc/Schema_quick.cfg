SPECIFICATION Spec
CONSTANTS
  SysTables = {"tables", "columns", "indexes", "views"}
  BkExact = TRUE
  DevF9 = FALSE
  DevIIdxAll = FALSE
  MaxDepth = 3
  Modes = {"k", "i"}
  FkModes = {0}
  FkCols <- FkColsAB
  Wide = FALSE
INVARIANTS InvHasKey InvIdxCols InvFkValid InvLinks InvBestKey InvData InvViews
CHECK_DEADLOCK FALSE
