SPECIFICATION Spec
CONSTANTS
  SysTables = {"tables", "columns", "indexes", "views"}
  BkExact = TRUE
  DevF9 = FALSE
  DevIIdxAll = FALSE
  DevCreateStale = FALSE
  MaxDepth = 2
  RichAt = 0
  Modes = {"k", "i"}
  FkModes = {0}
  FkCols <- FkColsA
  Seeds <- SeedsAll
  Wide = FALSE
INVARIANTS InvHasKey InvIdxCols InvFkValid InvLinks InvBestKey InvData InvViews
CHECK_DEADLOCK FALSE
