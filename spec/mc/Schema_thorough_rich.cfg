SPECIFICATION Spec
CONSTANTS
  SysTables = {"tables", "columns", "indexes", "views"}
  BkExact = TRUE
  DevF9 = FALSE
  DevIIdxAll = FALSE
  DevCreateStale = FALSE
  MaxDepth = 3
  RichAt = 0
  Modes = {"k", "i", "u"}
  FkModes = {0}
  FkCols <- FkColsAB
  Seeds <- SeedsRich
  Wide = FALSE
INVARIANTS InvHasKey InvIdxCols InvFkValid InvLinks InvBestKey InvData InvViews
CHECK_DEADLOCK FALSE
