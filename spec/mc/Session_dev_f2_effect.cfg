SPECIFICATION Spec
CONSTANTS
  Conns = {c1, c2}
  Knows = {c1}
  c1 = c1
  c2 = c2
  c3 = c3
  MaxReq = 5
  MaxId = 5
  MaxDb = 1
  Bypass <- F2Bypass
  AnyHash = FALSE
INVARIANTS TypeOK
PROPERTIES UnauthNoEffect
CHECK_DEADLOCK FALSE
