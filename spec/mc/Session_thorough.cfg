SPECIFICATION Spec
CONSTANTS
  Conns = {c1, c2, c3}
  Knows = {c1}
  c1 = c1
  c2 = c2
  c3 = c3
  MaxReq = 6
  MaxId = 6
  MaxDb = 1
  Bypass = {}
  AnyHash = FALSE
INVARIANTS TypeOK AuthorizedOnlyByCredential TokensOnlyToAuthorized
PROPERTIES SingleUse UnauthNoEffect UnauthAllowedHarmless
CHECK_DEADLOCK FALSE
