SPECIFICATION SimSpec
CONSTANTS
  Procs = {1, 2, 3}
  ChunkSize = 4
  Sizes = {1, 3, 4}
  NAllocs = 2
  InitSizes = {0, 1, 2, 4}
  MaxRetries = 3
  Dev = "none"
CONSTRAINT SimPrint
INVARIANTS Disjoint InChunk InSize Mapped
CHECK_DEADLOCK FALSE
