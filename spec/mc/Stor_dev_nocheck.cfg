SPECIFICATION Spec
CONSTANTS
  p1 = p1
  p2 = p2
  p3 = p3
  Procs = {p1,p2}
  ChunkSize = 2
  Sizes = {1,2}
  NAllocs = 2
  InitSizes = {1}
  MaxRetries = 3
  Dev = "nocheck"
INVARIANTS Disjoint

CHECK_DEADLOCK FALSE
