SPECIFICATION Spec
CONSTANTS
  p1 = p1
  p2 = p2
  p3 = p3
  Procs = {p1,p2,p3}
  ChunkSize = 2
  Sizes = {1,2}
  NAllocs = 1
  InitSizes = {0}
  MaxRetries = 3
  Dev = "none"
INVARIANTS Disjoint InChunk InSize Mapped NoIndexPanic ChunkInv LockInv Accounted
SYMMETRY Perms3
CHECK_DEADLOCK FALSE
