SPECIFICATION Spec
CONSTANTS
  p1 = p1
  p2 = p2
  p3 = p3
  Procs = {p1,p2}
  ChunkSize = 2
  Sizes = {1,2}
  NAllocs = 3
  InitSizes = {0, 1}
  MaxRetries = 3
  Dev = "none"
INVARIANTS Disjoint InChunk InSize Mapped NoIndexPanic ChunkInv LockInv Accounted
SYMMETRY Perms2
CHECK_DEADLOCK FALSE
