SPECIFICATION Spec
CONSTANTS
  Keys = {1, 2}
  Handles = {1, 2}
  Vals = {0, 1}
  MaxOps = 4
INVARIANTS TypeOK
PROPERTIES CommitOnly SnapshotStable ErrNoEffect
CHECK_DEADLOCK FALSE
