SPECIFICATION Spec
CONSTANTS
  Keys = {1, 2}
  Handles = {1, 2, 3}
  Vals = {0, 1}
  MaxOps = 6
INVARIANTS TypeOK
PROPERTIES CommitOnly SnapshotStable ErrNoEffect
CHECK_DEADLOCK FALSE
