SPECIFICATION Spec
CONSTANTS
  c1 = c1
  c2 = c2
  d1 = d1
  d2 = d2
  Clients = {c1, c2}
  Directs = {d1, d2}
  Batch = 5
  Threshold = 500
  ExtraLimit = 3
  ByteMod = 3
  StartSet <- MC_Start
  TickTargets <- MC_Ticks
  MaxOps = 8
  Dev = "none"
INVARIANTS Distinct Increasing BelowServer ReservedFresh ExtraInByte
SYMMETRY PermsCD
CHECK_DEADLOCK FALSE
