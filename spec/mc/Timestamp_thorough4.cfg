SPECIFICATION Spec
CONSTANTS
  c1 = c1
  c2 = c2
  d1 = d1
  d2 = d2
  Clients = {c1, c2}
  Directs = {d1}
  Batch = 5
  Threshold = 500
  ExtraLimit = 4
  ByteMod = 4
  StartSet <- MC_StartSmall
  TickTargets <- MC_Ticks
  MaxOps = 10
  Dev = "none"
INVARIANTS Distinct Increasing BelowServer ReservedFresh ExtraInByte
SYMMETRY PermsC
CHECK_DEADLOCK FALSE
