SPECIFICATION Spec
CONSTANTS
  Keys = {1, 2, 3}
  MaxSteps = 3
  MaxProgs = 2
  Dev = "none"
INVARIANTS TypeOK
PROPERTIES CommitRule AllOrNothing Propagates NoEarlyEffect
CHECK_DEADLOCK FALSE
