SPECIFICATION Spec
CONSTANTS
  Keys = {1, 2, 3, 4}
  MaxSteps = 4
  MaxProgs = 3
  Dev = "none"
INVARIANTS TypeOK
PROPERTIES CommitRule AllOrNothing Propagates NoEarlyEffect
CHECK_DEADLOCK FALSE
