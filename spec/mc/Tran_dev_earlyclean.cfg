SPECIFICATION Spec
CONSTANTS
  Trans = {1, 2, 3}
  Keys = {1, 2}
  MaxOps = 1
  NoDupRead = FALSE
  LoseMinKey = FALSE
  EarlyClean = TRUE
  WithExclusive = FALSE
  ExclLe = FALSE
  WithAborts = FALSE
INVARIANTS Serializable OutcomeTruthful RetainsOverlapping
PROPERTIES SnapshotStable AtomicCommit
CHECK_DEADLOCK FALSE
