SPECIFICATION Spec
CONSTANTS
  Trans = {1, 2}
  Keys = {1, 2}
  MaxOps = 2
  NoDupRead = FALSE
  LoseMinKey = FALSE
  EarlyClean = FALSE
  WithExclusive = TRUE
  ExclLe = TRUE
  WithAborts = FALSE
INVARIANTS ExclusiveRespected Serializable OutcomeTruthful RetainsOverlapping
PROPERTIES SnapshotStable AtomicCommit
CHECK_DEADLOCK FALSE
