SPECIFICATION Spec
CONSTANTS
  Trans = {1, 2}
  Keys = {1, 2}
  MaxOps = 2
  NoDupRead = TRUE
  LoseMinKey = FALSE
  EarlyClean = FALSE
  WithExclusive = FALSE
  ExclLe = FALSE
  WithAborts = FALSE
INVARIANTS Serializable OutcomeTruthful RetainsOverlapping
PROPERTIES SnapshotStable AtomicCommit
CHECK_DEADLOCK FALSE
