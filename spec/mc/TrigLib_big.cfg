SPECIFICATION Spec
CONSTANTS
  NoLib <- MC_NoLib
  Tables <- MC_Tables2
  Libs <- MC_Libs2
  StdLib = "stdlib"
  MaxVer = 2
  MaxDisable = 1
  Dev = "none"
INVARIANTS TypeOK Promised CacheAllowed ClearedSound
CHECK_DEADLOCK FALSE
