SPECIFICATION Spec
CONSTANTS
  NoLib <- MC_NoLib
  Tables <- MC_Tables1
  Libs <- MC_Libs2
  StdLib = "stdlib"
  MaxVer = 2
  MaxDisable = 1
  Dev = "setnamekeepscleared"
INVARIANTS Promised
CHECK_DEADLOCK FALSE
