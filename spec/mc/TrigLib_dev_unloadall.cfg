SPECIFICATION Spec
CONSTANTS
  NoLib <- MC_NoLib
  Tables <- MC_Tables1
  Libs <- MC_Libs2
  StdLib = "stdlib"
  MaxVer = 1
  MaxDisable = 1
  Dev = "unloadallkeepsnodef"
INVARIANTS Promised
CHECK_DEADLOCK FALSE
