SPECIFICATION Spec
CONSTANTS
  NoLib <- MC_NoLib
  Tables <- MC_Tables1
  Libs <- MC_Libs3
  StdLib = "stdlib"
  MaxVer = 2
  MaxDisable = 1
  Dev = "none"
INVARIANTS TypeOK Promised CacheAllowed ClearedSound
CHECK_DEADLOCK FALSE
