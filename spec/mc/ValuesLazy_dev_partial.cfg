SPECIFICATION Spec
CONSTANTS
  Partial = TRUE
INVARIANTS AbsStable Hash2OK SameKeyFound EqualKeyFound
CHECK_DEADLOCK FALSE
