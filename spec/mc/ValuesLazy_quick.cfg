SPECIFICATION Spec
CONSTANTS
  Partial = FALSE
INVARIANTS AbsStable Hash2OK SameKeyFound EqualKeyFound EqHashSym NonVacuous
CHECK_DEADLOCK FALSE
