SPECIFICATION Spec
CONSTANTS
  Big = FALSE
  Tiny = FALSE
  Dev = "none"
INVARIANTS Total Reflexive AntiSym Transitive TransStrict TypeOrder EqSym EqTrans EqImpliesCmp0 ScalarCmp0ImpliesEq ObjCmp0 LongLexOK WellFormed NonVacuous
CHECK_DEADLOCK FALSE
