------------------------------ MODULE TraceBase ------------------------------
(* Shared part of all trace specifications.                                   *)
(* The trace (ndjson, one event per line, recorded from the REAL code) is     *)
(* read from the file named by the environment variable VERIF_TRACE.          *)
(* Acceptance: the highest line index consumed by any behaviour of the trace  *)
(* spec (kept in TLC register 1, needs -workers 1) equals the trace length.   *)
EXTENDS Naturals, Sequences, TLC, Json, IOUtils

Log == ndJsonDeserialize(IOEnv.VERIF_TRACE)
NLog == Len(Log)

HWInit == TLCSet(1, 0)
\* l is the index of the next line to consume; l - 1 lines have been explained
HWMark(l) == IF l - 1 > TLCGet(1) THEN TLCSet(1, l - 1) ELSE TRUE

Accepted ==
    IF TLCGet(1) = NLog
    THEN PrintT(<<"TRACE-ACCEPTED", NLog>>)
    ELSE /\ PrintT(<<"REJECTED", TLCGet(1) + 1, Log[TLCGet(1) + 1]>>)
         /\ FALSE
=============================================================================
