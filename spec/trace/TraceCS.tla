------------------------------- MODULE TraceCS -------------------------------
(* Trace validation for C40 (b), differential by specification: a script of   *)
(* database operations is executed once through dbms.DbmsLocal (side "L") and  *)
(* once through the REAL DbmsClient <-> mux <-> TLS <-> server command table   *)
(* (side "R") on identically prepared databases.                               *)
(*  Op    an operation on the modelled table tm(k, v): its result class, value *)
(*        and rows must be what TableModel.tla says, on BOTH sides (each side  *)
(*        has its own copy of the model state, the rules are the same);        *)
(*  Pair  any other operation (admin, actions, queries, cursors, headers,      *)
(*        Info/Schema/...): result class and result digest of the two sides    *)
(*        must be equal;                                                       *)
(*  Table / Final: contents of tm and digest of the whole database at the end. *)
EXTENDS TraceBase, FiniteSets

Sides == {"L", "R"}
TM == INSTANCE TableModel WITH Keys <- 1..8, Handles <- 1..12

VARIABLES l, st     \* st[side]: model state of that side

tvars == <<l, st>>
Ev == Log[l]
IsEvent(e) == l <= NLog /\ Ev.e = e /\ l' = l + 1

TraceInit == HWInit /\ l = 1 /\ st = [s \in Sides |-> TM!NewDb]

TrReset == IsEvent("Reset") /\ st' = [s \in Sides |-> TM!NewDb]

TrOp ==
    /\ IsEvent("Op")
    /\ Ev.side \in Sides /\ Ev.op \in TM!Ops
    /\ LET r == TM!Apply(st[Ev.side], Ev.op, Ev.h, Ev.upd, Ev.k, Ev.v) IN
        /\ Ev.cls = r.cls
        /\ (r.cls = "ok" => Ev.val = r.val /\ Ev.rows = r.rows)
        /\ st' = [st EXCEPT ![Ev.side] = r.db]
        /\ TM!OneWriter(r.db)

TrPair ==
    /\ IsEvent("Pair")
    /\ Ev.clsL = Ev.clsR
    /\ Ev.valL = Ev.valR
    /\ UNCHANGED st

\* contents of the modelled table as read directly from the database of that side
TrTable ==
    /\ IsEvent("Table")
    /\ Ev.side \in Sides
    /\ Ev.rows = TM!Rows(st[Ev.side].tab)
    /\ UNCHANGED st

TrFinal ==
    /\ IsEvent("Final")
    /\ Ev.dbL = Ev.dbR
    /\ st["L"].tab = st["R"].tab
    /\ UNCHANGED st

TraceNext == TrReset \/ TrOp \/ TrPair \/ TrTable \/ TrFinal
TraceSpec == TraceInit /\ [][TraceNext]_tvars
HW == HWMark(l)
=============================================================================
