---------------------------- MODULE TraceCalendar ----------------------------
(* Trace validation for C33.  Every line is one call (or a small group of    *)
(* calls on the same values) of the REAL date code of gSuneido with its       *)
(* arguments and results as small integers; the results must be what          *)
(* Calendar.tla specifies.  A date-time is a sequence                         *)
(*   <<year, month, day, hour, minute, second, millisecond>>.                 *)
(* There is no model state besides the line counter.                          *)
(*                                                                          *)
(* Scope of the claim (properties.jsonl C33): valid dates of the supported   *)
(* range 1700-01-01 .. 3000-01-01 and offsets keeping the result in range.   *)
(* When the specified result of an addition lies outside the range the line  *)
(* is accepted whatever the code did (it raises "bad date" or returns a date *)
(* before 1700).  Error texts are never looked at.                           *)
(*                                                                          *)
(*  via = 0: Go API (core.SuDate), 1/2: Suneido code through the compiler     *)
(*  tz  = 1: recorded with a local time zone that has daylight saving;        *)
(*           millisecond differences are then not required (date.MinusSeconds *)
(*           is documented to be unreliable across daylight saving changes)   *)
EXTENDS TraceBase, Calendar

VARIABLES l
tvars == <<l>>
Ev == Log[l]

TraceInit == HWInit /\ l = 1
IsEvent(e) == l <= NLog /\ Ev.e = e /\ l' = l + 1

IsDate(x) == Len(x) = 7

TrReset == IsEvent("Reset")

\* NewDate(fields): the seven fields (each inside its own range: month 1..12, day 1..31,
\* hour 0..23, ..., year 1700..3000) are a date exactly if the calendar has that day
TrValid == /\ IsEvent("Valid")
           /\ Len(Ev.d) = 7 /\ Yr(Ev.d) \in MinYear..MaxYear /\ Mon(Ev.d) \in 1..12 /\ Day(Ev.d) \in 1..31
           /\ Hr(Ev.d) \in 0..23 /\ Mnt(Ev.d) \in 0..59 /\ Sec(Ev.d) \in 0..59 /\ Msec(Ev.d) \in 0..999   \* driver sanity
           /\ Ev.ok = (IF InRange(Ev.d) THEN 1 ELSE 0)

\* r = d.Plus(o...) where a 64-bit seconds/milliseconds offset was split by the driver
\* into xd days and the rest; md = r.MinusDays(d); mq, mr: r.MinusMs(d) = mq * 86400000 + mr;
\* cmp = order of r and d.  ok = 0: the code refused (exception / not a date).
PlusOK(ev, exp) ==
    /\ ev.ok = 1
    /\ ev.r = exp                                         \* the normalised sum
    /\ ev.md = MinusDays(exp, ev.d)                       \* day difference consistent with the addition
    /\ ev.tz = 1 \/ <<ev.mq, ev.mr>> = MinusMs(exp, ev.d) \* millisecond difference consistent
    /\ ev.cmp = Cmp(exp, ev.d)                            \* order is chronological
    /\ ev.cmp = CmpByDiff(exp, ev.d)
TrPlus == /\ IsEvent("Plus")
          /\ IsDate(Ev.d) /\ InRange(Ev.d) /\ Len(Ev.o) = 7 /\ Bounded(Ev.o, Ev.xd)   \* driver sanity
          /\ \A exp \in {PlusX(Ev.d, Ev.o, Ev.xd)} :
                InRange(exp) => PlusOK(Ev, exp)

\* differences and order of two dates a, b
TrDiff == /\ IsEvent("Diff")
          /\ IsDate(Ev.a) /\ InRange(Ev.a) /\ IsDate(Ev.b) /\ InRange(Ev.b)
          /\ Ev.ok = 1
          /\ Ev.md = MinusDays(Ev.a, Ev.b)
          /\ Ev.tz = 1 \/ <<Ev.mq, Ev.mr>> = MinusMs(Ev.a, Ev.b)
          /\ Ev.cmp = Cmp(Ev.a, Ev.b)

\* s = text of date d (SuDate.String / Display), p = what the text parses back to
\* (DateFromLiteral / the compiler's date literal): the text must denote d in the
\* documented format [#]yyyymmdd[.hhmm[ss[mmm]]] and must parse back to d
TrLit == /\ IsEvent("Lit")
         /\ IsDate(Ev.d) /\ InRange(Ev.d)
         /\ Ev.ok = 1
         /\ LitShape(Ev.s) /\ LitFields(Ev.s) = Ev.d
         /\ Ev.p = Ev.d

\* a literal text written by the driver: if it denotes a date of the range, the code
\* must return that date; if it has the right shape and in-range fields but names a day
\* the month does not have (Feb 30, Feb 29 1900, Apr 31), it must not become a date
DayTooLarge(t) == /\ Yr(t) >= MinYear /\ Yr(t) < MaxYear /\ Mon(t) \in 1..12
                  /\ Day(t) > DaysInMonth(Yr(t), Mon(t)) /\ Day(t) <= 31
                  /\ Hr(t) \in 0..23 /\ Mnt(t) \in 0..59 /\ Sec(t) \in 0..59 /\ Msec(t) \in 0..999
TrParse == /\ IsEvent("Parse")
           /\ LitShape(Ev.s)                                                     \* driver sanity
           /\ \A t \in {LitFields(Ev.s)} :
                 /\ InRange(t) => (Ev.ok = 1 /\ Ev.p = t)
                 /\ DayTooLarge(t) => Ev.ok = 0

TraceNext == TrReset \/ TrValid \/ TrPlus \/ TrDiff \/ TrLit \/ TrParse

TraceSpec == TraceInit /\ [][TraceNext]_tvars

HW == HWMark(l)
=============================================================================
