SPECIFICATION TraceSpec
CONSTRAINT HW
POSTCONDITION Accepted
CHECK_DEADLOCK FALSE
