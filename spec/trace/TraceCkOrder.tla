--------------------------- MODULE TraceCkOrder ---------------------------
(* C17, end to end: the messages that the transaction side of the checker   *)
(* interface (db19/checkco.go CheckCo.Read/Output/Delete/Update/ReadCount/   *)
(* Commit/Abort) sends for one transaction are dispatched by the checker     *)
(* goroutine in the order they were sent, each exactly once: a commit or     *)
(* abort is never processed before that transaction's earlier reads and      *)
(* writes. Events (hooks in checkco.go): Send(t, m) is logged by the sending *)
(* goroutine before the message is put into the priority queue, Recv(t, m)   *)
(* by the checker goroutine when it takes the message out (PQueue.tla is the *)
(* model of what happens in between; here only its per-transaction FIFO      *)
(* guarantee is required of the whole path).                                 *)
EXTENDS TraceBase, Sequences, Integers

VARIABLES l, pend     \* pend: transaction -> sequence of message kinds sent, not yet dispatched

tvars == <<l, pend>>
Ev == Log[l]
IsEvent(e) == l <= NLog /\ Ev.e = e /\ l' = l + 1
Get(t) == IF t \in DOMAIN pend THEN pend[t] ELSE <<>>
Set(t, s) == IF s = <<>> THEN [x \in DOMAIN pend \ {t} |-> pend[x]]
             ELSE [x \in DOMAIN pend \cup {t} |-> IF x = t THEN s ELSE pend[x]]

TraceInit == l = 1 /\ pend = [x \in {} |-> <<>>] /\ HWInit
TrReset == IsEvent("Reset") /\ pend' = [x \in {} |-> <<>>]
TrSend == IsEvent("Send") /\ pend' = Set(Ev.t, Append(Get(Ev.t), Ev.m))
\* the message dispatched for t is the oldest one sent for t
TrRecv == /\ IsEvent("Recv")
          /\ Get(Ev.t) # <<>> /\ Head(Get(Ev.t)) = Ev.m
          /\ pend' = Set(Ev.t, Tail(Get(Ev.t)))
TraceNext == TrReset \/ TrSend \/ TrRecv
TraceSpec == TraceInit /\ [][TraceNext]_tvars
HW == HWMark(l)
=============================================================================
