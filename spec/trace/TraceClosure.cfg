SPECIFICATION TraceSpec
CONSTANTS
  MaxCallDepth = 12
CONSTRAINT HW
POSTCONDITION Accepted
CHECK_DEADLOCK FALSE
