---------------------------- MODULE TraceClosure ----------------------------
(* Trace validation for C29. Every line is one program of the tiny block      *)
(* language (its AST in "body", its rendering in "src") together with what    *)
(* the REAL compiler and interpreter produced:                                *)
(*   main  result of the outermost function: ["I",n] a number, ["B",0] a      *)
(*         block, ["N",0] nothing, ["E",code] an exception class, ["O",n] an  *)
(*         object (return Object(...)) whose members are in "obs"             *)
(*   post  calls made after the function had returned, on the blocks it       *)
(*         returned (escaping closures): [index into obs (0 = main), number   *)
(*         of arguments (argument value 7), result]                           *)
(*   note  "fuel": the run was cut by the harness (runaway recursion)         *)
(* The reference interpreter of Closure.tla runs the same AST; results must   *)
(* be equal (block values are compared as "a block"). Runs outside the model  *)
(* (fuel, recursion deeper than the reference interpreter's bound, return     *)
(* from a block after its function has exited) are not compared from that     *)
(* point on.                                                                  *)
EXTENDS TraceBase, Integers, FiniteSets

CONSTANTS MaxCallDepth
VARIABLES l, nprog, last      \* last = result of the reference interpreter for the current line

C == INSTANCE Closure

tvars == <<l, nprog, last>>
Ev == Log[l]

TraceInit == HWInit /\ l = 1 /\ nprog = 0 /\ last = [ctl |-> "none"]
IsEvent(e) == l <= NLog /\ Ev.e = e /\ l' = l + 1

\* observed value equals model value (blocks have no observable identity)
ValEq(o, m) == o[1] = m[1] /\ (o[1] = "B" \/ o[2] = m[2])
\* exceptions: the program's own throw (code 5) is distinguished from runtime errors
\* (uninitialized variable, arithmetic on a block, call of a number, wrong number of arguments);
\* which runtime error it is depends on message texts and is not compared
ExcEq(o, m) == o[1] = "E" /\ m[1] = "E" /\ ((o[2] = C!EUser) = (m[2] = C!EUser))

MainOK(run) ==
    CASE run.ctl = "exc" -> ExcEq(Ev.main, run.val)
      [] run.ctl = "ret" -> ValEq(Ev.main, run.val)
      [] run.ctl = "obs" -> /\ Ev.main = <<"O", Len(run.val)>>
                            /\ Len(Ev.obs) = Len(run.val)
                            /\ \A i \in 1..Len(run.val) : ValEq(Ev.obs[i], run.val[i])

\* the block value that post call pc refers to
PostBlock(run, pc) == IF pc[1] = 0 THEN run.val ELSE run.val[pc[1]]

RECURSIVE PostOK(_, _, _)
PostOK(run, i, sh) ==
    IF i > Len(Ev.post) THEN TRUE
    ELSE LET pc == Ev.post[i]
             bv == PostBlock(run, pc)
             args == IF pc[2] = 0 THEN <<>> ELSE <<C!I(7)>>
             r == C!PostCall(run, bv[2], args, sh)
         IN IF r.ctl = "undef" THEN TRUE                   \* outside the model from here on
            ELSE /\ (r.ctl = "norm" => ValEq(pc[3], r.val))
                 /\ (r.ctl = "exc" => ExcEq(pc[3], r.val))
                 /\ r.ctl \in {"norm", "exc"}
                 /\ PostOK(run, i + 1, r.sh)

ProgOK(run) ==
    \/ Ev.note = "fuel"
    \/ run.ctl = "undef"
    \/ run.ctl = "nil"          \* F fell off its end: its value is not part of the model
    \/ /\ Ev.note = ""
       /\ MainOK(run)
       /\ (run.ctl \in {"ret", "obs"} => PostOK(run, 1, run.sh))
       /\ (run.ctl \notin {"ret", "obs"} => Len(Ev.post) = 0)

\* the reference interpreter runs once per line (the primed variable holds its result)
TrProg == IsEvent("Prog") /\ last' = C!RunF(Ev.body) /\ ProgOK(last') /\ nprog' = nprog + 1
TrReset == IsEvent("Reset") /\ nprog' = 0 /\ last' = [ctl |-> "none"]

TraceNext == TrProg \/ TrReset
TraceSpec == TraceInit /\ [][TraceNext]_tvars
HW == HWMark(l)
=============================================================================
