SPECIFICATION TraceSpec
CONSTANTS
  Objs = {1, 2}
  Keys = {0}
  Ats = {0}
  Vals = {0}
  SliceArgs = {0}
  MaxSize = 1000
  Dev = "none"
CONSTRAINT HW
INVARIANTS KeysDisjoint
POSTCONDITION Accepted
CHECK_DEADLOCK FALSE
