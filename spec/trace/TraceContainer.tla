--------------------------- MODULE TraceContainer ---------------------------
(* Trace validation for C36: every line is one container operation performed  *)
(* on REAL SuObject / SuRecord values (Go API or compiled Suneido code) by    *)
(* harness/cmd/container, followed by the complete state of every object.     *)
(* The model is advanced by the actions of Container.tla; the logged result,  *)
(* the error class ("" or "ro" = rejected because read-only) and the logged   *)
(* (list, named, readonly) state of EVERY object must agree with the model.   *)
(* Orders the property leaves open are compared as sets (named members,       *)
(* Members() of the named part, which of several equal named values Find      *)
(* reports). Error message texts are not compared.                            *)
EXTENDS TraceBase, Integers, FiniteSets

CONSTANTS Objs, Keys, Ats, Vals, SliceArgs, MaxSize, Dev

VARIABLES l, objs, out

C == INSTANCE Container

tvars == <<l, objs, out>>
Ev == Log[l]

TraceInit == HWInit /\ l = 1 /\ C!Init
IsEvent(e) == l <= NLog /\ Ev.e = e /\ l' = l + 1
SeqToSet(s) == {s[i] : i \in 1..Len(s)}

\* logged state [list, named, ro] of object o equals the model state s
Matches(s, e) ==
    IF s = C!NoObj THEN e[3] = -1
    ELSE /\ e[3] = (IF s.ro THEN 1 ELSE 0)
         /\ Len(e[1]) = Len(s.list)
         /\ \A i \in 1..Len(s.list) : e[1][i] = s.list[i]
         /\ Len(e[2]) = Cardinality(DOMAIN s.named)
         /\ SeqToSet(e[2]) = {<<k, s.named[k]>> : k \in DOMAIN s.named}
StateOK == \A o \in Objs : Matches(objs'[o], Ev.st[o])

\* mutators: the model decides between "rejected (ro), nothing changes" and the effect
\* (the driver writes "ro" when the message mentions "readonly", else the message; only whether the
\* operation was rejected is compared)
ErrOK == (Ev.err = "") = (out'.err = "")

TrReset == /\ IsEvent("Reset")
           /\ objs' = [o \in Objs |-> IF o = 1 THEN C!EmptyObj ELSE C!NoObj]
           /\ out' = C!Out("init", 0, 0, C!NONE, 0, 0, "")
TrKind == IsEvent("Kind") /\ UNCHANGED <<objs, out>>

Known == Ev.o \in Objs /\ C!Exists(Ev.o)

TrAdd == IsEvent("Add") /\ Known /\ C!Mutate("Add", Ev.o, 0, Ev.x, C!AddTo(objs[Ev.o], Ev.x), 0)
         /\ ErrOK /\ StateOK
TrInsert == IsEvent("Insert") /\ Known
            /\ C!Mutate("Insert", Ev.o, Ev.k, Ev.x, C!InsertTo(objs[Ev.o], Ev.k, Ev.x), 0)
            /\ ErrOK /\ StateOK
TrPut == IsEvent("Put") /\ Known
         /\ C!Mutate("Put", Ev.o, Ev.k, Ev.x, C!PutTo(objs[Ev.o], Ev.k, Ev.x), 0)
         /\ ErrOK /\ StateOK
TrDelete == IsEvent("Delete") /\ Known /\ C!Delete(Ev.o, Ev.k)
            /\ ErrOK /\ (Ev.err = "" => Ev.res = out'.res) /\ StateOK
TrErase == IsEvent("Erase") /\ Known /\ C!Erase(Ev.o, Ev.k)
           /\ ErrOK /\ (Ev.err = "" => Ev.res = out'.res) /\ StateOK
TrSort == IsEvent("Sort") /\ Known /\ C!Sort(Ev.o) /\ ErrOK /\ StateOK
TrUnique == IsEvent("Unique") /\ Known /\ C!Unique(Ev.o) /\ ErrOK /\ StateOK
TrSetRO == IsEvent("SetRO") /\ Known /\ C!SetRO(Ev.o) /\ ErrOK /\ StateOK
TrCopy == IsEvent("Copy") /\ Known /\ Ev.k \in Objs /\ C!Copy(Ev.o, Ev.k) /\ ErrOK /\ StateOK

TrGet == IsEvent("Get") /\ Known /\ C!Get(Ev.o, Ev.k) /\ ErrOK /\ Ev.res = out'.res /\ StateOK
FindOK == LET fs == C!FindSet(objs[Ev.o], Ev.x) IN
             IF fs = {} THEN Ev.res = -1 ELSE Ev.res \in fs
TrFind == /\ IsEvent("Find") /\ Known /\ Ev.err = ""
          /\ FindOK
          /\ UNCHANGED <<objs, out>>
          /\ StateOK
TrSize == IsEvent("Size") /\ Known /\ C!SizeOp(Ev.o) /\ ErrOK
          /\ Ev.res[1] = out'.res[1] /\ Ev.res[2] = out'.res[2] /\ Ev.res[3] = out'.res[1] + out'.res[2]
          /\ StateOK
TrMembers == IsEvent("Members") /\ Known /\ C!Members(Ev.o) /\ ErrOK
             /\ LET n == out'.res[1] IN
                   /\ Len(Ev.res) = n + Cardinality(out'.res[2])
                   /\ \A i \in 1..n : Ev.res[i] = i - 1
                   /\ {Ev.res[i] : i \in (n + 1)..Len(Ev.res)} = out'.res[2]
             /\ StateOK
SameSeq(a, b) == Len(a) = Len(b) /\ \A i \in 1..Len(a) : a[i] = b[i]
TrRangeTo == IsEvent("RangeTo") /\ Known /\ C!RangeTo(Ev.o, Ev.k, Ev.n) /\ ErrOK
             /\ SameSeq(Ev.res, out'.res) /\ StateOK
TrRangeLen == IsEvent("RangeLen") /\ Known /\ C!RangeLen(Ev.o, Ev.k, Ev.n) /\ ErrOK
              /\ SameSeq(Ev.res, out'.res) /\ StateOK

TraceNext == \/ TrReset \/ TrKind \/ TrAdd \/ TrInsert \/ TrPut \/ TrDelete \/ TrErase \/ TrSort
             \/ TrUnique \/ TrSetRO \/ TrCopy \/ TrGet \/ TrFind \/ TrSize \/ TrMembers
             \/ TrRangeTo \/ TrRangeLen

TraceSpec == TraceInit /\ [][TraceNext]_tvars

HW == HWMark(l)

\* evaluated on every reconstructed state
KeysDisjoint == C!KeysDisjoint
=============================================================================
