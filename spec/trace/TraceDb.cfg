SPECIFICATION TraceSpec
CONSTRAINT HW
POSTCONDITION Accepted
INVARIANTS UniqueInEveryCommittedState FkIntegrityInEveryCommittedState
CHECK_DEADLOCK FALSE
