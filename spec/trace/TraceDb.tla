------------------------------- MODULE TraceDb -------------------------------
(* Trace validation of real executions of the gSuneido database (db19):      *)
(* concurrent clients running transactions against the real checker / merger  *)
(* / persist pipeline (driver harness/cmd/dbtran).                            *)
(*                                                                           *)
(* Client events carry arguments and results; hook events (Commit, StateU)    *)
(* are emitted inside the database state mutex, so their file order is the    *)
(* order of the state updates. The model keeps hist = the logical database    *)
(* after each commit, and per transaction its snapshot number, own writes and *)
(* observations.                                                              *)
(*   C02  every observation equals evaluation on  snapshot + own writes       *)
(*   C01  at Commit(t) every observation of t, re-evaluated on the latest     *)
(*        committed state + t's own earlier writes, is unchanged              *)
(*   C03  the database changes only at Commit(t), by exactly t's writes;      *)
(*        Complete reports success iff that happened; statistics exact        *)
(*   C07/C08  AllUnique and FkIntegrity in every committed state (INVARIANTS) *)
(*   C06/C16  every published physical state (btree + layers of every index)  *)
(*        flattens, for every index, to exactly the committed logical content *)
EXTENDS TraceBase, DbModel, FiniteSetsExt

VARIABLES l, S, hist, tst, callC, phys, trigOff

tvars == <<l, S, hist, tst, callC, phys, trigOff>>

Ev == Log[l]
IsEvent(e) == l <= NLog /\ Ev.e = e /\ l' = l + 1

TraceInit == /\ HWInit /\ l = 1
             /\ S = <<>> /\ hist = <<>> /\ tst = <<>> /\ callC = <<>> /\ phys = <<>>
             /\ trigOff = <<>>

Cur == hist[Len(hist)]
NC == Len(hist) - 1                      \* number of commits so far

TrReset == /\ IsEvent("Reset")
           /\ S' = <<>> /\ hist' = <<>> /\ tst' = <<>> /\ callC' = <<>> /\ phys' = <<>>
           /\ trigOff' = <<>>

\* normalise the schema from the trace (kcols etc. as logged)
TrSchema == /\ IsEvent("Schema")
            /\ S' = Ev.tables
            /\ hist' = << EmptyDb(Ev.tables) >>
            /\ trigOff' = [n \in Names(Ev.tables) |-> 0]
            /\ UNCHANGED <<tst, callC, phys>>

\* a schema change (index created or dropped; columns and rows unchanged), logged inside
\* the state mutex just before the StateU of the same update
TrSchemaU == /\ IsEvent("SchemaU")
             /\ Names(Ev.tables) = Names(S)
             /\ S' = Ev.tables
             /\ UNCHANGED <<hist, tst, callC, phys, trigOff>>

\* outcome of an administrative request as seen by its caller (informational)
TrAdmin == IsEvent("Admin") /\ UNCHANGED <<S, hist, tst, callC, phys, trigOff>>

----------------------------------------------------------------------------
(* transactions *)

Known(t) == t \in DOMAIN tst
Active(t) == Known(t) /\ tst[t].status = "active"
View(t) == ApplyAll(hist[tst[t].c + 1], tst[t].wr)

HasTrig(n) == TabOf(S, n).trig = 1 /\ trigOff[n] = 0
ExpectedTrig(chg) == { c \in chg : HasTrig(c[1]) }
TrigSet(tg) == { <<tg[i].tbl, tg[i].old, tg[i].new>> : i \in 1..Len(tg) }
TrigExact(tg, chg) == /\ TrigSet(tg) = ExpectedTrig(chg)
                      /\ Len(tg) = Cardinality(ExpectedTrig(chg))
\* a throwing trigger: the calls made so far are among the expected ones
TrigPartial(tg, chg) == /\ TrigSet(tg) \subseteq ExpectedTrig(chg)
                        /\ Len(tg) = Cardinality(TrigSet(tg))

TrBeginCall == /\ IsEvent("BeginCall")
               /\ callC' = (Ev.t :> NC) @@ callC
               /\ UNCHANGED <<S, hist, tst, phys, trigOff>>

\* the snapshot is a state that was current between the call and its return
\* (an update is logged just before it is published, hence the -1)
TrBegin == /\ IsEvent("Begin")
           /\ Ev.t \in DOMAIN callC /\ ~Known(Ev.t)
           /\ Ev.c >= 0 /\ Ev.c <= NC /\ Ev.c + 1 >= callC[Ev.t]
           /\ tst' = (Ev.t :> [kind |-> Ev.kind, c |-> Ev.c, wr |-> <<>>, obs |-> <<>>,
                               status |-> "active"]) @@ tst
           /\ UNCHANGED <<S, hist, callC, phys, trigOff>>

TrBeginFail == IsEvent("BeginFail") /\ UNCHANGED <<S, hist, tst, callC, phys, trigOff>>

\* does observation o hold on view v?  (used at the event and again at commit)
Holds(o, v) ==
    CASE o.e = "Lookup" -> LookupRows(v, S, o.tbl, o.ix, o.key) = Ran(o.rows)
      [] o.e = "Scan"   -> ScanOK(v[o.tbl], TabOf(S, o.tbl).idx[o.ix], o.dir, o.lo, o.hi,
                                  o.limit, o.eof, o.rows)
      [] o.e = "Output" -> o.res \in OutputAllowed(v, S, o.tbl, o.row)
      [] o.e = "Update" -> /\ o.old \in v[o.tbl]
                           /\ o.res \in UpdateAllowed(v, S, o.tbl, o.old, o.new)
                           /\ o.res = "ok" => UpdChanges(v, S, o.tbl, o.old, o.new) = o.chg
      [] o.e = "Delete" -> /\ o.row \in v[o.tbl]
                           /\ o.res \in DeleteAllowed(v, S, o.tbl, o.row)
                           /\ o.res = "ok" => DelChanges(v, S, o.tbl, o.row) = o.chg

NoChg == {}
Observe(t, o, chg) ==
    tst' = [tst EXCEPT ![t].obs = Append(@, o),
                       ![t].wr = IF chg = NoChg THEN @ ELSE Append(@, chg)]

\* an operation of a transaction the checker has aborted fails with "aborted";
\* the properties allow an abort at any time. A transaction that runs into the per-transaction
\* write limit is aborted as well ("limit"): nothing of it may become visible afterwards
TrAborted == /\ l <= NLog /\ Ev.e \in {"Lookup", "Scan", "Output", "Update", "Delete"}
             /\ Ev.res \in {"aborted", "limit"} /\ l' = l + 1   \* "limit": write / read limit exceeded
             /\ Active(Ev.t) /\ tst[Ev.t].kind = "u"
             /\ tst' = [tst EXCEPT ![Ev.t].status = "dead"]
             /\ UNCHANGED <<S, hist, callC, phys, trigOff>>

WithNw(o, t, chg) == [o EXCEPT !.nw = Len(tst[t].wr), !.chg = chg]

TrRead == /\ l <= NLog /\ Ev.e \in {"Lookup", "Scan"} /\ Ev.res = "ok" /\ l' = l + 1
          /\ Active(Ev.t)
          /\ LET o == [Ev EXCEPT !.res = Len(tst[Ev.t].wr)] IN   \* res field reused as nw
               /\ Holds(Ev, View(Ev.t))
               /\ Observe(Ev.t, o, NoChg)
          /\ UNCHANGED <<S, hist, callC, phys, trigOff>>

TrOutput == /\ IsEvent("Output") /\ Ev.res \in {"ok", "dup", "fk"}
            /\ Active(Ev.t) /\ tst[Ev.t].kind = "u"
            /\ Holds(Ev, View(Ev.t))
            /\ TrigExact(Ev.trig, IF Ev.res = "ok" THEN {<<Ev.tbl, <<>>, Ev.row>>} ELSE {})
            /\ Observe(Ev.t, [e |-> "Output", tbl |-> Ev.tbl, row |-> Ev.row, res |-> Ev.res,
                              nw |-> Len(tst[Ev.t].wr)],
                       IF Ev.res = "ok" THEN {<<Ev.tbl, <<>>, Ev.row>>} ELSE NoChg)
            /\ UNCHANGED <<S, hist, callC, phys, trigOff>>

TrUpdate == /\ IsEvent("Update") /\ Ev.res \in {"ok", "dup", "fk"}
            /\ Active(Ev.t) /\ tst[Ev.t].kind = "u"
            /\ LET v == View(Ev.t)
                   chg == IF Ev.res = "ok" /\ Ev.old # Ev.new
                          THEN UpdChanges(v, S, Ev.tbl, Ev.old, Ev.new) ELSE NoChg
               IN  /\ Ev.old \in v[Ev.tbl]
                   /\ TrigExact(Ev.trig, chg)
                   /\ IF Ev.old = Ev.new
                      THEN Ev.res = "ok" /\ UNCHANGED tst        \* identical record: no-op
                      ELSE /\ Holds([e |-> "Update", tbl |-> Ev.tbl, old |-> Ev.old, new |-> Ev.new,
                                     res |-> Ev.res, chg |-> chg], v)
                           /\ Observe(Ev.t, [e |-> "Update", tbl |-> Ev.tbl, old |-> Ev.old,
                                             new |-> Ev.new, res |-> Ev.res, chg |-> chg,
                                             nw |-> Len(tst[Ev.t].wr)], chg)
            /\ UNCHANGED <<S, hist, callC, phys, trigOff>>

TrDelete == /\ IsEvent("Delete") /\ Ev.res \in {"ok", "fk"}
            /\ Active(Ev.t) /\ tst[Ev.t].kind = "u"
            /\ LET v == View(Ev.t)
                   chg == IF Ev.res = "ok" THEN DelChanges(v, S, Ev.tbl, Ev.row) ELSE NoChg
               IN  /\ TrigExact(Ev.trig, chg)
                   /\ Holds([e |-> "Delete", tbl |-> Ev.tbl, row |-> Ev.row, res |-> Ev.res,
                             chg |-> chg], v)
                   /\ Observe(Ev.t, [e |-> "Delete", tbl |-> Ev.tbl, row |-> Ev.row, res |-> Ev.res,
                                     chg |-> chg, nw |-> Len(tst[Ev.t].wr)], chg)
            /\ UNCHANGED <<S, hist, callC, phys, trigOff>>

ObsNw(o) == IF o.e \in {"Lookup", "Scan"} THEN o.res ELSE o.nw

\* the commit state update (hook inside the state mutex)
TrCommit == /\ IsEvent("Commit")
            /\ Active(Ev.t) /\ tst[Ev.t].kind = "u" /\ tst[Ev.t].wr # <<>>
            /\ Ev.c = NC + 1
            /\ LET t == Ev.t
                   wr == tst[t].wr
                   ob == tst[t].obs
               IN  \* C01: serializable at the commit point
                   /\ \A i \in 1..Len(ob) :
                        LET o == ob[i]
                            v == ApplyAll(Cur, SubSeq(wr, 1, ObsNw(o)))
                        IN  IF o.e \in {"Lookup", "Scan"} THEN Holds([o EXCEPT !.res = "ok"], v)
                            ELSE Holds(o, v)
                   /\ hist' = Append(hist, ApplyAll(Cur, wr))
                   \* C07 / C08: key, unique and foreign key constraints hold in the new committed
                   \* state (evaluated here, where the committed state changes, not at every step)
                   /\ AllUnique(ApplyAll(Cur, wr), S)
                   /\ FkIntegrity(ApplyAll(Cur, wr), S)
            /\ tst' = [tst EXCEPT ![Ev.t].status = "committed"]
            /\ UNCHANGED <<S, callC, phys, trigOff>>

\* what the client was told
TrComplete == /\ IsEvent("Complete")
              /\ Known(Ev.t)
              /\ LET ts == tst[Ev.t] IN
                   IF Ev.res = "ok"
                   THEN \/ ts.kind = "r"
                        \/ ts.status = "committed"
                        \/ ts.status = "active" /\ ts.wr = <<>>    \* nothing to commit
                   ELSE ts.status \in {"active", "dead", "doomed"}  \* failure => never committed
              /\ tst' = [tst EXCEPT ![Ev.t].status =
                            IF @ = "committed" THEN "done-committed" ELSE "done"]
              /\ UNCHANGED <<S, hist, callC, phys, trigOff>>

TrRollback == /\ IsEvent("Rollback")
              /\ Known(Ev.t) /\ tst[Ev.t].status \in {"active", "dead", "doomed"}
              /\ tst' = [tst EXCEPT ![Ev.t].status = "done"]
              /\ UNCHANGED <<S, hist, callC, phys, trigOff>>

----------------------------------------------------------------------------
(* triggers (C44): one call per row change of a table whose trigger is enabled, *)
(* inside the changing operation, with the old and the new row (<<>> = none),    *)
(* including changes made by cascades; none while disabled (nested counts)      *)

TrTrigDisable == /\ IsEvent("TrigDisable")
                 /\ trigOff' = [trigOff EXCEPT ![Ev.tbl] = @ + 1]
                 /\ UNCHANGED <<S, hist, tst, callC, phys>>
TrTrigEnable == /\ IsEvent("TrigEnable") /\ trigOff[Ev.tbl] > 0
                /\ trigOff' = [trigOff EXCEPT ![Ev.tbl] = @ - 1]
                /\ UNCHANGED <<S, hist, tst, callC, phys>>

\* a trigger threw during a row operation: the change must never be committed, so the
\* transaction can only fail from here on (the exception itself propagated to the caller)
TrTrigThrew == /\ l <= NLog /\ Ev.e \in {"Output", "Update", "Delete"} /\ Ev.res = "trigger" /\ l' = l + 1
               /\ Active(Ev.t) /\ tst[Ev.t].kind = "u"
               /\ LET v == View(Ev.t)
                      chg == CASE Ev.e = "Output" -> {<<Ev.tbl, <<>>, Ev.row>>}
                               [] Ev.e = "Update" -> UpdChanges(v, S, Ev.tbl, Ev.old, Ev.new)
                               [] Ev.e = "Delete" -> DelChanges(v, S, Ev.tbl, Ev.row)
                  IN  TrigPartial(Ev.trig, chg) /\ Len(Ev.trig) > 0
               /\ tst' = [tst EXCEPT ![Ev.t].status = "doomed"]
               /\ UNCHANGED <<S, hist, callC, phys, trigOff>>

\* The code applies the change to the transaction's private view before it calls the
\* trigger, and the abort is processed asynchronously, so the doomed transaction may
\* keep working on a private view this specification does not track; none of it may
\* ever be committed (TrCommit needs "active", TrComplete refuses success).
TrDoomedOp == /\ l <= NLog /\ Ev.e \in {"Lookup", "Scan", "Output", "Update", "Delete"} /\ l' = l + 1
              /\ Known(Ev.t) /\ tst[Ev.t].status = "doomed"
              /\ UNCHANGED <<S, hist, tst, callC, phys, trigOff>>

----------------------------------------------------------------------------
(* physical state: every published state update *)

RowPart(e) == SubSeq(e, 1, Len(e) - 1)          \* bt entry = row ++ <<len>>
LRow(e) == SubSeq(e, 2, Len(e) - 1)             \* layer entry = <<op>> ++ row ++ <<len>>
LEnt(e) == SubSeq(e, 2, Len(e))                 \* row ++ <<len>>

\* apply one layer to a set of entries (row ++ <<len>>); keys within a layer are distinct
ApplyLayer(ixd, B, layer) ==
    LET keys == { EntryKey(ixd, LRow(layer[i])) : i \in 1..Len(layer) }
    IN  { x \in B : EntryKey(ixd, RowPart(x)) \notin keys }
          \cup { LEnt(layer[i]) : i \in { j \in 1..Len(layer) : layer[j][1] # 3 } }

\* add needs the key absent, update/delete need it present (Overlay.Check's rule)
LayerWellFormed(ixd, B, layer) ==
    \A i \in 1..Len(layer) :
        LET present == \E x \in B : EntryKey(ixd, RowPart(x)) = EntryKey(ixd, LRow(layer[i]))
        IN  IF layer[i][1] = 1 THEN ~present ELSE present

RECURSIVE FlattenFrom(_, _, _, _)
FlattenFrom(ixd, B, layers, k) ==
    IF k > Len(layers) THEN B ELSE FlattenFrom(ixd, ApplyLayer(ixd, B, layers[k]), layers, k + 1)
Flatten(ixd, ip) == FlattenFrom(ixd, Ran(ip.bt), ip.layers, 1)

RECURSIVE WellFormedFrom(_, _, _, _)
WellFormedFrom(ixd, B, layers, k) ==
    IF k > Len(layers) THEN TRUE
    ELSE /\ LayerWellFormed(ixd, B, layers[k])
         /\ WellFormedFrom(ixd, ApplyLayer(ixd, B, layers[k]), layers, k + 1)

SumLens(B) == MapThenSumSet(LAMBDA e : e[Len(e)], B)
RECURSIVE SumDeltas(_, _)
SumDeltas(ds, j) == IF ds = <<>> THEN 0 ELSE Head(ds)[j] + SumDeltas(Tail(ds), j)

\* net row-count change of one layer
LayerNet(layer) == Cardinality({ i \in 1..Len(layer) : layer[i][1] = 1 })
LayerDel(layer) == Cardinality({ i \in 1..Len(layer) : layer[i][1] = 3 })

TableOK(tb, content) ==
    LET tab == TabOf(S, tb.name)
        nl == Len(tb.deltas)
        f1 == Flatten(tab.idx[1], tb.idx[1])
    IN  /\ Len(tb.idx) = Len(tab.idx)
        \* LayersParallel
        /\ \A j \in 1..Len(tb.idx) : Len(tb.idx[j].layers) = nl
        \* every entry is stored under its row's key, in key order (checked on bytes by the driver)
        /\ \A j \in 1..Len(tb.idx) : tb.idx[j].keyok = 1
        /\ \A j \in 1..Len(tb.idx) : WellFormedFrom(tab.idx[j], Ran(tb.idx[j].bt), tb.idx[j].layers, 1)
        \* IndexesAgree + NoLossNoDup: every index flattens to exactly the committed rows
        /\ \A j \in 1..Len(tb.idx) :
              { RowPart(x) : x \in Flatten(tab.idx[j], tb.idx[j]) } = content
        /\ \A j \in 1..Len(tb.idx) : Cardinality(Flatten(tab.idx[j], tb.idx[j])) = Cardinality(content)
        \* StatsExact
        /\ tb.nrows = Cardinality(content)
        /\ tb.size = SumLens(f1)
        /\ tb.btnrows = Len(tb.idx[1].bt)
        /\ tb.btsize = SumLens(Ran(tb.idx[1].bt))
        /\ tb.btnrows + SumDeltas(tb.deltas, 1) = tb.nrows
        /\ tb.btsize + SumDeltas(tb.deltas, 2) = tb.size
        /\ \A k \in 1..nl : tb.deltas[k][1] + LayerDel(tb.idx[1].layers[k]) = LayerNet(tb.idx[1].layers[k])

\* how the physical structure may change, by kind of update
StepOK(kind, old, new) ==
    CASE kind = "commit" ->      \* one new layer on top, nothing else touched
            \A j \in 1..Len(new.idx) :
                /\ new.idx[j].bt = old.idx[j].bt
                /\ Len(new.idx[j].layers) = Len(old.idx[j].layers) + 1
                /\ SubSeq(new.idx[j].layers, 1, Len(old.idx[j].layers)) = old.idx[j].layers
      [] kind = "merge" ->       \* bottom layers folded into the base layer, the rest kept
            \A j \in 1..Len(new.idx) :
                /\ new.idx[j].bt = old.idx[j].bt
                /\ Len(new.idx[j].layers) <= Len(old.idx[j].layers)
                /\ LET n == Len(old.idx[j].layers) - Len(new.idx[j].layers) IN
                     SubSeq(new.idx[j].layers, 2, Len(new.idx[j].layers))
                        = SubSeq(old.idx[j].layers, n + 2, Len(old.idx[j].layers))
      [] kind = "persist" ->     \* base layer saved into the btree, the rest kept
            \A j \in 1..Len(new.idx) :
                /\ new.idx[j].layers[1] = <<>>
                /\ Len(new.idx[j].layers) = Len(old.idx[j].layers)
                /\ SubSeq(new.idx[j].layers, 2, Len(new.idx[j].layers))
                        = SubSeq(old.idx[j].layers, 2, Len(old.idx[j].layers))
      [] OTHER -> TRUE

TrState == /\ IsEvent("StateU")
           /\ Ev.c = NC
           /\ \A i \in 1..Len(Ev.tables) :
                LET tb == Ev.tables[i] IN
                  /\ TableOK(tb, Cur[tb.name])
                  /\ (tb.name \in DOMAIN phys /\ Len(phys[tb.name].idx) = Len(tb.idx))
                        => StepOK(Ev.kind, phys[tb.name], tb)
           \* a persist saves the base layer of every index of every table: nothing merged may stay
           \* unsaved in a table the persist skipped (durable state = btrees only)
           /\ Ev.kind = "persist" =>
                \A n \in DOMAIN phys : (\A i \in 1..Len(Ev.tables) : Ev.tables[i].name # n) =>
                    \A j \in 1..Len(phys[n].idx) : phys[n].idx[j].layers[1] = <<>>
           /\ phys' = [n \in DOMAIN phys \cup { Ev.tables[i].name : i \in 1..Len(Ev.tables) } |->
                        IF \E i \in 1..Len(Ev.tables) : Ev.tables[i].name = n
                        THEN Ev.tables[CHOOSE i \in 1..Len(Ev.tables) : Ev.tables[i].name = n]
                        ELSE phys[n]]
           /\ UNCHANGED <<S, hist, tst, callC, trigOff>>

\* after the pipeline was stopped cleanly (checker stopped, merges drained, final persist):
\* nothing committed may be left in an unmerged transaction layer or an unsaved base layer
TrQuiesced == /\ IsEvent("Quiesced")
              /\ \A n \in DOMAIN phys : \A j \in 1..Len(phys[n].idx) :
                    /\ Len(phys[n].idx[j].layers) = 1
                    /\ phys[n].idx[j].layers[1] = <<>>
              /\ UNCHANGED <<S, hist, tst, callC, phys, trigOff>>

TraceNext == \/ TrReset \/ TrQuiesced \/ TrSchema \/ TrSchemaU \/ TrAdmin \/ TrBeginCall \/ TrBegin \/ TrBeginFail
             \/ TrTrigDisable \/ TrTrigEnable \/ TrTrigThrew \/ TrDoomedOp
             \/ TrAborted \/ TrRead \/ TrOutput \/ TrUpdate \/ TrDelete
             \/ TrCommit \/ TrComplete \/ TrRollback \/ TrState

TraceSpec == TraceInit /\ [][TraceNext]_tvars
HW == HWMark(l)

----------------------------------------------------------------------------
(* invariants on every reconstructed committed state *)
UniqueInEveryCommittedState == hist = <<>> \/ AllUnique(Cur, S)
FkIntegrityInEveryCommittedState == hist = <<>> \/ FkIntegrity(Cur, S)
=============================================================================
