----------------------------- MODULE TraceDurable -----------------------------
(* Trace validation for C04 C05 C19 C20: real database files built by the real  *)
(* pipeline (driver harness/cmd/dbfile). The hook inside the persist state      *)
(* update logs every durable state (offset, time, digest of what a reopen of     *)
(* that state shows). The operators of Durable.tla define which durable state    *)
(* a damaged file must recover to and which one a past time selects.            *)
EXTENDS TraceBase, FiniteSets, Integers

D == INSTANCE Durable WITH MaxCommits <- 0, MaxPersists <- 0, MaxClock <- 0, DevNoEmptyCheck <- FALSE, DevSearchLo <- FALSE,
        file <- <<>>, cur <- 0, merged <- 0, clock <- 0, status <- "", view <- 0,
        refused <- FALSE, npersist <- 0

VARIABLES l, durable, closeDig, img, slen, pos, origDig

tvars == <<l, durable, closeDig, img, slen, pos, origDig>>
Ev == Log[l]
IsEvent(e) == l <= NLog /\ Ev.e = e /\ l' = l + 1

Init0 == /\ durable = <<>>          \* [off, t, dig] of every state record written, in file order
         /\ closeDig = ""           \* logical content seen just before the last clean close
         /\ img = [size |-> 0, n |-> 0]   \* unclosed image: its size and how many durable states it holds
         /\ slen = 0 /\ pos = 0 /\ origDig = ""
TraceInit == HWInit /\ l = 1 /\ Init0

TrReset == /\ IsEvent("Reset")
           /\ durable' = <<>> /\ closeDig' = "" /\ img' = [size |-> 0, n |-> 0]
           /\ slen' = 0 /\ pos' = 0 /\ origDig' = ""

TrCreated == /\ IsEvent("Created") /\ slen' = Ev.statelen
             /\ UNCHANGED <<durable, closeDig, img, pos, origDig>>

TrNoop == /\ l <= NLog /\ Ev.e \in {"Admin", "Committed"} /\ l' = l + 1
          /\ UNCHANGED <<durable, closeDig, img, slen, pos, origDig>>

\* a state record was written (hook inside the persist state update)
TrPersist == /\ IsEvent("Persist")
             /\ Ev.agree = 1                                  \* all indexes + counts agree in the saved state
             /\ Ev.disk = Ev.dig                              \* the record just written reads back as that state
             /\ durable # <<>> => /\ Ev.off > durable[Len(durable)].off
                                  /\ Ev.t >= durable[Len(durable)].t
             /\ durable' = Append(durable, [off |-> Ev.off, t |-> Ev.t, dig |-> Ev.dig])
             /\ UNCHANGED <<closeDig, img, slen, pos, origDig>>

TrImage == /\ IsEvent("Image")
           /\ img' = [size |-> Ev.size, n |-> Len(durable)]
           /\ UNCHANGED <<durable, closeDig, slen, pos, origDig>>

TrClose == /\ IsEvent("Close") /\ Ev.agree = 1
           /\ closeDig' = Ev.dig
           /\ UNCHANGED <<durable, img, slen, pos, origDig>>

\* C04: reopening after a clean close shows exactly what was visible before closing,
\* which is also exactly the last state written
TrReopen == /\ IsEvent("Reopen")
            /\ Ev.res = "ok" /\ Ev.agree = 1 /\ Ev.check = ""
            /\ Ev.dig = closeDig
            /\ durable # <<>> /\ Ev.dig = durable[Len(durable)].dig
            /\ UNCHANGED <<durable, closeDig, img, slen, pos, origDig>>

----------------------------------------------------------------------------
(* C19 *)
AsFile == [i \in 1..Len(durable) |-> D!State(i, durable[i].t)]
Matches(i) == /\ Ev.t = durable[i].t /\ Ev.dig = durable[i].dig
              /\ (Ev.off = durable[i].off \/ Ev.off = 0)

TrAsofAt == /\ IsEvent("Asof") /\ Ev.kind = "at"
            /\ LET i == D!AsofIdx(AsFile, Ev.arg) IN
                 /\ Matches(i)
                 \* a time before the first state: the code has no position for it (offset 0)
                 /\ pos' = IF Ev.off = 0 THEN -1 ELSE i
            /\ UNCHANGED <<durable, closeDig, img, slen, origDig>>

TrAsofStep == /\ IsEvent("Asof") /\ Ev.kind = "step"
              /\ IF pos = -1
                 THEN \* stepping from "before the first state" is not specified: any state, or none
                      \/ Ev.t = 0 /\ pos' = pos
                      \/ \E i \in 1..Len(durable) : Matches(i) /\ Ev.off = durable[i].off /\ pos' = i
                 ELSE LET j == IF Ev.arg = 1 THEN D!NextIdx(AsFile, pos) ELSE D!PrevIdx(AsFile, pos) IN
                      IF j = 0 THEN Ev.t = 0 /\ pos' = pos          \* no more states: position unchanged
                      ELSE Matches(j) /\ Ev.off = durable[j].off /\ pos' = j
              /\ UNCHANGED <<durable, closeDig, img, slen, origDig>>

TrAsofFuture == /\ IsEvent("Asof") /\ Ev.kind = "future"
                /\ Ev.dig = durable[Len(durable)].dig
                /\ pos' = -1
                /\ UNCHANGED <<durable, closeDig, img, slen, origDig>>

----------------------------------------------------------------------------
(* C05: a copy of the unclosed file cut at byte x, followed by nothing / zeros / garbage /
   the marker bytes. Complete(i): state record i lies entirely inside the first x bytes. *)
Complete(i, x) == durable[i].off + slen <= x
Valid(x) == { i \in 1..img.n : Complete(i, x) }
Newest(x) == CHOOSE i \in Valid(x) : \A j \in Valid(x) : j <= i
\* The storage layer ignores trailing zero bytes; eff is the length of the trial file without
\* them and marker says whether its last 8 bytes are the shutdown marker. If those follow a
\* state record directly, the file is a properly closed database at that state.
CleanAt(eff, marker) == marker = 1 /\ \E i \in 1..img.n : durable[i].off + slen + 8 = eff
CleanIdx(eff) == CHOOSE i \in 1..img.n : durable[i].off + slen + 8 = eff

TrTrial == /\ IsEvent("Trial")
           /\ Ev.x <= img.size
           /\ Ev.check \in {"ok", "error"}                       \* check terminated with a result
           /\ IF CleanAt(Ev.eff, Ev.marker)
              THEN /\ Ev.open = "opened" /\ Ev.agree = 1
                   /\ Ev.dig = durable[CleanIdx(Ev.eff)].dig
              ELSE /\ Ev.open = "refused"                        \* damaged file is refused on open
                   /\ IF Valid(Ev.x) = {}
                      THEN Ev.repair = "novalid"                 \* clear result
                      ELSE /\ Ev.repair = "ok" /\ Ev.reopen = "ok"   \* repaired file opens cleanly
                           /\ Ev.ck2 = "" /\ Ev.agree = 1
                           /\ Ev.dig = durable[Newest(Ev.x)].dig     \* latest completely persisted state
           /\ UNCHANGED <<durable, closeDig, img, slen, pos, origDig>>

\* Pages written out of order: bytes [x,y) of the image are zeros or garbage, everything from
\* y on is intact. States complete below x are undamaged (all they reference lies below
\* them); a state whose record lies at or above y may or may not reference the damaged
\* region, so the result may be any of those whose content is shown to be intact by its
\* digest, but never something older than the newest undamaged state below x.
TrHole == /\ IsEvent("Hole")
          /\ Ev.x < Ev.y /\ Ev.y <= img.size
          /\ Ev.check \in {"ok", "error"}
          /\ IF CleanAt(Ev.eff, Ev.marker)
             THEN TRUE
             ELSE /\ Ev.open = "refused"
                  /\ LET After == { i \in 1..img.n : durable[i].off >= Ev.y } IN
                     \/ /\ Valid(Ev.x) = {} /\ Ev.repair = "novalid"
                     \/ /\ Ev.repair = "ok" /\ Ev.reopen = "ok" /\ Ev.ck2 = "" /\ Ev.agree = 1
                        /\ \E i \in Valid(Ev.x) \cup After :
                              /\ Ev.dig = durable[i].dig
                              /\ \A j \in Valid(Ev.x) : j <= i
          /\ UNCHANGED <<durable, closeDig, img, slen, pos, origDig>>
\* there is no action for "Died" (the child running open/check/repair crashed): rejected

\* a table dumped from and loaded back into the OPEN database while background merges /
\* persists computed on the old table are in flight: afterwards the table is the dumped one
\* (every index, counts), and it stays so (the following Persist / Close / Reopen events)
TrLiveLoad == /\ IsEvent("LiveLoad") /\ Ev.res = "ok" /\ Ev.same = 1
              /\ UNCHANGED <<durable, closeDig, img, slen, pos, origDig>>

----------------------------------------------------------------------------
(* C20 *)
TrOriginal == /\ IsEvent("Original") /\ Ev.agree = 1 /\ Ev.check = ""
              /\ origDig' = Ev.dig
              /\ UNCHANGED <<durable, closeDig, img, slen, pos>>
TrSame == /\ l <= NLog /\ Ev.e \in {"DumpLoad", "Compact"} /\ l' = l + 1
          /\ Ev.res = "ok" /\ Ev.agree = 1 /\ Ev.check = ""
          /\ Ev.dig = origDig
          /\ UNCHANGED <<durable, closeDig, img, slen, pos, origDig>>

\* a single table dumped and loaded into a fresh database is the same table
TrTableRT == /\ IsEvent("TableRoundTrip") /\ Ev.res = "ok" /\ Ev.same = 1
             /\ UNCHANGED <<durable, closeDig, img, slen, pos, origDig>>
\* loading refuses data that would violate a key
TrDupLoad == /\ IsEvent("DupLoad") /\ Ev.res = "refused"
             /\ UNCHANGED <<durable, closeDig, img, slen, pos, origDig>>

\* a table dumped from the OPEN database (changes possibly not persisted yet) and loaded into
\* a fresh database is the table as it was visible at that moment
TrLiveDump == /\ IsEvent("LiveDump") /\ Ev.res = "ok" /\ Ev.same = 1
              /\ UNCHANGED <<durable, closeDig, img, slen, pos, origDig>>

TraceNext == \/ TrReset \/ TrTableRT \/ TrDupLoad \/ TrLiveDump \/ TrCreated \/ TrNoop \/ TrPersist \/ TrImage \/ TrClose \/ TrReopen
             \/ TrAsofAt \/ TrAsofStep \/ TrAsofFuture \/ TrTrial \/ TrHole \/ TrLiveLoad \/ TrOriginal \/ TrSame
TraceSpec == TraceInit /\ [][TraceNext]_tvars
HW == HWMark(l)
=============================================================================
