------------------------------ MODULE TraceFold ------------------------------
(* Trace validation for C30 (constant folding and propagation preserve program *)
(* meaning).  The driver (harness/cmd/fold) compiles and runs, with the REAL     *)
(* compiler and interpreter, several forms of the same operations:              *)
(*   lit   all operands literals (folded at compile time)                       *)
(*   par   all operands parameters (nothing to fold: the run-time meaning)      *)
(*   prop  operands are single-assignment locals (PropFold propagates + folds)  *)
(*   nf    operands are locals assigned twice (not final: run time)             *)
(*   mix   some operands literals, some parameters (partial folding); lit[i]    *)
(*   extra statement-level forms (ssa: operands of a strict operator assigned   *)
(*         to locals first; ifstmt: ?: written as an if statement; each also    *)
(*         with parameters), se (parameters are read through a block that logs  *)
(*         the read: ev = the log)                                              *)
(* One event per expression:                                                    *)
(*   Expr  x (expression), env (operand values), lit par prop nf (results),     *)
(*         mix (sequence of [lit |-> mask, r |-> result])                       *)
(* A result is [k |-> "v" value / "x" run-time exception / "ce" compile error,  *)
(*              v |-> value, c |-> class].                                      *)
(* Required: every form gives what Values!Eval gives (the value, or the         *)
(* exception class) - where Eval does not cover the operands (unknown) the      *)
(* forms must still agree with each other; a compile-time error is accepted     *)
(* exactly when the program contains an erroneous constant subexpression        *)
(* (Values!LitDiag: static check, not folding).                                 *)
EXTENDS TraceBase, Values

VARIABLES l
tvars == <<l>>
Ev == Log[l]

TraceInit == HWInit /\ TLCSet(5, <<>>) /\ l = 1
IsEvent(e) == l <= NLog /\ Ev.e = e /\ l' = l + 1

AllTrue(n) == [i \in 1..n |-> TRUE]
AllFalse(n) == [i \in 1..n |-> FALSE]

\* one compiled form against the reference result ev
FormOK(r, ev, x, env, lit) ==
    IF r.k = "ce" THEN LitDiag(x, env, lit)
    ELSE IF ev.k = "u" THEN TRUE
    ELSE SameRes(r, ev)

\* all forms that compiled must give the same outcome; where the exact result is outside
\* the modelled domain (ev unknown) numbers may differ by rounding (Values!NumClose:
\* re-association of inexact decimal operations is not a change of meaning)
SameOrClose(r, s, exact) ==
    \/ SameRes(r, s)
    \/ ~exact /\ r.k = "v" /\ s.k = "v" /\ r.c = "" /\ s.c = ""
          /\ r.v.t = "num" /\ s.v.t = "num" /\ NumClose(r.v, s.v)
Agree(rs, exact) == \A i, j \in 1..Len(rs) :
                      (rs[i].k # "ce" /\ rs[j].k # "ce") => SameOrClose(rs[i], rs[j], exact)

ExprOK(e) ==
    LET n   == Len(e.env)
        ev  == Eval(e.x, e.env)
        rs  == <<e.lit, e.par, e.prop, e.nf>> \o [i \in 1..Len(e.mix) |-> e.mix[i].r]
                 \o [i \in 1..Len(e.extra) |-> e.extra[i].r] \o [i \in 1..Len(e.se) |-> e.se[i].r]
    IN /\ e.par.k # "ce" /\ e.nf.k # "ce"                  \* nothing constant in them: must compile
       /\ FormOK(e.par, ev, e.x, e.env, AllFalse(n))
       /\ FormOK(e.nf, ev, e.x, e.env, AllFalse(n))
       /\ FormOK(e.lit, ev, e.x, e.env, AllTrue(n))
       /\ FormOK(e.prop, ev, e.x, e.env, AllTrue(n))
       /\ \A i \in 1..Len(e.mix) : FormOK(e.mix[i].r, ev, e.x, e.env, e.mix[i].lit)
       /\ \A i \in 1..Len(e.extra) : FormOK(e.extra[i].r, ev, e.x, e.env, e.extra[i].lit)
       /\ \A i \in 1..Len(e.se) :
             /\ FormOK(e.se[i].r, ev, e.x, e.env, e.se[i].lit)
             \* side effects: every operand that is not a literal is read exactly as often as
             \* the unfolded meaning reads it (order aside: * and / are re-associated)
             /\ (e.se[i].r.k = "v" /\ ev.k = "v") =>
                   LET want == EvalSeq(e.x, e.env)
                   IN \A p \in 1..n : ~e.se[i].lit[p] => Count(e.se[i].ev, p) = Count(want, p)
       /\ Agree(rs, ev.k # "u")

\* survey mode (VERIF_SURVEY=1, used by the check only AFTER a strict run has rejected the
\* trace): do not stop at the first rejected line but list every line the specification
\* does not allow, so that each can be reported / matched against recorded findings
Survey == "VERIF_SURVEY" \in DOMAIN IOEnv /\ IOEnv["VERIF_SURVEY"] = "1"

TrReset == IsEvent("Reset")
TrExpr == IsEvent("Expr") /\ (ExprOK(Ev) \/ (Survey /\ TLCSet(5, Append(TLCGet(5), l)))) = TRUE

TraceNext == TrReset \/ TrExpr
TraceSpec == TraceInit /\ [][TraceNext]_tvars
HW == HWMark(l)
\* in survey mode the list of rejected lines is also written (JSON array) to the file named by
\* VERIF_BADOUT: the console output may be truncated by the runner
AcceptedS == /\ (Survey /\ "VERIF_BADOUT" \in DOMAIN IOEnv) => JsonSerialize(IOEnv["VERIF_BADOUT"], TLCGet(5))
             /\ PrintT(<<"BAD-LINES", TLCGet(5)>>)
             /\ Accepted
=============================================================================
