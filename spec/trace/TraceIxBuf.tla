----------------------------- MODULE TraceIxBuf -----------------------------
(* Trace validation for C11: calls on the REAL db19/index/ixbuf recorded by    *)
(* harness/cmd/ixbuf are replayed through IxBufOps.tla (Combine table, buffer   *)
(* insert, Merge = fold in order) and, for iterators, the cursor operators of   *)
(* OrdMapOps.tla. Keys are ranks of the driver's strictly monotone key table,   *)
(* offsets are ids, the tag bits are logged as op = add | upd | del.            *)
(*                                                                             *)
(* bufs[b] is the model of buffer id b. Merge does not touch its inputs in the  *)
(* model; the driver logs the full content (Iter()) of every input before each  *)
(* Merge and of the output, so "sorted, no duplicates" (Content must equal the  *)
(* model's ordered entry list exactly) and "same mapping as applying the        *)
(* buffers in order" are checked by equality.                                   *)
(* "Input buffers left unchanged" (IxBufStore.tla: InputsUnchanged): a buffer   *)
(* that was an argument or the result of a Merge is frozen -- it is a value      *)
(* shared with older snapshots. seen[b] is its content as logged BEFORE the      *)
(* operation (Content event). After every Merge the driver reads every frozen    *)
(* buffer again (Recheck: Iter, Len, Check, Lookup of every key of the universe) *)
(* -- the inputs of this merge and all buffers of earlier merges, whose chunks   *)
(* the later merges pass through or might write to. A Recheck must be identical  *)
(* to seen[b] and to the model; filling a frozen buffer is a harness error.      *)
EXTENDS TraceBase, IxBufOps, OrdMapOps

VARIABLES l, K, emptyKey, PG, SF, bufs, its,
          frozen,   \* buffers that were a Merge argument or result (shared, immutable from then on)
          seen      \* seen[b] = <<ks, ops, offs>> of the last Content event of buffer b (<<>> = none)

tvars == <<l, K, emptyKey, PG, SF, bufs, its, frozen, seen>>

Ev == Log[l]

TraceInit == HWInit /\ l = 1 /\ K = 0 /\ emptyKey = 0 /\ PG = <<>> /\ SF = <<>> /\ bufs = <<>> /\ its = <<>>
             /\ frozen = {} /\ seen = <<>>

IsEvent(e) == l <= NLog /\ Ev.e = e /\ l' = l + 1

\* evaluate a (possibly large) state-level condition as ONE value: TLC would otherwise expand
\* a quantifier inside an action into a list of conjuncts (deep recursion, slow)
Holds(b) == b = TRUE

NoBuf == <<>>
NoSeen == <<>>
NoIt == [b |-> 0, c |-> CurRew, org |-> 0, end |-> 0, sk |-> <<>>]
GrowTo(s, n, fill) == [i \in 1..(IF n > Len(s) THEN n ELSE Len(s)) |-> IF i <= Len(s) THEN s[i] ELSE fill]
IsBuf(b) == b \in 1..Len(bufs) /\ bufs[b] # NoBuf

TrReset == /\ IsEvent("Reset")
           /\ K' = 0 /\ emptyKey' = 0 /\ PG' = <<>> /\ SF' = <<>> /\ bufs' = <<>> /\ its' = <<>>
           /\ frozen' = {} /\ seen' = <<>>

\* scenario start: universe size; emptykey = 1 when rank 1 is the empty string; for composite
\* keys the prefix / suffix rank of every key (skip-scan), else empty
TrScn == /\ IsEvent("Scn")
         /\ K' = Ev.K /\ emptyKey' = Ev.emptykey /\ PG' = Ev.pg /\ SF' = Ev.sf /\ bufs' = <<>> /\ its' = <<>>
         /\ frozen' = {} /\ seen' = <<>>

\* b = &ixbuf.T{}
TrNew == /\ IsEvent("New")
         /\ Ev.b >= 1
         /\ Ev.b \notin frozen
         /\ bufs' = [GrowTo(bufs, Ev.b, NoBuf) EXCEPT ![Ev.b] = EmptyBuf(K)]
         /\ seen' = [GrowTo(seen, Ev.b, NoSeen) EXCEPT ![Ev.b] = NoSeen]
         /\ UNCHANGED <<K, emptyKey, PG, SF, its, frozen>>

\* a sequence of Insert / Update / Delete calls on buffer b (ks[i], ops[i], offs[i]) with their
\* returned old offsets; the driver only generates valid sequences (checked: harness error otherwise)
TrFill ==
    /\ IsEvent("Fill")
    /\ Ev.ok = 1
    /\ IsBuf(Ev.b)
    /\ Assert(Ev.b \notin frozen, "harness error: change applied to a buffer that was merged (frozen)")
    /\ LET cs == [i \in 1..Len(Ev.ks) |-> Ch(Ev.ops[i], Ev.offs[i])] IN
        /\ Assert(BFillValid(bufs[Ev.b], Ev.ks, cs, 1), "harness error: invalid change sequence generated")
        /\ Holds(Ev.olds = BFillOlds(bufs[Ev.b], Ev.ks, cs, 1))
        /\ bufs' = [bufs EXCEPT ![Ev.b] = BFill(@, Ev.ks, cs, 1)]
    /\ seen' = [seen EXCEPT ![Ev.b] = NoSeen]
    /\ UNCHANGED <<K, emptyKey, PG, SF, its, frozen>>

\* out = ixbuf.Merge(ins...)
TrMerge ==
    /\ IsEvent("Merge")
    /\ Ev.ok = 1
    /\ Holds(\A i \in 1..Len(Ev.ins) : IsBuf(Ev.ins[i]))
    /\ Len(Ev.ins) >= 2 /\ Ev.out >= 1
    /\ Assert(\A i \in 1..Len(Ev.ins) : seen[Ev.ins[i]] # NoSeen,
              "harness error: content of a merge input not logged before the merge")
    /\ LET m == MergeSeq([i \in 1..Len(Ev.ins) |-> bufs[Ev.ins[i]]], FALSE) IN
        /\ Assert(~HasInvalid(m), "harness error: buffers merged in an invalid order")
        /\ bufs' = [GrowTo(bufs, Ev.out, NoBuf) EXCEPT ![Ev.out] = m]
    /\ seen' = [GrowTo(seen, Ev.out, NoSeen) EXCEPT ![Ev.out] = NoSeen]
    /\ frozen' = frozen \cup {Ev.ins[i] : i \in 1..Len(Ev.ins)} \cup {Ev.out}
    /\ UNCHANGED <<K, emptyKey, PG, SF, its>>

\* Check() reports a (false) duplicate when the buffer contains the empty key, because its
\* "previous key" starts as "": observed, not part of C11, tolerated exactly in that case
CheckOK(b, chk) == chk = 1 \/ (emptyKey = 1 /\ b[1].op # "none")

\* full content of a buffer as Iter() yields it + Len() + Check()
TrContent ==
    /\ IsEvent("Content")
    /\ Ev.ok = 1
    /\ IsBuf(Ev.b)
    /\ LET b == bufs[Ev.b] IN
        Holds(/\ Ev.ks = EntKeys(b)
              /\ Ev.ops = EntOps(b, Ev.ks)
              /\ Ev.offs = EntOffs(b, Ev.ks)
              /\ Ev.len = Len(Ev.ks)
              /\ CheckOK(b, Ev.chk))
    /\ seen' = [seen EXCEPT ![Ev.b] = <<Ev.ks, Ev.ops, Ev.offs>>]
    /\ UNCHANGED <<K, emptyKey, PG, SF, bufs, its, frozen>>

\* InputsUnchanged: a frozen buffer (argument / result of an earlier Merge) read again after the
\* Merge that produced buffer Ev.after (0 = end of the scenario): Iter(), Len(), Check() and, when
\* lkops is not empty, Lookup of EVERY key of the universe. Must be identical to what was logged
\* before the operation (seen) and to the model.
TrRecheck ==
    /\ IsEvent("Recheck")
    /\ Ev.ok = 1
    /\ IsBuf(Ev.b) /\ Ev.b \in frozen
    /\ Assert(seen[Ev.b] # NoSeen, "harness error: recheck of a buffer whose content was never logged")
    /\ LET b == bufs[Ev.b] IN
        \* seen[Ev.b] was accepted by TrContent as exactly the model's entry list and the model of a
        \* frozen buffer never changes, so equality with seen is equality with the model
        Holds(/\ <<Ev.ks, Ev.ops, Ev.offs>> = seen[Ev.b]
              /\ Ev.len = Len(Ev.ks)
              /\ CheckOK(b, Ev.chk)
              /\ \/ Ev.lkops = <<>> /\ Ev.lkoffs = <<>>
                 \/ /\ Ev.lkops = [k \in 1..K |-> b[k].op]
                    /\ Ev.lkoffs = [k \in 1..K |-> b[k].off])
    /\ UNCHANGED <<K, emptyKey, PG, SF, bufs, its, frozen, seen>>

\* Lookup(key): the entry (tag + offset) or nothing
TrLookup ==
    /\ IsEvent("Lookup")
    /\ Ev.ok = 1
    /\ IsBuf(Ev.b) /\ Ev.k \in 1..K
    /\ bufs[Ev.b][Ev.k] = Ch(Ev.op, Ev.off)
    /\ UNCHANGED <<K, emptyKey, PG, SF, bufs, its, frozen, seen>>

\* RangeActivity(org, end): number of entries with org <= key < end
TrRangeAct ==
    /\ IsEvent("RangeAct")
    /\ Ev.ok = 1
    /\ IsBuf(Ev.b)
    /\ Ev.n = Cardinality({k \in 1..K : bufs[Ev.b][k].op # "none" /\ Ev.org <= k /\ k < Ev.end})
    /\ UNCHANGED <<K, emptyKey, PG, SF, bufs, its, frozen, seen>>

\* RangeApproxDelta(org, end): adds minus deletes among the entries with org <= key < end
\* (abs, neg = magnitude and sign)
TrRangeDelta ==
    /\ IsEvent("RangeDelta")
    /\ Ev.ok = 1
    /\ IsBuf(Ev.b)
    /\ LET InR(k) == Ev.org <= k /\ k < Ev.end
           adds == Cardinality({k \in 1..K : bufs[Ev.b][k].op = "add" /\ InR(k)})
           dels == Cardinality({k \in 1..K : bufs[Ev.b][k].op = "del" /\ InR(k)}) IN
        Holds(IF Ev.neg = 1 THEN dels = adds + Ev.abs ELSE adds = dels + Ev.abs)
    /\ UNCHANGED <<K, emptyKey, PG, SF, bufs, its, frozen, seen>>

TrItNew ==
    /\ IsEvent("ItNew")
    /\ IsBuf(Ev.b) /\ Ev.it >= 1
    /\ its' = [GrowTo(its, Ev.it, NoIt) EXCEPT ![Ev.it] = [b |-> Ev.b, c |-> CurRew, org |-> 0, end |-> K + 1, sk |-> <<>>]]
    /\ UNCHANGED <<K, emptyKey, PG, SF, bufs, frozen, seen>>

\* iterator call on an unmodified buffer: same contract as the btree iterator (OrdMapOps cursor);
\* Cur() = key rank + entry (tag, offset)
TrItOp ==
    /\ IsEvent("ItOp")
    /\ Ev.ok = 1
    /\ Ev.it \in 1..Len(its) /\ its[Ev.it].b # 0
    /\ LET i == its[Ev.it]
           bb == bufs[i.b]
           mm == Presence(bb)
           skip == i.sk # <<>>
           vis == Visible(mm, PG, SF, i.sk)
           c2 == CASE Ev.op = "next"   -> IF skip THEN VNext(vis, i.c) ELSE CNext(mm, i.c, i.org, i.end)
                   [] Ev.op = "prev"   -> IF skip THEN VPrev(vis, i.c, K + 1) ELSE CPrev(mm, i.c, i.org, i.end)
                   [] Ev.op = "seek"   -> IF skip THEN VSeek(vis, Ev.k, K + 1) ELSE CSeek(mm, Ev.k, i.org, i.end)
                   [] Ev.op = "rewind" -> CurRew
                   [] Ev.op = "range"  -> CurRew
                   [] Ev.op = "skip"   -> CurRew
           i2 == CASE Ev.op = "range" -> [i EXCEPT !.c = c2, !.org = Ev.k, !.end = Ev.k2, !.sk = <<>>]
                   [] Ev.op = "skip"  -> [i EXCEPT !.c = c2, !.sk = <<Ev.k, Ev.k2, Ev.k3, Ev.k4>>]
                   [] OTHER -> [i EXCEPT !.c = c2] IN
        /\ Holds(/\ Ev.op \in {"next", "prev", "seek", "rewind", "range", "skip"}
                 /\ c2.st = "in"  => Ev.res = c2.cur /\ Ch(Ev.tag, Ev.off) = bb[c2.cur] /\ Ev.eof = 0
                 /\ c2.st = "eof" => Ev.res = 0 /\ Ev.off = 0 /\ Ev.eof = 1
                 /\ c2.st = "rew" => Ev.eof = 0
                 /\ (Ev.op = "next" /\ ~skip) => NextMeaning(mm, i.c, c2, i.org, i.end)
                 /\ (Ev.op = "prev" /\ ~skip) => PrevMeaning(mm, i.c, c2, i.org, i.end)
                 /\ (Ev.op = "seek" /\ ~skip) => SeekMeaning(mm, Ev.k, c2, i.org, i.end))
        /\ its' = [its EXCEPT ![Ev.it] = i2]
    /\ UNCHANGED <<K, emptyKey, PG, SF, bufs, frozen, seen>>

TrNote == /\ IsEvent("Note") /\ UNCHANGED <<K, emptyKey, PG, SF, bufs, its, frozen, seen>>

TraceNext == TrReset \/ TrScn \/ TrNew \/ TrFill \/ TrMerge \/ TrContent \/ TrRecheck \/ TrLookup \/ TrRangeAct \/ TrRangeDelta
             \/ TrItNew \/ TrItOp \/ TrNote

TraceSpec == TraceInit /\ [][TraceNext]_tvars

HW == HWMark(l)
=============================================================================
