----------------------------- MODULE TraceIxKey -----------------------------
(* Trace validation for C12.  Every line is one call of the REAL ixkey /      *)
(* db19.rangeEnd code with its arguments (field tuples as sequences of byte   *)
(* sequences) and its result; the result must be what IxKey.tla specifies in  *)
(* terms of the field tuples.  There is no model state besides the line       *)
(* counter: every event is checked on its own.                                *)
(* Bytes are integers 0..255, byte strings are sequences of them.             *)
EXTENDS TraceBase, IxKey

VARIABLES l
tvars == <<l>>
Ev == Log[l]

TraceInit == HWInit /\ l = 1
IsEvent(e) == l <= NLog /\ Ev.e = e /\ l' = l + 1

B(x) == IF x THEN 1 ELSE 0

TrReset == IsEvent("Reset")

\* Spec.Key(rec): f = values of Spec.Fields (in Fields order), f2 = values of Fields2,
\* lo[i] = 1 for _lower! fields
TrKey == /\ IsEvent("Key")
         /\ Ev.key = KeyOf(LowerT(Ev.f, Ev.lo), Ev.f2)

\* Spec.Compare(r1, r2) and the byte order of the two real keys
TrCmp == /\ IsEvent("Cmp")
         /\ LET c == CmpRec(LowerT(Ev.f, Ev.lo), Ev.f2, LowerT(Ev.g, Ev.lo), Ev.g2) IN
              /\ Ev.cmp = c
              /\ CmpSeq(Ev.k1, Ev.k2) = c
              /\ Ev.kcmp = c                  \* strings.Compare(key1, key2) in the driver

\* Encoder.Add... String() / CompKey
TrEnc == /\ IsEvent("Enc")
         /\ Ev.key = Enc(Ev.f)

\* ixkey.Decode(Enc(f)), and Decode1 for every position 0..Len(f)
TrDec == /\ IsEvent("Dec")
         /\ Ev.out = Trim(Ev.f)
         /\ Len(Ev.out1) = Len(Ev.f) + 1
         /\ \A i \in 1..Len(Ev.out1) : Ev.out1[i] = Pad(Trim(Ev.f), Len(Ev.f) + 1)[i]

\* ixkey.HasPrefix(Enc(a), Enc(p))
TrHasPrefix == /\ IsEvent("HasPrefix")
               /\ Ev.res = B(LeadingMatch(Ev.a, Ev.p))

\* ixkey.SplitPrefixSuffix(Enc(a), n)
TrSplit == /\ IsEvent("Split")
           /\ Ev.pre = Enc(Lead(Ev.a, Ev.n))
           /\ Ev.suf = Enc(Rest(Ev.a, Ev.n))

\* ixkey.JoinPrefixSuffix(Enc(p), n, x) for a tuple p of at most n fields
TrJoin == /\ IsEvent("Join")
          /\ Ev.out = JoinEnc(Pad(Trim(Ev.p), Ev.n)) \o Sep \o Ev.x

\* TruncFunc(spec1, spec2)(spec1.Key(rec)) must be spec2.Key(rec), where spec2 is
\* the first n2 fields of spec1 (no Fields2)
TrTrunc == /\ IsEvent("Trunc")
           /\ Ev.out = KeyOf(Lead(Ev.f, Ev.n2), <<>>)

\* db19.rangeEnd(Enc(p), n), and the membership of the real key of tuple t in
\* [Enc(p), rangeEnd) as computed with real string comparisons
TrRangeEnd == /\ IsEvent("RangeEnd")
              /\ Ev.end = RangeEndOf(Ev.p, Ev.n)
TrInRange == /\ IsEvent("InRange")
             /\ Ev.res = B(Lead(Ev.t, Ev.n) = Lead(Ev.p, Ev.n))

TraceNext == TrReset \/ TrKey \/ TrCmp \/ TrEnc \/ TrDec \/ TrHasPrefix \/ TrSplit
             \/ TrJoin \/ TrTrunc \/ TrRangeEnd \/ TrInRange

TraceSpec == TraceInit /\ [][TraceNext]_tvars

HW == HWMark(l)
=============================================================================
