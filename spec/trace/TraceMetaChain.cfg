SPECIFICATION TraceSpec
CONSTRAINT HW
POSTCONDITION AcceptedC15
CHECK_DEADLOCK FALSE
CONSTANTS
  Keys = {1, 2, 3, 4, 5, 6, 7, 8}
  Vals = {1, 2, 3}
  MaxChain = 7
  DevStaleStamp = FALSE
  DevF7 = FALSE
  MaxWrites = 0
  MaxReopens = 0
  NT = 6
