--------------------------- MODULE TraceMetaChain ---------------------------
(* Trace validation for C15 (harness/cmd/metachain).                          *)
(*                                                                            *)
(* Part 1: events of the real hamt.Hamt / hamt.Chain on a heap stor.          *)
(*   Verdict (what the property statement demands, nothing more):             *)
(*   - every retained version (frozen or mutable) behaves as a map: after     *)
(*     every action Get of every key and All agree with the model map of that *)
(*     version, so frozen versions never change;                              *)
(*   - ReadChain of what WriteChain returned yields exactly the live entries  *)
(*     of the current version; a reopen yields the live entries as of the     *)
(*     last write.                                                            *)
(*   Conformance (not a verdict): the chain structure the code produced       *)
(*   (chunk written or not, its items and predecessor, offs, ages, clock, the *)
(*   lastMods ReadChain assigns) equals what MetaChain!WriteChain / ReadChain *)
(*   compute from the model.  The first line where they differ is put into    *)
(*   TLC register 2 ("DRIFT"); the check reports it as an infrastructure      *)
(*   problem (the model checked exhaustively is then not the algorithm the    *)
(*   code runs), never as a violation.                                        *)
(* Part 2: the same cycles through a real database (tables, infos, views).    *)
EXTENDS TraceBase, FiniteSets, Integers

CONSTANTS Keys, Vals, MaxChain, DevF7, DevStaleStamp, MaxWrites, MaxReopens, NT

VARIABLES l,
    skip,       \* a line of this scenario was rejected: ignore the rest up to the next Reset
    vers,       \* retained versions: id -> [h: map, mut: BOOLEAN]
    main,       \* id of the version that is the chain's Hamt
    persisted,  \* Live(main) at the last Write
    ch, file, next, lastOff,   \* model chain (conformance only)
    cf,         \* conformance still tracked in this scenario
    tabs, views \* part 2: live tables id -> [nc, nr]; views id -> def number

\* the chain operators; its state variables are not used here
M == INSTANCE MetaChain WITH cur <- 0, c <- 0, file <- 0, next <- 0, lastOff <- 0,
                             persisted <- 0, nw <- 0, nr <- 0

hvars == <<vers, main, persisted, ch, file, next, lastOff, cf>>
dvars == <<tabs, views>>
tvars == <<l, skip, vers, main, persisted, ch, file, next, lastOff, cf, tabs, views>>

Ev == Log[l]

\* One action per event kind:  Step(kind, checks, update).  A line whose checks fail
\* is a rejection: it is recorded in TLC register 3 and the rest of its scenario is
\* skipped, so that a single run reports the rejected lines of all scenarios (many
\* scenarios are concatenated, separated by Reset).  chk is a state predicate
\* (evaluated left to right, guards first), upd the update of hvars and dvars.
Bad == /\ IF Len(TLCGet(3)) < 3 THEN PrintT(<<"BAD", l, Ev>>) ELSE TRUE
       /\ TLCSet(3, Append(TLCGet(3), l))
       /\ skip' = TRUE
       /\ UNCHANGED hvars /\ UNCHANGED dvars
Step(e, chk, upd) == /\ l <= NLog /\ ~skip /\ Ev.e = e /\ l' = l + 1
                     /\ IF chk THEN upd /\ skip' = FALSE ELSE Bad

NoFn == [x \in {} |-> 0]
Ver0 == (0 :> [h |-> M!EmptyMap, mut |-> FALSE])

HInit == /\ vers = Ver0 /\ main = 0 /\ persisted = M!Live(M!EmptyMap)
         /\ ch = M!EmptyChain /\ file = NoFn /\ next = 1 /\ lastOff = 0 /\ cf = TRUE
DInit == tabs = NoFn /\ views = NoFn

TraceInit == HWInit /\ TLCSet(2, 0) /\ TLCSet(3, <<>>) /\ l = 1 /\ skip = FALSE /\ HInit /\ DInit

\* (IF, not \/: TLC evaluates every disjunct of an action)
Drift(ok) == IF ok THEN TRUE ELSE IF TLCGet(2) # 0 THEN TRUE ELSE TLCSet(2, l)

----------------------------------------------------------------------------
(* decoding of logged observations *)

\* an entry is logged as one integer: 0 = absent, else ((lastMod+100)*2 + tomb)*4 + value
Decode(x) == IF x = 0 THEN M!Absent
             ELSE [v |-> IF (x \div 4) % 2 = 1 THEN M!TOMB ELSE x % 4, lm |-> (x \div 8) - 100]
CodeOK(x) == x = 0 \/ (x >= 8 /\ ((x \div 4) % 2 = 1 \/ x % 4 > 0))
NK == Cardinality(Keys)
\* what All yielded: <<n, bad, c1..cNK>> (n items, bad = 1 if a key came twice or is unknown)
ItemsOK(a) == /\ Len(a) = 2 + NK /\ a[2] = 0
              /\ \A k \in Keys : CodeOK(a[2 + k])
              /\ a[1] = Cardinality({k \in Keys : a[2 + k] # 0})
ItemsMap(a) == [k \in Keys |-> Decode(a[2 + k])]
\* chunk items <<k, v, tomb>> -> the model's set of <<k, value>>
ChunkSet(citems) == {<<citems[i][1], IF citems[i][3] = 1 THEN M!TOMB ELSE citems[i][2]>> : i \in 1..Len(citems)}

----------------------------------------------------------------------------
(* part 1 *)

TrReset == /\ l <= NLog /\ Ev.e = "Reset" /\ l' = l + 1 /\ skip' = FALSE
           /\ vers' = Ver0 /\ main' = 0 /\ persisted' = M!Live(M!EmptyMap)
           /\ ch' = M!EmptyChain /\ file' = NoFn /\ next' = 1 /\ lastOff' = 0 /\ cf' = TRUE
           /\ tabs' = NoFn /\ views' = NoFn

Same == UNCHANGED hvars /\ UNCHANGED dvars
HSame == UNCHANGED <<main, persisted, ch, file, next, lastOff, cf>> /\ UNCHANGED dvars

TrOpen == Step("Open", vers = Ver0, Same)

TrMut == Step("Mut",
              /\ Ev.src \in DOMAIN vers /\ ~vers[Ev.src].mut
              /\ Ev.dst \notin DOMAIN vers,
              /\ vers' = (Ev.dst :> [h |-> vers[Ev.src].h, mut |-> TRUE]) @@ vers
              /\ HSame)

TrPut == Step("Put",
              /\ Ev.ver \in DOMAIN vers /\ vers[Ev.ver].mut
              /\ Ev.k \in Keys,
              /\ vers' = [vers EXCEPT ![Ev.ver].h =
                            IF Ev.t = 1 THEN M!MTomb(@, Ev.k, Ev.lm) ELSE M!MPut(@, Ev.k, Ev.v, Ev.lm)]
              /\ HSame)

TrDel == Step("Del",
              /\ Ev.ver \in DOMAIN vers /\ vers[Ev.ver].mut
              /\ Ev.k \in Keys
              /\ (Ev.found = 1) = M!MHas(vers[Ev.ver].h, Ev.k),    \* Delete reports whether it was there
              /\ vers' = [vers EXCEPT ![Ev.ver].h = M!MDelete(@, Ev.k)]
              /\ HSame)

TrFreeze == Step("Freeze",
                 Ev.ver \in DOMAIN vers /\ vers[Ev.ver].mut,
                 /\ vers' = [vers EXCEPT ![Ev.ver].mut = FALSE]
                 /\ main' = IF Ev.main = 1 THEN Ev.ver ELSE main
                 /\ UNCHANGED <<persisted, ch, file, next, lastOff, cf>> /\ UNCHANGED dvars)

TrForget == Step("Forget",
                 Ev.ver \in DOMAIN vers /\ Ev.ver # main,
                 /\ vers' = [x \in DOMAIN vers \ {Ev.ver} |-> vers[x]]
                 /\ HSame)

\* map semantics of every retained version: All and Get of every key.
\* o = <<id, mutable, n, bad, p1..pNK>>, pk = (code from All) + 4096 * (code from Get)
ObsOK(o) == /\ Len(o) = 4 + NK
            /\ o[1] \in DOMAIN vers
            /\ (o[2] = 1) = vers[o[1]].mut
            /\ o[4] = 0
            /\ o[3] = Cardinality({k \in Keys : vers[o[1]].h[k].v # 0})
            /\ \A k \in Keys : LET a == o[4 + k] % 4096
                                   g == o[4 + k] \div 4096
                               IN /\ CodeOK(a) /\ Decode(a) = vers[o[1]].h[k]
                                  /\ CodeOK(g) /\ Decode(g) = vers[o[1]].h[k]
TrObs == Step("Obs",
              /\ {Ev.obs[i][1] : i \in 1..Len(Ev.obs)} = DOMAIN vers
              /\ Len(Ev.obs) = Cardinality(DOMAIN vers)
              /\ \A i \in 1..Len(Ev.obs) : ObsOK(Ev.obs[i]),
              Same)

\* conformance of a Write with the chain model
WrR == M!WriteChain(ch, vers[main].h, next)
WrF == IF WrR.wrote THEN (next :> WrR.chunk) @@ file ELSE file
WrSame == /\ cf
          /\ WrR.wrote = (Ev.wrote = 1)
          /\ WrR.off = Ev.off
          /\ WrR.c.offs = Ev.offs /\ WrR.c.ages = Ev.ages /\ WrR.c.clock = Ev.clock
          /\ WrR.wrote => (WrR.chunk.prev = Ev.prev /\ WrR.chunk.items = ChunkSet(Ev.citems))
          /\ M!ReadChain(WrF, WrR.off).h = ItemsMap(Ev.rb)
          /\ Len(M!OffsFrom(WrF, WrR.off)) = Ev.rbn

TrWrite == Step("Write",
    /\ ~vers[main].mut
    \* verdict: reading back what was written yields the live entries
    /\ Ev.rbok = 1
    /\ ItemsOK(Ev.rb)
    /\ M!Live(ItemsMap(Ev.rb)) = M!Live(vers[main].h),
    /\ persisted' = M!Live(vers[main].h)
    /\ Drift(~cf \/ WrSame)
    /\ cf' = WrSame
    /\ ch' = IF WrSame THEN WrR.c ELSE ch
    /\ file' = IF WrSame THEN WrF ELSE file
    /\ next' = IF WrSame /\ WrR.wrote THEN next + 1 ELSE next
    /\ lastOff' = IF WrSame THEN WrR.off ELSE lastOff
    /\ UNCHANGED <<vers, main>> /\ UNCHANGED dvars)

RoR == M!ReadChain(file, lastOff)
RoSame == /\ cf
          /\ RoR.h = ItemsMap(Ev.items)
          /\ RoR.c.offs = Ev.offs /\ RoR.c.ages = Ev.ages /\ RoR.c.clock = Ev.clock

TrReopen == Step("Reopen",
    \* verdict: the chain read from the recorded offset shows the live entries as
    \* of the last write
    /\ Ev.ok = 1
    /\ ItemsOK(Ev.items)
    /\ M!Live(ItemsMap(Ev.items)) = persisted
    /\ Ev.ver \notin DOMAIN vers
    /\ \A x \in DOMAIN vers : ~vers[x].mut,
    \* the new current version is what ReadChain produced (tombstones and the
    \* lastMods it assigned are taken from the observation)
    /\ vers' = (Ev.ver :> [h |-> ItemsMap(Ev.items), mut |-> FALSE]) @@ vers
    /\ main' = Ev.ver
    /\ Drift(~cf \/ RoSame)
    /\ cf' = RoSame
    /\ ch' = IF RoSame THEN RoR.c ELSE ch
    /\ UNCHANGED <<persisted, file, next, lastOff>> /\ UNCHANGED dvars)

----------------------------------------------------------------------------
(* part 2: database level.  Model: the live tables with number of columns and  *)
(* rows, the views with a number identifying the definition.                   *)

TabsOK(seq, n) == \A i \in 1..Len(seq) : /\ Len(seq[i]) = n
                                        /\ seq[i][1] >= 1
                                        /\ i > 1 => seq[i - 1][1] < seq[i][1]
Ids(seq) == {seq[i][1] : i \in 1..Len(seq)}
Row(seq, t) == seq[CHOOSE i \in 1..Len(seq) : seq[i][1] = t]

TrDbOpen == Step("DbOpen", TRUE, tabs' = NoFn /\ views' = NoFn /\ UNCHANGED hvars)

TrDbCreate == Step("DbCreate", Ev.t \notin DOMAIN tabs,
                   /\ tabs' = (Ev.t :> [nc |-> Ev.nc, nr |-> 0]) @@ tabs
                   /\ UNCHANGED views /\ UNCHANGED hvars)

TrDbDrop == Step("DbDrop", Ev.t \in DOMAIN tabs,
                 /\ tabs' = [x \in DOMAIN tabs \ {Ev.t} |-> tabs[x]]
                 /\ UNCHANGED views /\ UNCHANGED hvars)

TrDbAlter == Step("DbAlter", Ev.t \in DOMAIN tabs,
                  /\ tabs' = [tabs EXCEPT ![Ev.t].nc = @ + 1]
                  /\ UNCHANGED views /\ UNCHANGED hvars)

TrDbRename == Step("DbRename", Ev.t \in DOMAIN tabs /\ Ev.to \notin DOMAIN tabs,
                   /\ tabs' = [x \in (DOMAIN tabs \ {Ev.t}) \cup {Ev.to} |->
                                  IF x = Ev.to THEN tabs[Ev.t] ELSE tabs[x]]
                   /\ UNCHANGED views /\ UNCHANGED hvars)

TrDbInsert == Step("DbInsert", Ev.t \in DOMAIN tabs,
                   /\ tabs' = [tabs EXCEPT ![Ev.t].nr = @ + Ev.n]
                   /\ UNCHANGED views /\ UNCHANGED hvars)

TrDbView == Step("DbView", Ev.v \notin DOMAIN views,
                 /\ views' = (Ev.v :> Ev.d) @@ views
                 /\ UNCHANGED tabs /\ UNCHANGED hvars)

TrDbDropView == Step("DbDropView", Ev.v \in DOMAIN views,
                     /\ views' = [x \in DOMAIN views \ {Ev.v} |-> views[x]]
                     /\ UNCHANGED tabs /\ UNCHANGED hvars)

TrDbPersist == Step("DbPersist", TRUE, Same)
TrDbReopen == Step("DbReopen", TRUE, Same)

\* the live state (src 0), the state read back from the file right after a
\* persist (src 1) and the state after close + open (src 2) all show exactly the
\* model's tables (schema and info side) and views
TrDbObs == Step("DbObs",
                /\ TabsOK(Ev.tabs, 3) /\ TabsOK(Ev.infos, 2) /\ TabsOK(Ev.views, 2)
                /\ Ids(Ev.tabs) = DOMAIN tabs
                /\ \A t \in DOMAIN tabs : Row(Ev.tabs, t)[2] = tabs[t].nc /\ Row(Ev.tabs, t)[3] = tabs[t].nr
                /\ Ids(Ev.infos) = DOMAIN tabs
                /\ \A t \in DOMAIN tabs : Row(Ev.infos, t)[2] = tabs[t].nr
                /\ Ids(Ev.views) = DOMAIN views
                /\ \A v \in DOMAIN views : Row(Ev.views, v)[2] = views[v],
                Same)

Known == {"Reset", "Open", "Mut", "Put", "Del", "Freeze", "Forget", "Obs", "Write", "Reopen",
          "DbOpen", "DbCreate", "DbDrop", "DbAlter", "DbRename", "DbInsert", "DbView",
          "DbDropView", "DbPersist", "DbReopen", "DbObs"}

\* anything else (a crash of the code under test that the driver recorded) is a rejection
TrUnknown == /\ l <= NLog /\ ~skip /\ Ev.e \notin Known /\ l' = l + 1 /\ Bad

TrSkip == /\ l <= NLog /\ skip /\ Ev.e # "Reset"
          /\ l' = l + 1
          /\ UNCHANGED skip /\ UNCHANGED hvars /\ UNCHANGED dvars

TraceNext == \/ TrReset \/ TrOpen \/ TrMut \/ TrPut \/ TrDel \/ TrFreeze \/ TrForget \/ TrObs
             \/ TrWrite \/ TrReopen
             \/ TrDbOpen \/ TrDbCreate \/ TrDbDrop \/ TrDbAlter \/ TrDbRename \/ TrDbInsert
             \/ TrDbView \/ TrDbDropView \/ TrDbPersist \/ TrDbReopen \/ TrDbObs
             \/ TrUnknown \/ TrSkip

TraceSpec == TraceInit /\ [][TraceNext]_tvars

HW == HWMark(l)

FirstN(q, n) == SubSeq(q, 1, IF Len(q) < n THEN Len(q) ELSE n)
AcceptedC15 == /\ PrintT(<<"DRIFT", TLCGet(2)>>)
               /\ PrintT(<<"BADLINES", Len(TLCGet(3)), FirstN(TLCGet(3), 40)>>)
               /\ Accepted
=============================================================================
