------------------------------- MODULE TraceMux -------------------------------
(* Trace validation for C40 (a): the REAL mux client and server connections    *)
(* over an in-memory pipe (harness/cmd/mux).  Per direction ("c2s", "s2c"):    *)
(*   Send    a session is about to write message number seq (length, checksums)*)
(*   Frame   a frame was put on the wire (recorded by the pipe, in wire order) *)
(*   Deliver the receiving side of the session was handed a message            *)
(* The frames of a session must reassemble (MuxFrames!RecvFrame, the operator  *)
(* model-checked in Mux.tla) to exactly the messages sent on that session, in  *)
(* order; what is delivered must be exactly what was reassembled, in order;    *)
(* at Done nothing may be left over.                                           *)
(* Message content is represented by (length, two polynomial checksums), which *)
(* compose under concatenation, so reassembly is checked on the real bytes.    *)
EXTENDS TraceBase, FiniteSets, MuxFrames

MaxS == 40
TSess == 1..(2 * MaxS)      \* (connection, session) pairs: connection c in 1..2, session s in 1..MaxS
Dirs == {"c2s", "s2c"}
P1 == 32749
P2 == 32719
B == 257
MaxSize == 1048576      \* mux.maxSize: larger messages are refused by closing the connection

VARIABLES l,
    sentQ,      \* sentQ[d][s]: messages sent on s and not yet completely on the wire
    partial,    \* partial[d][s]: digest of the frames of the current message seen so far
    delivQ,     \* delivQ[d][s]: messages reassembled from the wire, not yet seen delivered
    nseq,       \* nseq[d][s]: messages sent so far (sequence numbers are consecutive)
    ndeliv,     \* total number of messages delivered
    oversize    \* a message larger than MaxSize was sent

tvars == <<l, sentQ, partial, delivQ, nseq, ndeliv, oversize>>

Ev == Log[l]
IsEvent(e) == l <= NLog /\ Ev.e = e /\ l' = l + 1

RECURSIVE PowMod(_, _, _)
PowMod(b, e, p) == IF e = 0 THEN 1
                   ELSE LET h == PowMod(b, e \div 2, p)
                            sq == (h * h) % p IN
                        IF e % 2 = 1 THEN (sq * b) % p ELSE sq

DEmpty == [n |-> 0, h1 |-> 0, h2 |-> 0]
DCat(a, b) == [n  |-> a.n + b.n,
               h1 |-> (a.h1 * PowMod(B, b.n, P1) + b.h1) % P1,
               h2 |-> (a.h2 * PowMod(B, b.n, P2) + b.h2) % P2]
Dig == [n |-> Ev.n, h1 |-> Ev.h1, h2 |-> Ev.h2]
\* session ids are per connection: the same ids are in use on both connections
SK == (Ev.c - 1) * MaxS + Ev.s
ValidSess == Ev.c \in 1..2 /\ Ev.s \in 1..MaxS

Init0 ==
    /\ sentQ = [d \in Dirs |-> [s \in TSess |-> <<>>]]
    /\ partial = [d \in Dirs |-> [s \in TSess |-> DEmpty]]
    /\ delivQ = [d \in Dirs |-> [s \in TSess |-> <<>>]]
    /\ nseq = [d \in Dirs |-> [s \in TSess |-> 0]]
    /\ ndeliv = 0
    /\ oversize = FALSE

TraceInit == HWInit /\ l = 1 /\ Init0

TrReset ==
    /\ IsEvent("Reset")
    /\ sentQ' = [d \in Dirs |-> [s \in TSess |-> <<>>]]
    /\ partial' = [d \in Dirs |-> [s \in TSess |-> DEmpty]]
    /\ delivQ' = [d \in Dirs |-> [s \in TSess |-> <<>>]]
    /\ nseq' = [d \in Dirs |-> [s \in TSess |-> 0]]
    /\ ndeliv' = 0
    /\ oversize' = FALSE

TrSend ==
    /\ IsEvent("Send")
    /\ Ev.dir \in Dirs /\ ValidSess
    /\ Ev.seq = nseq[Ev.dir][SK] + 1
    /\ nseq' = [nseq EXCEPT ![Ev.dir][SK] = @ + 1]
    /\ sentQ' = [sentQ EXCEPT ![Ev.dir][SK] = Append(@, Dig)]
    /\ oversize' = (oversize \/ Ev.n > MaxSize)
    /\ UNCHANGED <<partial, delivQ, ndeliv>>

\* a frame on the wire: it belongs to the oldest message of its session that is not yet
\* completely on the wire; a final frame must complete exactly that message
TrFrame ==
    /\ IsEvent("Frame")
    /\ Ev.dir \in Dirs /\ ValidSess
    /\ Ev.fin \in {0, 1}
    /\ Len(sentQ[Ev.dir][SK]) > 0
    /\ LET d == Ev.dir
           r == RecvFrame(partial[d], [s |-> SK, data |-> Dig, final |-> (Ev.fin = 1)], DCat, DEmpty)
           head == Head(sentQ[d][SK]) IN
        /\ partial' = [partial EXCEPT ![d] = r.partial]
        /\ IF r.out = <<>>
           THEN /\ r.partial[SK].n <= head.n          \* never more than the message has
                /\ UNCHANGED <<sentQ, delivQ>>
           ELSE /\ r.out[1] = head                        \* complete and unaltered
                /\ sentQ' = [sentQ EXCEPT ![d][SK] = Tail(@)]
                /\ delivQ' = [delivQ EXCEPT ![d][SK] = Append(@, r.out[1])]
    /\ UNCHANGED <<nseq, ndeliv, oversize>>

\* the receiver of session s is handed a message: the oldest reassembled one, unaltered
TrDeliver ==
    /\ IsEvent("Deliver")
    /\ Ev.dir \in Dirs /\ ValidSess
    /\ Len(delivQ[Ev.dir][SK]) > 0
    /\ Head(delivQ[Ev.dir][SK]) = Dig
    /\ delivQ' = [delivQ EXCEPT ![Ev.dir][SK] = Tail(@)]
    /\ ndeliv' = ndeliv + 1
    /\ UNCHANGED <<sentQ, partial, nseq, oversize>>

\* end of a scenario: everything sent was delivered
TrDone ==
    /\ IsEvent("Done")
    /\ \A d \in Dirs, s \in TSess : sentQ[d][s] = <<>> /\ delivQ[d][s] = <<>> /\ partial[d][s] = DEmpty
    /\ Ev.nsent = ndeliv
    /\ UNCHANGED <<sentQ, partial, delivQ, nseq, ndeliv, oversize>>

\* the connection was closed by mux: only allowed after a message beyond the size limit
TrConnLost ==
    /\ IsEvent("ConnLost")
    /\ oversize
    /\ UNCHANGED <<sentQ, partial, delivQ, nseq, ndeliv, oversize>>

TraceNext == TrReset \/ TrSend \/ TrFrame \/ TrDeliver \/ TrDone \/ TrConnLost

TraceSpec == TraceInit /\ [][TraceNext]_tvars

HW == HWMark(l)
=============================================================================
