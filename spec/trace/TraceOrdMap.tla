----------------------------- MODULE TraceOrdMap -----------------------------
(* Trace validation for C10: calls on the REAL db19/index/btree recorded by   *)
(* harness/cmd/btree (arguments, results, projected state) are replayed        *)
(* through the operators of OrdMapOps.tla.  Keys are ranks into the driver's   *)
(* strictly monotone rank -> key table, offsets are ids (3.4).                 *)
(*                                                                             *)
(* Model state: vers[v] = the map of tree version v (btrees are immutable      *)
(* persistent: every MergeAndSave creates a new version, old versions must     *)
(* keep their content), its = cursors by iterator id.                          *)
(* Every operation event carries ok (1 = returned, 0 = panicked): a panic of   *)
(* the real code on a valid input is not explained by any action.              *)
(* Node sizes are observed directly (Nodes events, TrNodes): every stored node *)
(* of a bulk-built or merged version is at most MaxNodeSize bytes.             *)
EXTENDS TraceBase, OrdMapOps

VARIABLES l, K, PG, SF, vers, its

tvars == <<l, K, PG, SF, vers, its>>

Ev == Log[l]

TraceInit == HWInit /\ l = 1 /\ K = 0 /\ PG = <<>> /\ SF = <<>> /\ vers = <<>> /\ its = <<>>

IsEvent(e) == l <= NLog /\ Ev.e = e /\ l' = l + 1

\* evaluate a (possibly large) state-level condition as ONE value: TLC would otherwise expand
\* a quantifier inside an action into a list of conjuncts (deep recursion, slow)
Holds(b) == b = TRUE

NoIt == [v |-> 0, c |-> CurRew, org |-> 0, end |-> 0, sk |-> <<>>]

TrReset == /\ IsEvent("Reset")
           /\ K' = 0 /\ PG' = <<>> /\ SF' = <<>> /\ vers' = <<>> /\ its' = <<>>

\* start of a scenario: size of the key universe; for composite keys the prefix / suffix rank
\* of every key (skip-scan), else empty
TrScn == /\ IsEvent("Scn")
         /\ K' = Ev.K /\ PG' = Ev.pg /\ SF' = Ev.sf /\ vers' = <<>> /\ its' = <<>>

Changes(ks, ops, offs) == [i \in 1..Len(ks) |-> [k |-> ks[i], op |-> ops[i], off |-> offs[i]]]

\* Builder: Add(key, off) for each pair in order (added[i] = its result), then Finish
TrBuild ==
    /\ IsEvent("Build")
    /\ Ev.ok = 1
    /\ Assert(SortedKs(Ev.ks) /\ Len(Ev.added) = Len(Ev.ks) /\ Len(Ev.offs) = Len(Ev.ks),
              "harness error: Build input not sorted")
    /\ Holds(\A i \in 1..Len(Ev.ks) : (Ev.added[i] = 1) <=> Added(Ev.ks, i))
    /\ vers' = Append(vers, Build(K, Ev.ks, Ev.offs))
    /\ Ev.v = Len(vers')
    /\ UNCHANGED <<K, PG, SF, its>>

\* MergeAndSave(batch) on version from gives version v; from is unchanged
TrMerge ==
    /\ IsEvent("Merge")
    /\ Ev.ok = 1
    /\ Ev.from \in 1..Len(vers)
    /\ LET b == Changes(Ev.ks, Ev.ops, Ev.offs) IN
        /\ Assert(ValidBatch(vers[Ev.from], b), "harness error: invalid batch generated")
        /\ vers' = Append(vers, MergeBatch(vers[Ev.from], b))
    /\ Ev.v = Len(vers')
    /\ UNCHANGED <<K, PG, SF, its>>

\* the tree header (root, levels) written with Write and read back with Read: same content
TrReopen ==
    /\ IsEvent("Reopen")
    /\ Ev.ok = 1
    /\ Ev.from \in 1..Len(vers)
    /\ vers' = Append(vers, vers[Ev.from])
    /\ Ev.v = Len(vers')
    /\ UNCHANGED <<K, PG, SF, its>>

\* full observation of one version: Lookup of the whole universe, forward and backward
\* iteration (keys and offsets), Check() (count; -1 = it panicked), tree levels < 8
TrState ==
    /\ IsEvent("State")
    /\ Ev.ok = 1
    /\ Ev.v \in 1..Len(vers)
    /\ LET mm == vers[Ev.v] IN
        Holds(/\ Ev.look = mm
              /\ Ev.fwd = Asc(mm)
              /\ Ev.fwdo = OffsOf(mm, Ev.fwd)         \* (Ev.fwd is pinned to Asc(mm) by the line above)
              /\ Ev.bwd = Reverse(Ev.fwd)             \* = Desc(mm)
              /\ Ev.bwdo = OffsOf(mm, Ev.bwd)
              /\ Ev.chk = Len(Ev.fwd))                \* = Count(mm)
    /\ UNCHANGED <<K, PG, SF, vers, its>>

\* keys and offsets handed to the callback of Check(fn), in order
TrChkKeys ==
    /\ IsEvent("ChkKeys")
    /\ Ev.ok = 1
    /\ Ev.v \in 1..Len(vers)
    /\ LET mm == vers[Ev.v] IN
        Holds(Ev.ks = Asc(mm) /\ Ev.offs = OffsOf(mm, Ev.ks))
    /\ UNCHANGED <<K, PG, SF, vers, its>>

Grow(s, n) == [i \in 1..(IF n > Len(s) THEN n ELSE Len(s)) |-> IF i <= Len(s) THEN s[i] ELSE NoIt]

\* bt.Iterator(): rewound, range = all
TrItNew ==
    /\ IsEvent("ItNew")
    /\ Ev.v \in 1..Len(vers) /\ Ev.it >= 1
    /\ its' = [Grow(its, Ev.it) EXCEPT ![Ev.it] = [v |-> Ev.v, c |-> CurRew, org |-> 0, end |-> K + 1, sk |-> <<>>]]
    /\ UNCHANGED <<K, PG, SF, vers>>

\* one iterator call; res = rank of Cur() key or 0 for eof / rewound, off = Cur() offset (0 at eof),
\* eof = it.Eof(). Rank 0 is ixkey.Min (or below every key), K+1 is ixkey.Max
TrItOp ==
    /\ IsEvent("ItOp")
    /\ Ev.ok = 1
    /\ Ev.it \in 1..Len(its) /\ its[Ev.it].v # 0
    /\ LET i == its[Ev.it]
           mm == vers[i.v]
           skip == i.sk # <<>>
           vis == Visible(mm, PG, SF, i.sk)
           c2 == CASE Ev.op = "next"   -> IF skip THEN VNext(vis, i.c) ELSE CNext(mm, i.c, i.org, i.end)
                   [] Ev.op = "prev"   -> IF skip THEN VPrev(vis, i.c, K + 1) ELSE CPrev(mm, i.c, i.org, i.end)
                   [] Ev.op = "seek"   -> IF skip THEN VSeek(vis, Ev.k, K + 1) ELSE CSeek(mm, Ev.k, i.org, i.end)
                   [] Ev.op = "rewind" -> CurRew
                   [] Ev.op = "range"  -> CurRew
                   [] Ev.op = "skip"   -> CurRew
           i2 == CASE Ev.op = "range" -> [i EXCEPT !.c = c2, !.org = Ev.k, !.end = Ev.k2, !.sk = <<>>]
                   [] Ev.op = "skip"  -> [i EXCEPT !.c = c2, !.sk = <<Ev.k, Ev.k2, Ev.k3, Ev.k4>>]
                   [] OTHER -> [i EXCEPT !.c = c2] IN
        /\ Holds(/\ Ev.op \in {"next", "prev", "seek", "rewind", "range", "skip"}
                 /\ c2.st = "in"  => Ev.res = c2.cur /\ Ev.off = mm[c2.cur] /\ Ev.eof = 0
                 /\ c2.st = "eof" => Ev.res = 0 /\ Ev.off = 0 /\ Ev.eof = 1
                 /\ c2.st = "rew" => Ev.eof = 0
                 \* the declarative meaning holds as well (operators of the exhaustive spec)
                 /\ (Ev.op = "next" /\ ~skip) => NextMeaning(mm, i.c, c2, i.org, i.end)
                 /\ (Ev.op = "prev" /\ ~skip) => PrevMeaning(mm, i.c, c2, i.org, i.end)
                 /\ (Ev.op = "seek" /\ ~skip) => SeekMeaning(mm, Ev.k, c2, i.org, i.end))
        /\ its' = [its EXCEPT ![Ev.it] = i2]
    /\ UNCHANGED <<K, PG, SF, vers>>

\* RangeFrac(org, end): the estimate is a finite number in [0, 1] (ppm = round(frac * 1e6));
\* exactly 0 for an empty range description (org >= end)
TrFrac ==
    /\ IsEvent("Frac")
    /\ Ev.ok = 1
    /\ Ev.v \in 1..Len(vers)
    /\ Ev.fin = 1
    /\ 0 <= Ev.ppm /\ Ev.ppm <= 1000000
    /\ UNCHANGED <<K, PG, SF, vers, its>>

\* size invariants, observed on the stored nodes themselves: after a bulk build (op = "build") and
\* after MergeAndSave (op = "merge") the driver walks every node of the new version in the stor
\* bytes: n nodes, the largest is maxsz bytes, the largest fan-out (keys of a leaf, children of a
\* tree node) is maxfan, the leaves hold nk keys. Every node respects the size limit (btree
\* maxNodeSize) and the fan-out limit (splitCount = the scenario's split; BTreeNodes!NodeOK), and
\* the walk saw exactly the keys of the version (it is the same tree the other events observe).
\* nover / big describe the nodes above the limit for the classification of known findings only.
MaxNodeSize == 8192
TrNodes ==
    /\ IsEvent("Nodes")
    /\ Ev.ok = 1
    /\ Ev.v \in 1..Len(vers)
    /\ Ev.op \in {"build", "merge"}
    /\ Holds(/\ Ev.n >= 1
             /\ Ev.maxsz <= MaxNodeSize
             /\ Ev.maxfan <= Ev.split
             /\ Ev.nover = 0
             /\ Ev.nk = Count(vers[Ev.v]))
    /\ UNCHANGED <<K, PG, SF, vers, its>>

\* informational lines (scenario descriptions, skipped scenarios)
TrNote == /\ IsEvent("Note") /\ UNCHANGED <<K, PG, SF, vers, its>>

TraceNext == TrReset \/ TrScn \/ TrBuild \/ TrMerge \/ TrReopen \/ TrNodes \/ TrState \/ TrChkKeys \/ TrItNew \/ TrItOp
             \/ TrFrac \/ TrNote

TraceSpec == TraceInit /\ [][TraceNext]_tvars

HW == HWMark(l)
=============================================================================
