---------------------------- MODULE TraceOverlay ----------------------------
(* Trace validation for C09.  The driver (harness/cmd/overlay) builds real     *)
(* index overlays through the public API (btree Builder, OverlayFor, Mutable,  *)
(* Insert/Update/Delete, UpdateWith, Merge/WithMerged, Save/WithSaved) and     *)
(* iterates them with the real OverIter / SimpleIter / btree and ixbuf          *)
(* iterators.  Content events rebuild the same content in the model (per       *)
(* overlay object = slot); every iterator step must return what the REFERENCE  *)
(* of OverlayOps says for the content of the overlay the step was given, at    *)
(* the time of the call, and (OverIter) must have reported read ranges that    *)
(* cover the keys that could have changed the outcome.                         *)
EXTENDS TraceBase, OverlayOps

VARIABLES l,
          u,      \* universe [np, ns]
          ovs,    \* slot -> content of that Overlay object
          ibs,    \* standalone ixbufs: id -> layer function
          its     \* iterator id -> iterator record (see NoIter)
tvars == <<l, u, ovs, ibs, its>>

Ev == Log[l]
IsEvent(e) == l <= NLog /\ Ev.e = e /\ l' = l + 1

U0 == [np |-> 1, ns |-> 1]
NoIter(uu) == [kind |-> "none", ref |-> NewRef(uu), lit |-> NewLit, r |-> AllRange(uu),
               src |-> EmptyLayer(uu), c |-> OverlayFor(uu, EmptyBt(uu))]

TraceInit == /\ HWInit /\ l = 1
             /\ u = U0 /\ ovs = <<>> /\ ibs = <<>> /\ its = <<>>

TrReset == /\ IsEvent("Reset")
           /\ u' = U0 /\ ovs' = <<>> /\ ibs' = <<>> /\ its' = <<>>

TrInit == /\ IsEvent("Init")
          /\ LET uu == [np |-> Ev.np, ns |-> Ev.ns] IN
               /\ u' = uu
               /\ ovs' = [s \in 1..Ev.nslot |-> OverlayFor(uu, EmptyBt(uu))]
               /\ ibs' = [j \in 1..Ev.nib |-> EmptyLayer(uu)]
               /\ its' = [i \in 1..Ev.nit |-> NoIter(uu)]

----------------------------------------------------------------------------
(* content events *)
OffOf(keys, k) == LET js == {j \in 1..Len(keys) : keys[j][1] = k} IN
                  IF js = {} THEN 0 ELSE keys[CHOOSE j \in js : TRUE][2]

\* btree built by Builder from sorted (key, offset) pairs; OverlayFor(bt) / OverlayForN(bt, nl)
TrBuild == /\ IsEvent("Build")
           /\ ovs' = [ovs EXCEPT ![Ev.ov] =
                        [OverlayFor(u, [k \in KeySet(u) |-> OffOf(Ev.keys, k)])
                           EXCEPT !.layers = [i \in 1..Ev.nl |-> EmptyLayer(u)]]]
           /\ UNCHANGED <<u, ibs, its>>
TrMutable == /\ IsEvent("Mutable")
             /\ ~ovs[Ev.from].hasMut
             /\ ovs' = [ovs EXCEPT ![Ev.ov] = MutableOp(u, ovs[Ev.from])]
             /\ UNCHANGED <<u, ibs, its>>
EntryOf(op, off) == [op |-> op, off |-> off]
TrPut(name, op) == /\ IsEvent(name)
                   /\ ovs[Ev.ov].hasMut
                   /\ ovs' = [ovs EXCEPT ![Ev.ov] = MutPut(@, Ev.k, EntryOf(op, Ev.off))]
                   /\ UNCHANGED <<u, ibs, its>>
TrCommit == /\ IsEvent("Commit")
            /\ ovs[Ev.ov].hasMut
            /\ ovs' = [ovs EXCEPT ![Ev.ov] = CommitOnto(u, ovs[Ev.ov], ovs[Ev.latest])]
            /\ UNCHANGED <<u, ibs, its>>
TrMerge == /\ IsEvent("Merge")
           /\ ovs' = [ovs EXCEPT ![Ev.ov] = MergeOp(u, ovs[Ev.from], Ev.n)]
           /\ UNCHANGED <<u, ibs, its>>
TrSave == /\ IsEvent("Save")
          /\ ovs' = [ovs EXCEPT ![Ev.ov] = SaveOp(u, ovs[Ev.from])]
          /\ UNCHANGED <<u, ibs, its>>

\* Overlay.Lookup returns the offset of the key in the content (0 = not present)
TrLookup == /\ IsEvent("Lookup")
            /\ Ev.off = Live(ovs[Ev.ov], Ev.k)
            /\ UNCHANGED <<u, ovs, ibs, its>>

\* standalone ixbufs
TrIbNew == /\ IsEvent("IbNew")
           /\ ibs' = [ibs EXCEPT ![Ev.ib] = EmptyLayer(u)]
           /\ UNCHANGED <<u, ovs, its>>
TrIbPut == /\ IsEvent("IbPut")
           /\ ibs' = [ibs EXCEPT ![Ev.ib][Ev.k] = Combine(@, EntryOf(Ev.op, Ev.off))]
           /\ UNCHANGED <<u, ovs, its>>
TrIbMerge == /\ IsEvent("IbMerge")
             /\ ibs' = [ibs EXCEPT ![Ev.ib] =
                          [k \in KeySet(u) |-> CombineLeft([j \in 1..Len(Ev.from) |-> ibs[Ev.from[j]]],
                                                          1, Len(Ev.from), k, None)]]
             /\ UNCHANGED <<u, ovs, its>>

----------------------------------------------------------------------------
(* iterators *)
BtLayer(cc) == [k \in KeySet(u) |-> IF cc.bt[k] = 0 THEN None ELSE Add(cc.bt[k])]
FrozenBt(cc) == OverlayFor(u, cc.bt)

\* kinds: over (OverIter), simple (SimpleIter of a slot without changes), bt (Overlay.BtreeIter),
\* layer (iterator of one ixbuf layer of a slot, li = 0: the mutable layer), ib (standalone ixbuf)
TrNewIter ==
    /\ IsEvent("NewIter")
    /\ LET cc == ovs[Ev.ov] IN
       its' = [its EXCEPT ![Ev.it] =
                 [NoIter(u) EXCEPT !.kind = Ev.kind,
                    !.c = IF Ev.kind = "simple" THEN FrozenBt(cc) ELSE @,
                    !.src = CASE Ev.kind = "bt" -> BtLayer(cc)
                              [] Ev.kind = "layer" -> (IF Ev.li = 0 THEN cc.mut ELSE cc.layers[Ev.li])
                              [] Ev.kind = "ib" -> ibs[Ev.li]
                              [] OTHER -> @]]
    \* SimpleIter exists only when there is nothing but the btree
    /\ Ev.kind = "simple" => LET cc == ovs[Ev.ov] IN
                                 \A k \in KeySet(u) : Live(cc, k) = cc.bt[k]
    /\ UNCHANGED <<u, ovs, ibs>>

SetR(i, r) == its' = [its EXCEPT ![i].r = r, ![i].ref = RefSetRange(@, r), ![i].lit = LRewind(@)]
TrRange == /\ IsEvent("Range")
           /\ SetR(Ev.it, RangeOf(u, Ev.org, Ev.end))
           /\ UNCHANGED <<u, ovs, ibs>>
TrSkip == /\ IsEvent("Skip")
          /\ SetR(Ev.it, SkipOf(Ev.porg, Ev.pend, Ev.sorg, Ev.send))
          /\ UNCHANGED <<u, ovs, ibs>>
TrRewind == /\ IsEvent("Rewind")
            /\ its' = [its EXCEPT ![Ev.it].ref = RefRewind(@), ![Ev.it].lit = LRewind(@)]
            /\ UNCHANGED <<u, ovs, ibs>>

\* the logged outcome equals the reference outcome
SameRef(it2) == /\ Ev.st = it2.st
                /\ it2.st = "within" => Ev.k = it2.cur /\ Ev.off = it2.off

\* OverIter / SimpleIter: Next or Prev, given overlay slot Ev.ov (OverIter) or the frozen
\* content (SimpleIter). OverIter must report read ranges covering the required keys.
TrStep ==
    /\ IsEvent("Step")
    /\ LET it == its[Ev.it]
           cc == IF it.kind = "over" THEN ovs[Ev.ov] ELSE it.c
           it2 == IF Ev.op = "next" THEN RefNext(u, cc, it.ref) ELSE RefPrev(u, cc, it.ref)
           need == IF it.ref.st = "eof" \/ it.kind # "over" THEN {}
                   ELSE IF Ev.op = "next" THEN NextReadReq(u, it.ref, it2) ELSE PrevReadReq(u, it.ref, it2)
       IN /\ it.kind \in {"over", "simple"}
          /\ Ev.op \in {"next", "prev"}
          /\ SameRef(it2)
          /\ need \subseteq Covered(Ev.reads)
          /\ its' = [its EXCEPT ![Ev.it].ref = it2]
    /\ UNCHANGED <<u, ovs, ibs>>

\* btree / ixbuf iterators on a fixed source: Next, Prev, Seek(x); they return raw entries
\* (tombstones and update entries included)
TrLStep ==
    /\ IsEvent("LStep")
    /\ LET it == its[Ev.it]
           S == {k \in KeySet(u) : it.src[k].op # "none"}
           lit2 == CASE Ev.op = "next" -> LNext(u, S, it.r, it.lit)
                     [] Ev.op = "prev" -> LPrev(u, S, it.r, it.lit)
                     [] Ev.op = "seek" -> LSeek(u, S, it.r, it.lit, Ev.x)
       IN /\ it.kind \in {"bt", "layer", "ib"}
          /\ Ev.op \in {"next", "prev", "seek"}
          /\ Ev.st = lit2.st
          /\ lit2.st = "in" => /\ Ev.k = lit2.k
                               /\ EntryOf(Ev.opn, Ev.off) = it.src[lit2.k]
          /\ its' = [its EXCEPT ![Ev.it].lit = lit2]
    /\ UNCHANGED <<u, ovs, ibs>>

TraceNext == \/ TrReset \/ TrInit \/ TrBuild \/ TrMutable
             \/ TrPut("Ins", "add") \/ TrPut("Upd", "upd") \/ TrPut("Del", "del")
             \/ TrCommit \/ TrMerge \/ TrSave \/ TrLookup
             \/ TrIbNew \/ TrIbPut \/ TrIbMerge
             \/ TrNewIter \/ TrRange \/ TrSkip \/ TrRewind \/ TrStep \/ TrLStep

TraceSpec == TraceInit /\ [][TraceNext]_tvars

HW == HWMark(l)
=============================================================================
