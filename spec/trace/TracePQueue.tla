----------------------------- MODULE TracePQueue -----------------------------
(* Trace validation for C17: events recorded by the verif hooks inside        *)
(* PriorityQueue.Put/Get (under pq.lock) and by the driver's producers        *)
(* (Send, before calling Put) and consumer (Recv, after Get returned).        *)
(* The model queue is rebuilt from PQPut/PQGet; each PQGet must remove the    *)
(* element the rule selects; Recv order must equal PQGet order (one consumer);*)
(* Done requires that everything sent was received exactly once.              *)
EXTENDS TraceBase, FiniteSets

VARIABLES l, items, sent, arrived, got, recvd

tvars == <<l, items, sent, arrived, got, recvd>>

Ev == Log[l]

Init0 == /\ items = <<>>     \* model queue: records [pri, tran, id]
         /\ sent = {}        \* ids passed to Send, not yet seen in PQPut
         /\ arrived = {}     \* all ids that entered the queue
         /\ got = <<>>       \* ids removed by PQGet, not yet seen by Recv (FIFO)
         /\ recvd = {}       \* ids received by the consumer

TraceInit == HWInit /\ l = 1 /\ Init0

IsEvent(e) == l <= NLog /\ Ev.e = e /\ l' = l + 1

IsOldest(q, i) == \A j \in 1..(i-1) : q[j].tran # q[i].tran
Candidates(q) == {i \in 1..Len(q) : IsOldest(q, i)}
\* declarative rule of the property (not the code's scan)
RuleIndex(q) == CHOOSE i \in Candidates(q) :
                    /\ \A j \in Candidates(q) : q[j].pri <= q[i].pri
                    /\ \A j \in Candidates(q) : q[j].pri = q[i].pri => i <= j
RemoveAt(q, i) == SubSeq(q, 1, i - 1) \o SubSeq(q, i + 1, Len(q))

TrReset == /\ IsEvent("Reset")
           /\ items' = <<>> /\ sent' = {} /\ arrived' = {} /\ got' = <<>> /\ recvd' = {}

TrSend == /\ IsEvent("Send")
          /\ Ev.id \notin sent /\ Ev.id \notin arrived
          /\ sent' = sent \cup {Ev.id}
          /\ UNCHANGED <<items, arrived, got, recvd>>

TrPut == /\ IsEvent("PQPut")
         /\ Ev.val \in sent                      \* something that was actually sent, once
         /\ sent' = sent \ {Ev.val}
         /\ arrived' = arrived \cup {Ev.val}
         /\ items' = Append(items, [pri |-> Ev.pri, tran |-> Ev.tran, id |-> Ev.val])
         /\ Ev.len = Len(items')
         /\ UNCHANGED <<got, recvd>>

TrGet == /\ IsEvent("PQGet")
         /\ Len(items) > 0
         /\ LET i == RuleIndex(items) IN
              /\ items[i].id = Ev.val             \* the element the rule selects
              /\ items[i].pri = Ev.pri /\ items[i].tran = Ev.tran
              /\ items' = RemoveAt(items, i)
              /\ got' = Append(got, Ev.val)
         /\ Ev.len = Len(items')
         /\ UNCHANGED <<sent, arrived, recvd>>

TrRecv == /\ IsEvent("Recv")
          /\ Len(got) > 0 /\ Head(got) = Ev.id    \* consumer sees deliveries in Get order
          /\ Ev.id \notin recvd
          /\ got' = Tail(got)
          /\ recvd' = recvd \cup {Ev.id}
          /\ UNCHANGED <<items, sent, arrived>>

\* end of one scenario: every message sent was delivered (exactly once)
TrDone == /\ IsEvent("Done")
          /\ sent = {} /\ items = <<>> /\ got = <<>>
          /\ recvd = arrived
          /\ Cardinality(recvd) = Ev.nsent
          /\ UNCHANGED <<items, sent, arrived, got, recvd>>

TraceNext == TrReset \/ TrSend \/ TrPut \/ TrGet \/ TrRecv \/ TrDone

TraceSpec == TraceInit /\ [][TraceNext]_tvars

HW == HWMark(l)
=============================================================================
