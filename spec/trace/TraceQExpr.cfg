SPECIFICATION TraceSpec
CONSTRAINT HW
POSTCONDITION AcceptedS
CHECK_DEADLOCK FALSE
