----------------------------- MODULE TraceQExpr -----------------------------
(* Trace validation for C25 (query expressions evaluate like language            *)
(* expressions).  The driver (harness/cmd/qexpr) evaluates generated where /      *)
(* extend expressions over the fields a..d of generated rows on every path of     *)
(* the REAL code:                                                                 *)
(*   Rows   rows[r] = <<a, b, c, d>> values of row r (the table t, key k = r)     *)
(*   QExpr  x     expression; leaf i is column col[i] (1..4) or, col[i] = 0, the  *)
(*                constant cv[i]                                                  *)
(*          val[r]  compile/ast Expr.Eval on the row's values                     *)
(*          raw[r]  Expr.Eval after CanEvalRaw (packed fields), k = "n" if not    *)
(*                  applicable                                                    *)
(*          fn[r]   function (a, b, c, d) { return x } compiled + interpreted     *)
(*          where / keys   t where x : outcome and the keys returned              *)
(*          extend / zs    t extend z = x sort k : outcome and z per row          *)
(*          others   the same where over extended copies of the columns, over     *)
(*                   renamed columns, on top of another where, and with a sort    *)
(* Required: fn and val give exactly Values!Eval (the language semantics); raw,   *)
(* where and extend give a result the query engine may give: Values!EvalSet, i.e. *)
(* Eval except that an order comparison may be done on the stored encodings,      *)
(* where the empty string sorts before booleans and numbers (the documented       *)
(* exception, a named relaxation in Values.tla: CmpRaw).  A query may only fail   *)
(* if the expression can fail on one of the rows (or is rejected statically).     *)
EXTENDS TraceBase, Values

VARIABLES l, rows
tvars == <<l, rows>>
Ev == Log[l]

TraceInit == HWInit /\ TLCSet(5, <<>>) /\ l = 1 /\ rows = <<>>
IsEvent(e) == l <= NLog /\ Ev.e = e /\ l' = l + 1

Survey == "VERIF_SURVEY" \in DOMAIN IOEnv /\ IOEnv["VERIF_SURVEY"] = "1"

TrReset == IsEvent("Reset") /\ rows' = <<>>
TrRows == IsEvent("Rows") /\ rows' = Ev.rows

EnvOf(e, r) == [i \in 1..Len(e.col) |-> IF e.col[i] = 0 THEN e.cv[i] ELSE rows[r][e.col[i]]]
LitOf(e) == [i \in 1..Len(e.col) |-> e.col[i] = 0]

IsTrue(s) == s.k = "v" /\ s.c = "" /\ s.v.t = "bool" /\ s.v.b
\* can the evaluation on this row end in something else than a boolean value
CanFail(S) == \E s \in S : s.k # "v" \/ s.v.t # "bool"

\* exact (language) semantics; a static rejection is accepted where Values!LitDiag allows it
ExactOK(r, ev, e, env) ==
    IF r.k = "ce" THEN LitDiag(e.x, env, LitOf(e))
    ELSE IF ev.k = "u" THEN TRUE
    ELSE SameRes(r, ev)
\* query-engine semantics: one of the results possible with stored-encoding comparisons
EngineOK(r, S, e, env) ==
    \/ r.k = "n"
    \/ r.k = "ce" /\ LitDiag(e.x, env, LitOf(e))
    \/ \E s \in S : s.k = "u" \/ SameRes(r, s)
CloseRes(r, s) ==
    \/ SameRes(r, s)
    \/ r.k = "v" /\ s.k = "v" /\ r.c = "" /\ s.c = "" /\ r.v.t = "num" /\ s.v.t = "num" /\ NumClose(r.v, s.v)

\* row r is returned iff the expression can be true on it / is left out iff it can be not true
WhereRowOK(keys, r, S) ==
    IF r \in {keys[i] : i \in 1..Len(keys)}
    THEN \E s \in S : s.k = "u" \/ IsTrue(s)
    ELSE \E s \in S : s.k = "u" \/ ~IsTrue(s)

RowOK(e, r) ==
    LET env == EnvOf(e, r)
        ev  == Eval(e.x, env)
        S   == EvalSet(e.x, env)
    IN /\ ExactOK(e.fn[r], ev, e, env)
       /\ ExactOK(e.val[r], ev, e, env)
       /\ EngineOK(e.raw[r], S, e, env)
       \* outside the modelled domain the two exact paths must still agree with each other
       /\ (ev.k = "u" /\ e.fn[r].k # "ce" /\ e.val[r].k # "ce") => CloseRes(e.fn[r], e.val[r])
       \* t where x, and the same restriction over other sources (extended / renamed columns,
       \* a second where, with a sort)
       /\ e.where.k = "v" => WhereRowOK(e.keys, r, S)
       /\ \A q \in 1..Len(e.others) : e.others[q].r.k = "v" => WhereRowOK(e.others[q].keys, r, S)
       \* t extend z = x
       /\ e.extend.k = "v" => (Len(e.zs) = Len(rows) /\ EngineOK(e.zs[r], S, e, env))

CanFailSomewhere(e) ==
    \E r \in 1..Len(rows) : LET env == EnvOf(e, r) IN
          \/ LitDiag(e.x, env, LitOf(e))
          \/ \E s \in EvalSet(e.x, env) : s.k = "u" \/ s.k = "x" \/ s.v.t # "bool"

QExprOK(e) ==
    /\ Len(e.val) = Len(rows)
    /\ \A r \in 1..Len(rows) : RowOK(e, r)
    \* a query fails only if the expression can fail on some row (or is rejected statically)
    /\ e.where.k = "x" => CanFailSomewhere(e)
    /\ \A q \in 1..Len(e.others) :
          /\ e.others[q].r.k = "x" => CanFailSomewhere(e)
          /\ Len(e.others[q].keys) = Cardinality({e.others[q].keys[i] : i \in 1..Len(e.others[q].keys)})
    /\ e.extend.k = "x" =>
          \E r \in 1..Len(rows) : LET env == EnvOf(e, r) IN
                \/ LitDiag(e.x, env, LitOf(e))
                \/ \E s \in EvalSet(e.x, env) : s.k = "u" \/ s.k = "x"
    /\ Len(e.keys) = Cardinality({e.keys[i] : i \in 1..Len(e.keys)})     \* no row twice

\* survey mode (VERIF_SURVEY=1, used by the check only AFTER a strict run has rejected the
\* trace): list every rejected line instead of stopping at the first
TrQExpr == /\ IsEvent("QExpr")
           /\ (QExprOK(Ev) \/ (Survey /\ TLCSet(5, Append(TLCGet(5), l)))) = TRUE
           /\ UNCHANGED rows

TraceNext == TrReset \/ TrRows \/ TrQExpr
TraceSpec == TraceInit /\ [][TraceNext]_tvars
HW == HWMark(l)
\* in survey mode the list of rejected lines is also written (JSON array) to the file named by
\* VERIF_BADOUT: the console output may be truncated by the runner
AcceptedS == /\ (Survey /\ "VERIF_BADOUT" \in DOMAIN IOEnv) => JsonSerialize(IOEnv["VERIF_BADOUT"], TLCGet(5))
             /\ PrintT(<<"BAD-LINES", TLCGet(5)>>)
             /\ Accepted
=============================================================================
