----------------------------- MODULE TraceRanges -----------------------------
(* Trace validation for C39: calls on the REAL util/ranges, util/ordset,       *)
(* util/sortlist, util/bloom, util/roaring, util/shmap, util/cache and          *)
(* util/lrucache recorded by harness/cmd/utilsets, replayed against the         *)
(* abstract data types of RangesOps.tla. One scenario = one instance of one     *)
(* data type (Scn.adt); S, A, B hold its model:                                 *)
(*   ranges    S = set of disjoint closed intervals <<from, to>> (ranks)        *)
(*   ordset    S = set of ranks                                                 *)
(*   sortlist  S = the finished list (sequence of items), A = cursor            *)
(*   bloom     S = set of added hash ids                                        *)
(*   roaring   S = set of added value ids                                       *)
(*   shmap     S = sequence of maps (functions key -> value), index = map id    *)
(*   cache     S = set of keys requested so far                                 *)
(*   lru       S = function key -> last value stored, A = capacity, B = #stores *)
EXTENDS TraceBase, RangesOps

VARIABLES l, adt, S, A, B

tvars == <<l, adt, S, A, B>>

Ev == Log[l]

TraceInit == HWInit /\ l = 1 /\ adt = "" /\ S = {} /\ A = 0 /\ B = 0

IsEvent(e) == l <= NLog /\ Ev.e = e /\ l' = l + 1
Is(a, e) == IsEvent(e) /\ adt = a /\ Ev.ok = 1

\* evaluate a state-level condition as one value (TLC would expand quantifiers inside actions)
Holds(b) == b = TRUE

NodeSize == 128   \* util/ranges and util/ordset: a node holds 128 entries, capacity 128 * 128

TrReset == IsEvent("Reset") /\ adt' = "" /\ S' = {} /\ A' = 0 /\ B' = 0

TrScn == /\ IsEvent("Scn")
         /\ adt' = Ev.adt
         /\ S' = CASE Ev.adt \in {"sortlist", "shmap"} -> <<>>
                   [] Ev.adt = "lru" -> <<>>
                   [] OTHER -> {}
         /\ A' = Ev.cap /\ B' = 0

TrNote == IsEvent("Note") /\ UNCHANGED <<adt, S, A, B>>

----------------------------------------------------------------------------
(* ranges *)
TrRIns ==
    /\ Is("ranges", "RIns")
    /\ IF Ev.full = 1
       THEN Cardinality(S) >= NodeSize /\ S' = S          \* Full: only beyond one node's worth
       ELSE /\ Holds(Ev.ret = RInsertRet(S, Ev.f, Ev.t))
            /\ S' = RInsert(S, Ev.f, Ev.t)
    /\ UNCHANGED <<adt, A, B>>

TrRHas ==
    /\ Is("ranges", "RHas")
    /\ Holds((Ev.res = 1) <=> RContains(S, Ev.x))
    /\ UNCHANGED <<adt, S, A, B>>

\* many Insert(x, x) of pairwise distinct points into an EMPTY range set, rets[i] = 1 added / 2 Full:
\* the first NodeSize must be accepted; the accepted ones are the content
TrRBulk ==
    /\ Is("ranges", "RBulk")
    /\ S = {}
    /\ Assert(Cardinality({Ev.xs[i] : i \in 1..Len(Ev.xs)}) = Len(Ev.xs), "harness error: bulk points not distinct")
    /\ Holds(\A i \in 1..Len(Ev.xs) : Ev.rets[i] \in {1, 2} /\ (i <= NodeSize => Ev.rets[i] = 1))
    /\ S' = {<<Ev.xs[i], Ev.xs[i]>> : i \in {j \in 1..Len(Ev.xs) : Ev.rets[j] = 1}}
    /\ UNCHANGED <<adt, A, B>>

----------------------------------------------------------------------------
(* ordset *)
TrOIns ==
    /\ Is("ordset", "OIns")
    /\ IF Ev.res = 1 THEN S' = S \cup {Ev.k}
       ELSE Ev.res = 0 /\ Cardinality(S) >= NodeSize /\ S' = S      \* false = full
    /\ UNCHANGED <<adt, A, B>>

TrOHas ==
    /\ Is("ordset", "OHas")
    /\ (Ev.res = 1) <=> (Ev.k \in S)
    /\ UNCHANGED <<adt, S, A, B>>

TrOAny ==
    /\ Is("ordset", "OAny")
    /\ Holds((Ev.res = 1) <=> AnyInRange(S, Ev.f, Ev.t))
    /\ UNCHANGED <<adt, S, A, B>>

TrOEmpty ==
    /\ Is("ordset", "OEmpty")
    /\ (Ev.res = 1) <=> (S = {})
    /\ UNCHANGED <<adt, S, A, B>>

TrOBulk ==
    /\ Is("ordset", "OBulk")
    /\ S = {}
    /\ Assert(Cardinality({Ev.ks[i] : i \in 1..Len(Ev.ks)}) = Len(Ev.ks), "harness error: bulk keys not distinct")
    /\ Holds(\A i \in 1..Len(Ev.ks) : Ev.rets[i] \in {0, 1} /\ (i <= NodeSize => Ev.rets[i] = 1))
    /\ S' = {Ev.ks[i] : i \in {j \in 1..Len(Ev.ks) : Ev.rets[j] = 1}}
    /\ UNCHANGED <<adt, A, B>>

----------------------------------------------------------------------------
(* sortlist: items are key * 2^20 + sequence number (pairwise distinct) *)
SLKey(x) == x \div 1048576

\* Builder: Add(in[1]) ... Add(in[n]), then Finish (mode "sorted"), or NewUnsorted + Sort
\* ("resorted"), or NewUnsorted + Finish ("unsorted": insertion order kept); out = all items
\* through List.Iter Next...
TrSLBuild ==
    /\ Is("sortlist", "SLBuild")
    /\ Holds(IF Ev.mode = "unsorted" THEN Ev.out = Ev.in
             ELSE IsPermutation(Ev.in, Ev.out) /\ SortedBy(Ev.out, SLKey))
    /\ S' = Ev.out /\ A' = SLRew
    /\ UNCHANGED <<adt, B>>

\* a second full pass (Builder.Iter, or Prev from rewound) must give the same list (rev = 1: reversed)
TrSLAll ==
    /\ Is("sortlist", "SLAll")
    /\ Holds(IF Ev.rev = 1 THEN Ev.out = [i \in 1..Len(S) |-> S[Len(S) + 1 - i]] ELSE Ev.out = S)
    /\ UNCHANGED <<adt, S, A, B>>

TrSLIt ==
    /\ Is("sortlist", "SLIt")
    /\ LET c2 == CASE Ev.op = "next" -> SLNext(Len(S), A)
                   [] Ev.op = "prev" -> SLPrev(Len(S), A)
                   [] Ev.op = "seek" -> SLSeek(S, SLKey, Ev.k)
                   [] Ev.op = "rewind" -> SLRew IN
        /\ Holds(/\ Ev.op \in {"next", "prev", "seek", "rewind"}
                 /\ c2.st = "in" => Ev.eof = 0 /\ Ev.item = S[c2.i]
                 /\ c2.st = "eof" => Ev.eof = 1
                 /\ c2.st = "rew" => Ev.eof = 0)
        /\ A' = c2
    /\ UNCHANGED <<adt, S, B>>

----------------------------------------------------------------------------
(* bloom: no false negatives *)
TrBAdd == Is("bloom", "BAdd") /\ S' = S \cup {Ev.h} /\ UNCHANGED <<adt, A, B>>
TrBTest == /\ Is("bloom", "BTest")
           /\ Ev.h \in S => Ev.res = 1
           /\ UNCHANGED <<adt, S, A, B>>

(* roaring: exact set of integers (value ids) *)
TrRoAdd == /\ Is("roaring", "RoAdd")
           /\ S' = S \cup {Ev.xs[i] : i \in 1..Len(Ev.xs)}
           /\ UNCHANGED <<adt, A, B>>
TrRoHas == /\ Is("roaring", "RoHas")
           /\ Holds(\A i \in 1..Len(Ev.xs) : (Ev.res[i] = 1) <=> (Ev.xs[i] \in S))
           /\ UNCHANGED <<adt, S, A, B>>

----------------------------------------------------------------------------
(* shmap: S[m] = function key -> value *)
EmptyFn == [x \in {} |-> 0]
MPutFn(f, k, v) == [x \in DOMAIN f \cup {k} |-> IF x = k THEN v ELSE f[x]]
MDelFn(f, k) == [x \in DOMAIN f \ {k} |-> f[x]]
IsMap(m) == m \in 1..Len(S)

TrMNew == /\ Is("shmap", "MNew") /\ Ev.m = Len(S) + 1
          /\ S' = Append(S, EmptyFn) /\ UNCHANGED <<adt, A, B>>
TrMCopy == /\ Is("shmap", "MCopy") /\ IsMap(Ev.from) /\ Ev.m = Len(S) + 1
           /\ S' = Append(S, S[Ev.from]) /\ UNCHANGED <<adt, A, B>>
TrMPut == /\ Is("shmap", "MPut") /\ IsMap(Ev.m)
          /\ S' = [S EXCEPT ![Ev.m] = MPutFn(@, Ev.k, Ev.v)] /\ UNCHANGED <<adt, A, B>>
\* GetInit: creates the entry with the zero value unless it exists; reports whether it existed
TrMGetInit == /\ Is("shmap", "MGetInit") /\ IsMap(Ev.m)
              /\ (Ev.existed = 1) <=> (Ev.k \in DOMAIN S[Ev.m])
              /\ S' = IF Ev.k \in DOMAIN S[Ev.m] THEN S ELSE [S EXCEPT ![Ev.m] = MPutFn(@, Ev.k, 0)]
              /\ UNCHANGED <<adt, A, B>>
TrMGet == /\ Is("shmap", "MGet") /\ IsMap(Ev.m)
          /\ IF Ev.k \in DOMAIN S[Ev.m] THEN Ev.found = 1 /\ Ev.v = S[Ev.m][Ev.k]
             ELSE Ev.found = 0 /\ Ev.v = 0
          /\ Ev.has = Ev.found
          /\ UNCHANGED <<adt, S, A, B>>
TrMDel == /\ Is("shmap", "MDel") /\ IsMap(Ev.m)
          /\ IF Ev.k \in DOMAIN S[Ev.m] THEN Ev.found = 1 /\ Ev.v = S[Ev.m][Ev.k]
             ELSE Ev.found = 0 /\ Ev.v = 0
          /\ S' = [S EXCEPT ![Ev.m] = MDelFn(@, Ev.k)] /\ UNCHANGED <<adt, A, B>>
TrMClear == /\ Is("shmap", "MClear") /\ IsMap(Ev.m)
            /\ S' = [S EXCEPT ![Ev.m] = EmptyFn] /\ UNCHANGED <<adt, A, B>>
\* Size() and the complete content through Iter() (order is unspecified: compared as a set of pairs)
TrMAll == /\ Is("shmap", "MAll") /\ IsMap(Ev.m)
          /\ Holds(LET f == S[Ev.m] IN
                   /\ Ev.size = Cardinality(DOMAIN f)
                   /\ Len(Ev.ks) = Ev.size
                   /\ {<<Ev.ks[i], Ev.vs[i]>> : i \in 1..Len(Ev.ks)} = {<<k, f[k]>> : k \in DOMAIN f})
          /\ UNCHANGED <<adt, S, A, B>>

----------------------------------------------------------------------------
(* cache / lrucache: "returns f(key)"; F is the getter the driver installs *)
F(k) == (k * 7 + 3) % 1000

\* cache.Cache.Get: the value is F(key); without calling the getter only for a key requested before
TrCGet == /\ Is("cache", "CGet")
          /\ Ev.v = F(Ev.k)
          /\ Ev.called = 0 => Ev.k \in S
          /\ Ev.called \in {0, 1}
          /\ S' = S \cup {Ev.k} /\ UNCHANGED <<adt, A, B>>

\* lrucache: S = key -> last value stored, A = capacity (from New), B = number of stores;
\* a hit returns the last value stored for the key; nothing is evicted before capacity is reached
LHitRequired(k) == k \in DOMAIN S /\ B <= A
TrLGetPut == /\ Is("lru", "LGetPut")
             /\ Ev.v = F(Ev.k)
             /\ Ev.called = 0 => Ev.k \in DOMAIN S /\ S[Ev.k] = Ev.v
             /\ LHitRequired(Ev.k) => Ev.called = 0
             /\ S' = IF Ev.called = 1 THEN MPutFn(S, Ev.k, Ev.v) ELSE S
             /\ B' = IF Ev.called = 1 THEN B + 1 ELSE B
             /\ UNCHANGED <<adt, A>>
TrLPut == /\ Is("lru", "LPut")
          /\ S' = MPutFn(S, Ev.k, Ev.v) /\ B' = B + 1 /\ UNCHANGED <<adt, A>>
TrLGet == /\ Is("lru", "LGet")
          /\ Ev.found = 1 => Ev.k \in DOMAIN S /\ S[Ev.k] = Ev.v
          /\ LHitRequired(Ev.k) => Ev.found = 1
          /\ UNCHANGED <<adt, S, A, B>>
\* Entries(): only keys that were stored (the real capacity is the next supported size >= A,
\* at most 223, so the number of entries is not constrained further)
TrLEntries == /\ Is("lru", "LEntries")
              /\ Holds(/\ Len(Ev.ks) <= 223
                       /\ \A i \in 1..Len(Ev.ks) : Ev.ks[i] \in DOMAIN S)
              /\ UNCHANGED <<adt, S, A, B>>
TrLReset == /\ Is("lru", "LReset")
            /\ S' = <<>> /\ B' = 0 /\ UNCHANGED <<adt, A>>

TraceNext == \/ TrReset \/ TrScn \/ TrNote
             \/ TrRIns \/ TrRHas \/ TrRBulk
             \/ TrOIns \/ TrOHas \/ TrOAny \/ TrOEmpty \/ TrOBulk
             \/ TrSLBuild \/ TrSLAll \/ TrSLIt
             \/ TrBAdd \/ TrBTest \/ TrRoAdd \/ TrRoHas
             \/ TrMNew \/ TrMCopy \/ TrMPut \/ TrMGetInit \/ TrMGet \/ TrMDel \/ TrMClear \/ TrMAll
             \/ TrCGet \/ TrLGetPut \/ TrLPut \/ TrLGet \/ TrLEntries \/ TrLReset

TraceSpec == TraceInit /\ [][TraceNext]_tvars

HW == HWMark(l)
=============================================================================
