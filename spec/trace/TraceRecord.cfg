SPECIFICATION TraceSpec
CONSTANTS
  Recs = {1, 2}
  Obs = {1, 2}
  Vals = {0, 1, 2}
  Extra = {"g", "h", "k"}
  DB = TRUE
  Dev = "none"
CONSTRAINT HW
INVARIANTS GetReflectsCurrent
POSTCONDITION Accepted
CHECK_DEADLOCK FALSE
