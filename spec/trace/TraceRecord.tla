----------------------------- MODULE TraceRecord -----------------------------
(* Trace validation for C35: every line is one operation performed on REAL    *)
(* core.SuRecord values (Go API or compiled Suneido code) by harness/cmd/     *)
(* record.  The model state is advanced with the actions of Record.tla; the   *)
(* logged results must agree with it:                                         *)
(*   Get     res  = the model's Get = value of the rule on current values     *)
(*   Set / Delete / Invalidate                                                *)
(*           notes (observer calls) must contain <<o, f>> for every observer  *)
(*           o of the record and every field f invalidated by the step; they  *)
(*           may additionally contain the changed member itself and fields    *)
(*           that are invalid after the step (order and repetition are free). *)
(*   any exception ("err" non-empty) is not explained by the specification.   *)
EXTENDS TraceBase, Integers, FiniteSets

CONSTANTS Recs, Obs, Vals, Extra, DB, Dev

VARIABLES l, recs, obs, link, out

R == INSTANCE Record

tvars == <<l, recs, obs, link, out>>

Ev == Log[l]

TraceInit == HWInit /\ l = 1 /\ R!Init

IsEvent(e) == l <= NLog /\ Ev.e = e /\ l' = l + 1

SeqToSet(s) == {s[i] : i \in 1..Len(s)}

\* observer notifications: required \subseteq logged \subseteq allowed
NotesOK(r, f) ==
    LET logged == SeqToSet(Ev.notes)
        required == R!Pairs(obs[r], recs'[r].inv \ recs[r].inv)
        allowed == R!Pairs(obs[r], {f} \cup recs'[r].inv)
    IN /\ required \subseteq logged
       /\ logged \subseteq allowed

TrReset == /\ IsEvent("Reset")
           /\ recs' = [r \in Recs |-> IF r = 1 THEN R!EmptyRec ELSE R!NoRec]
           /\ obs' = [r \in Recs |-> {}]
           /\ link' = FALSE
           /\ out' = R!Out("init", 0, "", 0, 0, 0, 0, {})

TrSet == /\ IsEvent("Set") /\ Ev.err = ""
         /\ Ev.r \in Recs /\ Ev.f \in R!Fields
         /\ R!Set(Ev.r, Ev.f, Ev.v)
         /\ NotesOK(Ev.r, Ev.f)

TrGet == /\ IsEvent("Get") /\ Ev.err = ""
         /\ Ev.r \in Recs /\ Ev.f \in R!Fields
         /\ R!Get(Ev.r, Ev.f)
         /\ Ev.res = out'.res
         \* and that is the value computed from the current field values (C35)
         /\ Ev.res = R!Cur(recs[Ev.r], Ev.f)

TrDelete == /\ IsEvent("Delete") /\ Ev.err = ""
            /\ Ev.r \in Recs /\ Ev.f \in R!Fields
            /\ R!Delete(Ev.r, Ev.f)
            /\ Ev.ok = out'.res
            /\ NotesOK(Ev.r, Ev.f)

TrInvalidate == /\ IsEvent("Invalidate") /\ Ev.err = ""
                /\ Ev.r \in Recs /\ Ev.f \in R!Fields
                /\ R!Invalidate(Ev.r, Ev.f)
                /\ NotesOK(Ev.r, Ev.f)

TrCopy == /\ IsEvent("Copy") /\ Ev.err = ""
          /\ Ev.r \in Recs /\ Ev.q \in Recs
          /\ R!Copy(Ev.r, Ev.q)

\* the record is saved as a database row and record q is made from that row
TrReload == /\ IsEvent("Reload") /\ Ev.err = ""
            /\ Ev.r \in Recs /\ Ev.q \in Recs
            /\ R!Reload(Ev.r, Ev.q)

TrObserve == /\ IsEvent("Observe") /\ Ev.err = ""
             /\ Ev.r \in Recs /\ Ev.o \in Obs
             /\ R!Observe(Ev.r, Ev.o)

TraceNext == TrReset \/ TrSet \/ TrGet \/ TrDelete \/ TrInvalidate \/ TrCopy \/ TrReload \/ TrObserve

TraceSpec == TraceInit /\ [][TraceNext]_tvars

HW == HWMark(l)

\* evaluated on every reconstructed state
GetReflectsCurrent == R!GetReflectsCurrent
=============================================================================
