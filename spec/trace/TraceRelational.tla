--------------------------- MODULE TraceRelational ---------------------------
(* Trace validation for C22, C23, C24 (dbms/query).  The driver               *)
(* (harness/cmd/relational) generates query ASTs itself, renders them to      *)
(* query text and runs the REAL query layer on a heap database; every line    *)
(* carries the AST, and what the implementation returned.  TLC evaluates the  *)
(* denotation (Relational.tla) - it does not search.                          *)
(*                                                                            *)
(*  Db      base tables of the scenario                                       *)
(*  Query   (C22) one distinct outcome of a query over all configurations:    *)
(*          the rows must be exactly Denote(ast, db), each once, no error     *)
(*  Open    (C23) a query set up with a requirement (none/order/group/unique/ *)
(*          sort): reported Keys() unique, Fixed() values hold                *)
(*  Seq     (C23) prophecy: the forward sequence of the current selection     *)
(*          (learnt by the driver from the final full scan of the phase);     *)
(*          must be the selected set, each row once, in the required order    *)
(*  Rewind / Get / Select / Lookup  (C23) steps of the cursor machine         *)
(*  Action  (C24) insert / insert query / update / delete through DoAction,   *)
(*          with the returned count and all tables afterwards                 *)
EXTENDS TraceBase, Relational

VARIABLES l,        \* next line
          db,       \* table name -> [cols, rows]
          base,     \* C23: denotation of the open query
          req,      \* C23: [use, cols, rev]
          hcols,    \* C23: header columns of the open query (order of row values)
          qkeys,    \* C23: Keys() reported by the open query
          selon, sel,   \* C23: current Select
          known, seq,   \* C23: forward sequence of the current selection
          st, pos       \* C23: cursor state

tvars == <<l, db, base, req, hcols, qkeys, selon, sel, known, seq, st, pos>>
cvars == <<base, req, hcols, qkeys, selon, sel, known, seq, st, pos>>

Ev == Log[l]
IsEvent(e) == l <= NLog /\ Ev.e = e /\ l' = l + 1

NoDb == [n \in {} |-> 0]
NoReq == [use |-> "none", cols |-> <<>>, rev |-> FALSE]

CInit == /\ base = {} /\ req = NoReq /\ hcols = <<>> /\ qkeys = <<>> /\ selon = FALSE /\ sel = <<>>
         /\ known = FALSE /\ seq = <<>> /\ st = "rewound" /\ pos = 0

TraceInit == HWInit /\ l = 1 /\ db = NoDb /\ CInit

RowOf(cols, vals) == [c \in Range(cols) |-> vals[CHOOSE i \in 1..Len(cols) : cols[i] = c]]
RowsOf(cols, rows) == [i \in 1..Len(rows) |-> RowOf(cols, rows[i])]

DbOf(tables) ==
    [n \in {tables[i].name : i \in 1..Len(tables)} |->
        LET t == tables[CHOOSE i \in 1..Len(tables) : tables[i].name = n]
        IN [cols |-> Range(t.cols), rows |-> Range(RowsOf(t.cols, t.rows))]]

TrReset == /\ IsEvent("Reset")
           /\ db' = NoDb
           /\ base' = {} /\ req' = NoReq /\ hcols' = <<>> /\ qkeys' = <<>> /\ selon' = FALSE /\ sel' = <<>>
           /\ known' = FALSE /\ seq' = <<>> /\ st' = "rewound" /\ pos' = 0

TrDb == /\ IsEvent("Db")
        /\ db' = DbOf(Ev.tables)
        /\ UNCHANGED cvars

-----------------------------------------------------------------------------
(* C22 *)
TrQuery ==
    /\ IsEvent("Query")
    /\ Ev.err = ""
    /\ LET rows == RowsOf(Ev.cols, Ev.rows)
       \* (an empty result may come with the header of an inner query: only rows are compared)
       IN /\ Len(Ev.rows) > 0 => Range(Ev.cols) = Cols(Ev.ast, db)
          /\ NoDups(rows)
          /\ Range(rows) = Denote(Ev.ast, db)
    /\ UNCHANGED <<db, base, req, hcols, qkeys, selon, sel, known, seq, st, pos>>

-----------------------------------------------------------------------------
(* C23 *)
TrOpen ==
    /\ IsEvent("Open")
    /\ Ev.err = ""
    /\ LET B == Denote(Ev.ast, db)
       IN /\ B # {} => Range(Ev.cols) = Cols(Ev.ast, db)   \* (empty result: header of an inner query possible)
          /\ KeysOK(Ev.keys, B, Cols(Ev.ast, db))
          /\ FixedOK(Ev.fixed, B)
          /\ base' = B
    /\ req' = [use |-> Ev.use, cols |-> Ev.ocols, rev |-> Ev.rev]
    /\ hcols' = Ev.cols
    /\ qkeys' = Ev.keys
    /\ selon' = FALSE /\ sel' = <<>> /\ known' = FALSE /\ seq' = <<>>
    /\ st' = "rewound" /\ pos' = 0
    /\ UNCHANGED db

OrderOK(s) ==
    CASE req.use \in {"order", "sort"} -> IsOrdered(s, req.cols, req.rev)
      [] req.use = "group" -> IsGrouped(s, Range(req.cols))
      [] OTHER -> TRUE

TrSeq ==
    /\ IsEvent("Seq")
    /\ LET s == RowsOf(hcols, Ev.rows)
       IN /\ NoDups(s)
          /\ IF selon THEN SelectOK(Range(s), base, sel, Range(req.cols))
                      ELSE Range(s) = base
          /\ OrderOK(s)
          /\ seq' = s
    /\ known' = TRUE
    /\ UNCHANGED <<db, base, req, hcols, qkeys, selon, sel, st, pos>>

TrRewind ==
    /\ IsEvent("Rewind")
    /\ st' = "rewound" /\ pos' = 0
    /\ UNCHANGED <<db, base, req, hcols, qkeys, selon, sel, known, seq>>

TrGet ==
    /\ IsEvent("Get")
    /\ Ev.err = ""
    /\ known
    /\ LET nx == CursorNext(st, pos, Len(seq), Ev.dir)
       IN /\ IF nx.ret = 0 THEN ~Ev.has
             ELSE Ev.has /\ RowOf(hcols, Ev.row) = seq[nx.ret]
          /\ st' = nx.st /\ pos' = nx.pos
    /\ UNCHANGED <<db, base, req, hcols, qkeys, selon, sel, known, seq>>

\* Select(sels) restricts and rewinds; Select(nil) (clear) removes the restriction
TrSelect ==
    /\ IsEvent("Select")
    /\ Ev.err = ""
    /\ req.use \in {"order", "group"}
    /\ selon' = ~Ev.clear
    /\ sel' = Ev.sels
    /\ known' = FALSE /\ seq' = <<>>
    /\ st' = "rewound" /\ pos' = 0
    /\ UNCHANGED <<db, base, req, hcols, qkeys>>

\* Lookup returns the matching row or nothing, and rewinds
TrLookup ==
    /\ IsEvent("Lookup")
    /\ Ev.err = ""
    /\ req.use = "unique"
    /\ LookupOK(Ev.has, IF Ev.has THEN RowOf(hcols, Ev.row) ELSE <<>>, base, Ev.sels, qkeys)
    /\ st' = "rewound" /\ pos' = 0
    /\ UNCHANGED <<db, base, req, hcols, qkeys, selon, sel, known, seq>>

-----------------------------------------------------------------------------
(* C24 *)
TrAction ==
    /\ IsEvent("Action")
    /\ LET T == db[Ev.table].rows
           TC == db[Ev.table].cols
           after == DbOf(Ev.after)
           Ok(newT, n) == /\ Ev.err = "" /\ Ev.n = n
                          /\ after = [db EXCEPT ![Ev.table] = [cols |-> TC, rows |-> newT]]
           \* a failed statement leaves everything unchanged (rolled: it ran inside a larger
           \* transaction which is now aborted as a whole; the driver restarts the model)
           Failed == Ev.err # "" /\ (Ev.rolled \/ after = db)
       IN /\ CASE Ev.kind = "insert" ->
                    LET rec == Pad(RowOf(Ev.rcols, Ev.rvals), TC)
                    IN IF rec \notin T /\ KeyUnique(T \cup {rec}, Ev.keys)
                       THEN Ok(T \cup {rec}, 1) ELSE Failed
               [] Ev.kind = "insertq" ->
                    LET S == Denote(Ev.ast, db)
                        recs == {Pad(Restrict(r, TC \cap DOMAIN r), TC) : r \in S}
                    IN IF /\ Cardinality(recs) = Cardinality(S)
                          /\ recs \cap T = {}
                          /\ KeyUnique(T \cup recs, Ev.keys)
                       THEN Ok(T \cup recs, Cardinality(S)) ELSE Failed
               [] Ev.kind = "update" ->
                    LET S == Denote(Ev.ast, db)
                        sl == Selected(T, S, TC)
                        new == {UpdateRow(r, Ev.set) : r \in sl}
                        newT == (T \ sl) \cup new
                        finalOK == /\ Cardinality(new) = Cardinality(sl)
                                   /\ new \cap (T \ sl) = {}
                                   /\ KeyUnique(newT, Ev.keys)
                        \* rows are updated one at a time: an error is also acceptable when a new
                        \* key value collides with the OLD key value of another selected row
                        transient == \E r1, r2 \in sl : r1 # r2 /\ \E i \in 1..Len(Ev.keys) :
                                        SameOn(UpdateRow(r1, Ev.set), r2, Range(Ev.keys[i]))
                    IN /\ Cardinality(sl) = Cardinality(S)
                       /\ IF ~finalOK THEN Failed
                          ELSE IF transient THEN Failed \/ Ok(newT, Cardinality(S))
                          ELSE Ok(newT, Cardinality(S))
               [] Ev.kind = "delete" ->
                    LET S == Denote(Ev.ast, db)
                        sl == Selected(T, S, TC)
                    IN /\ Cardinality(sl) = Cardinality(S)
                       /\ Ok(T \ sl, Cardinality(S))
          /\ db' = after
    /\ UNCHANGED cvars

TraceNext == TrReset \/ TrDb \/ TrQuery \/ TrOpen \/ TrSeq \/ TrRewind \/ TrGet
             \/ TrSelect \/ TrLookup \/ TrAction

TraceSpec == TraceInit /\ [][TraceNext]_tvars

HW == HWMark(l)
=============================================================================
