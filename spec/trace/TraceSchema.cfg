SPECIFICATION TraceSpec
CONSTANTS
  SysTables = {"tables", "columns", "indexes", "views"}
  BkExact = FALSE
  DevF9 = FALSE
  DevIIdxAll = FALSE
  DevCreateStale = FALSE
  AsIs = FALSE
CONSTRAINT HW
POSTCONDITION Accepted
CHECK_DEADLOCK FALSE
