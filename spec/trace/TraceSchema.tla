----------------------------- MODULE TraceSchema -----------------------------
(* Trace validation for C21.  Every line is one request the driver sent to    *)
(* the REAL query.DoAdmin (or a row it stored, op "Ins") together with the    *)
(* outcome class and the state the real code reported afterwards:             *)
(*   req    the request, in the shape Schema!Results expects                   *)
(*   ok     TRUE = DoAdmin returned, FALSE = it panicked (error)              *)
(*   sch    projection of GetRoSchema of every table: live columns; per index *)
(*          mode, columns, BestKey, Fk (table, columns, mode, IIndex 1-based), *)
(*          the FkToHere list, and rows = a scan of the index                 *)
(*   views  name and definition of every view                                 *)
(*   reok, resame  the Schema text of every table was re-parsed into a second, *)
(*          fresh database (loader path, reopen) and its projection equals    *)
(*          sch (BestKey aside: the loader recomputes it); re = that          *)
(*          projection when it differs (for the reader of a replay)           *)
(* A line is explained iff Schema!Results allows the outcome and              *)
(*   - the reported schema equals the model's (links as they must be:         *)
(*     Normalize), for an error outcome that is the unchanged state;          *)
(*   - the properties hold on the REPORTED state (Consistent: every table has  *)
(*     a key, index columns exist, Fk <-> FkToHere agree incl. IIndex and     *)
(*     self references, no FkToHere entry twice);                             *)
(*   - every index scan returns exactly the model's rows, in index order;     *)
(*   - the re-parsed schema equals the reported one (BestKey aside: the       *)
(*     loader recomputes it).                                                 *)
(* AsIs = TRUE (with a deviation constant of Schema) is used by the check to  *)
(* classify a rejection: stored links are compared as the deviating code      *)
(* leaves them and the consistency / re-parse conditions are dropped.         *)
EXTENDS TraceBase, Schema

CONSTANT AsIs

VARIABLE l
tvars == <<l, sch, views, data>>

Ev == Log[l]

IsEvent(e) == l <= NLog /\ Ev.e = e /\ l' = l + 1

LFk(x) == [tbl |-> x.tbl, cols |-> x.cols, mode |-> x.mode, iidx |-> x.iidx]
LIdx(x) == [mode |-> x.mode, cols |-> x.cols, bk |-> x.bk, fk |-> LFk(x.fk),
            fth |-> {LFk(x.fth[k]) : k \in 1..Len(x.fth)}]
\* the logged list of tables as a schema function
LSch(a) == [t \in {a[i].t : i \in 1..Len(a)} |->
              LET e == a[CHOOSE i \in 1..Len(a) : a[i].t = t] IN
              [cols |-> e.cols, idxs |-> [i \in 1..Len(e.idxs) |-> LIdx(e.idxs[i])]]]
LViews(a) == [v \in {a[i].n : i \in 1..Len(a)} |-> a[CHOOSE i \in 1..Len(a) : a[i].n = v].d]

NoDupNames(a) == \A i, j \in 1..Len(a) : i # j => a[i].t # a[j].t
\* no FkToHere entry twice
NoDupFth(a) == \A i \in 1..Len(a) : \A j \in 1..Len(a[i].idxs) :
                  LET f == a[i].idxs[j].fth IN
                  Cardinality({LFk(f[k]) : k \in 1..Len(f)}) = Len(f)

\* lexicographic <= on integer sequences of equal length
LexLE(a, b) == \/ a = b
               \/ \E i \in 1..Len(a) : a[i] < b[i] /\ \A j \in 1..(i - 1) : a[j] = b[j]

\* data read through every index is unchanged: every scan yields exactly the
\* model's rows, once each, ordered by the index columns
ScansOK(d, a) ==
    \A i \in 1..Len(a) : \A j \in 1..Len(a[i].idxs) :
        LET e == a[i]
            x == e.idxs[j]
            P(row) == [k \in 1..Len(x.cols) |-> row[Pos(e.cols, x.cols[k])]]
        IN /\ x.sok
           /\ {x.rows[k] : k \in 1..Len(x.rows)} = d[e.t]
           /\ Len(x.rows) = Cardinality(d[e.t])
           /\ \A k \in 1..(Len(x.rows) - 1) : LexLE(P(x.rows[k]), P(x.rows[k + 1]))

TraceInit == HWInit /\ l = 1 /\ Init

TrReset == /\ IsEvent("Reset")
           /\ sch' = EmptyFn /\ views' = EmptyFn /\ data' = EmptyFn

TrReq ==
    /\ IsEvent("Req")
    /\ NoDupNames(Ev.sch)
    /\ LET lsch == LSch(Ev.sch) IN
       \E res \in Results(St, Ev.req) :
          /\ res.ok = Ev.ok
          /\ lsch = (IF AsIs THEN res.st.sch ELSE Normalize(res.st.sch))
          /\ LViews(Ev.views) = res.st.views
          /\ NoDupFth(Ev.sch)
          /\ AsIs \/ Consistent(lsch)
          /\ DataShape(lsch, res.st.data)
          /\ ScansOK(res.st.data, Ev.sch)
          /\ AsIs \/ (Ev.reok /\ Ev.resame)
          /\ sch' = lsch /\ views' = res.st.views /\ data' = res.st.data

\* the driver stored a row (or was refused): the next request reports the rows
TrIns ==
    /\ IsEvent("Ins")
    /\ \E res \in Results(St, Ev.req) :
          /\ res.ok = Ev.ok
          /\ sch' = res.st.sch /\ views' = res.st.views /\ data' = res.st.data

TraceNext == TrReset \/ TrReq \/ TrIns

TraceSpec == TraceInit /\ [][TraceNext]_tvars

HW == HWMark(l)
=============================================================================
