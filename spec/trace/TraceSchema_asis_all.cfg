SPECIFICATION TraceSpec
CONSTANTS
  SysTables = {"tables", "columns", "indexes", "views"}
  BkExact = FALSE
  DevF9 = TRUE
  DevIIdxAll = TRUE
  DevCreateStale = TRUE
  AsIs = TRUE
CONSTRAINT HW
POSTCONDITION Accepted
CHECK_DEADLOCK FALSE
