SPECIFICATION TraceSpec
CONSTANTS
  SysTables = {"tables", "columns", "indexes", "views"}
  BkExact = FALSE
  DevF9 = FALSE
  DevIIdxAll = TRUE
  DevCreateStale = FALSE
  AsIs = TRUE
CONSTRAINT HW
POSTCONDITION Accepted
CHECK_DEADLOCK FALSE
