SPECIFICATION TraceSpec
CONSTANTS
  SysTables = {"tables", "columns", "indexes", "views"}
  BkExact = FALSE
  DevF9 = TRUE
  DevIIdxAll = FALSE
  DevCreateStale = FALSE
  AsIs = TRUE
CONSTRAINT HW
POSTCONDITION Accepted
CHECK_DEADLOCK FALSE
