SPECIFICATION TraceSpec
CONSTRAINT HW
POSTCONDITION Accepted
INVARIANTS TokensOnlyToAuthorized AuthorizedByCredential
CHECK_DEADLOCK FALSE
