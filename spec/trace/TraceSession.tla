----------------------------- MODULE TraceSession -----------------------------
(* Trace validation for C41.  The driver (harness/cmd/session) runs the REAL  *)
(* server command table over an in-memory pipe: protocol-level clients send   *)
(* every command code with generated arguments while unauthorised, mixed with *)
(* a legitimate client (real DbmsClient).  Each Req event carries the request *)
(* (connection, command, credential descriptor, kill targets), the response   *)
(* class/result, the digest of the logical database after it and digests of   *)
(* the OTHER connections' session lists before/after it.                      *)
(* Every event must be a step of Session.tla (same Request/Connect/Expire     *)
(* actions as the exhaustive model), with the intended design: Bypass = {}.   *)
EXTENDS TraceBase, FiniteSets

TConns == 1..3

VARIABLES l, authorized, alive, nonce, nonceOld, usedNonces, live, oldTok, usedTokens,
          issuedAuth, how, db, nreq, last

S == INSTANCE Session WITH Conns <- TConns, MaxReq <- 0, MaxId <- 0, MaxDb <- 0,
                           Bypass <- {}, AnyHash <- FALSE, Knows <- {}

tvars == <<l, authorized, alive, nonce, nonceOld, usedNonces, live, oldTok, usedTokens,
           issuedAuth, how, db, nreq, last>>

Ev == Log[l]
IsEvent(e) == l <= NLog /\ Ev.e = e /\ l' = l + 1
SeqRange(s) == {s[i] : i \in 1..Len(s)}

\* before the first Connect nothing is connected
Fresh(d) ==
    /\ authorized = [c \in TConns |-> FALSE]
    /\ alive = [c \in TConns |-> FALSE]
    /\ nonce = [c \in TConns |-> 0]
    /\ nonceOld = [c \in TConns |-> FALSE]
    /\ usedNonces = {} /\ live = {} /\ oldTok = {} /\ usedTokens = {} /\ issuedAuth = {}
    /\ how = [c \in TConns |-> <<"none">>]
    /\ db = d /\ nreq = 0 /\ last = S!NoReq

FreshNext(d) ==
    /\ authorized' = [c \in TConns |-> FALSE]
    /\ alive' = [c \in TConns |-> FALSE]
    /\ nonce' = [c \in TConns |-> 0]
    /\ nonceOld' = [c \in TConns |-> FALSE]
    /\ usedNonces' = {} /\ live' = {} /\ oldTok' = {} /\ usedTokens' = {} /\ issuedAuth' = {}
    /\ how' = [c \in TConns |-> <<"none">>]
    /\ db' = d /\ nreq' = 0 /\ last' = S!NoReq

TraceInit == HWInit /\ l = 1 /\ Fresh(0)

TrReset == IsEvent("Reset") /\ FreshNext(0)
TrStart == IsEvent("Start") /\ FreshNext(Ev.db)

TrConnect == IsEvent("Connect") /\ Ev.c \in TConns /\ S!Connect(Ev.c)

TrDisconnect == IsEvent("Disconnect") /\ Ev.c \in TConns /\ S!Disconnect(Ev.c)

TrExpire == IsEvent("Expire") /\ S!Expire

Arg  == [cred |-> Ev.cred, target |-> SeqRange(Ev.target)]
Resp == [cls |-> Ev.cls, res |-> Ev.res, db |-> Ev.db]

\* observations every request must satisfy in addition to the model step:
\* the database digest after the request is the model's data version (so it did not
\* change unless the model allowed it: only authorised connections change data), and a
\* connection that is not authorised leaves the other connections' sessions alone
Observed ==
    /\ db' = Ev.db
    /\ (~authorized[Ev.c] => Ev.oth1 = Ev.oth0)

TrReq ==
    /\ IsEvent("Req")
    /\ Ev.c \in TConns
    /\ S!Request(Ev.c, Ev.cmd, Arg, Resp)
    /\ Observed

\* A malformed request (truncated / trailing bytes / random bytes) that passes the
\* authorisation test and is answered with an error may have been executed or not
\* before the error was detected (the server checks for unread bytes after running
\* the command).  Both are allowed here; later requests tell which one happened.
\* Requests that do NOT pass the authorisation test get no such latitude.
TrReqGarbled ==
    /\ IsEvent("Req")
    /\ Ev.garbled /\ Ev.cls = "err"
    /\ Ev.c \in TConns /\ alive[Ev.c]
    /\ Ev.cmd \in {"Auth", "Nonce", "Token", "Kill"}
    /\ authorized[Ev.c] \/ Ev.cmd \in S!AllowedUnauth
    /\ nreq' = nreq + 1
    /\ last' = [req |-> TRUE, c |-> Ev.c, allowed |-> (Ev.cmd \in S!AllowedUnauth),
                was |-> authorized[Ev.c], cls |-> Ev.cls]
    /\ \/ S!NoEffect
       \/ Ev.cmd = "Auth" /\ ~authorized[Ev.c] /\ \E ok \in BOOLEAN : S!AuthEffect(Ev.c, Ev.cred, ok)
       \/ /\ Ev.cmd = "Nonce"       \* a nonce the client never saw replaces the old one
          /\ nonce' = [nonce EXCEPT ![Ev.c] = 0]
          /\ nonceOld' = [nonceOld EXCEPT ![Ev.c] = FALSE]
          /\ UNCHANGED <<authorized, alive, usedNonces, live, oldTok, usedTokens, issuedAuth, how, db>>
       \/ Ev.cmd = "Kill" /\ authorized[Ev.c] /\ S!KillEffect(SeqRange(Ev.target))
    /\ Observed

TraceNext == TrReset \/ TrStart \/ TrConnect \/ TrDisconnect \/ TrExpire \/ TrReq \/ TrReqGarbled

TraceSpec == TraceInit /\ [][TraceNext]_tvars

HW == HWMark(l)

\* the invariants of Session.tla, evaluated on every reconstructed state
TokensOnlyToAuthorized == S!TokensOnlyToAuthorized
AuthorizedByCredential ==
    \A c \in TConns : authorized[c] =>
        \/ how[c][1] = "pw"
        \/ how[c][1] = "tok" /\ how[c][2] \in issuedAuth
=============================================================================
