------------------------------ MODULE TraceStor ------------------------------
(* Trace validation for C18 (db19/stor Stor.Alloc/extend), traces written by  *)
(* harness/cmd/stor.                                                          *)
(*                                                                            *)
(* Property level (Conform = FALSE, the verdict): every range the REAL Alloc  *)
(* returned (Alloc in execution order for gated scenarios, Ret sorted by      *)
(* offset for the free-running stress) has the requested length, does not     *)
(* straddle a chunk, lies within the storage size read right after the return *)
(* and within the final size, and is disjoint from every other returned range;*)
(* the bytes of every returned slice were still intact at the end (Done.bad); *)
(* a panic of Alloc (Fail) is the "fails loudly" outcome and is accepted; a   *)
(* Stall is not.                                                              *)
(*                                                                            *)
(* Model conformance (Conform = TRUE, gated scenarios only; a rejection here  *)
(* is NOT a verdict about the property, it says that stor.go no longer follows*)
(* Stor.tla): every gate release is the step of Stor.tla that the label names,*)
(* and results, failures and sizes equal the model's.                         *)
EXTENDS TraceBase, Integers, FiniteSets

CONSTANT Conform

VARIABLES l, chunk, got, hi,
          nres,   \* results (Alloc/Fail) consumed in this scenario
          conf,   \* model conformance is checked for this scenario (Conform, gated, and the
                  \* scenario's chunk size is the one Stor is instantiated with = Log[1].chunk)
          pc, size, nchunks, allocChunk, lock, allocs, fails, n, ac, newsize, nch, tries, todo

MaxProcs == 8
S == INSTANCE Stor WITH Procs <- 1..MaxProcs, ChunkSize <- Log[1].chunk,
                        Sizes <- 1..Log[1].chunk, NAllocs <- 1000000,
                        InitSizes <- 0..Log[1].chunk, MaxRetries <- 3, Dev <- "none"

svars == <<pc, size, nchunks, allocChunk, lock, allocs, fails, n, ac, newsize, nch, tries, todo>>
tvars == <<l, chunk, got, hi, nres, conf, svars>>

Ev == Log[l]
IsEvent(e) == l <= NLog /\ Ev.e = e /\ l' = l + 1

\* Stor!Init with the given size, as a next-state relation (Start re-initialises)
ModelInit(sz) ==
    /\ size' = sz
    /\ nchunks' = S!NChunksFor(sz)
    /\ allocChunk' = S!NChunksFor(sz) - 1
    /\ lock' = FALSE /\ allocs' = {} /\ fails' = {}
    /\ n' = [p \in 1..MaxProcs |-> 0] /\ ac' = [p \in 1..MaxProcs |-> 0]
    /\ newsize' = [p \in 1..MaxProcs |-> 0] /\ nch' = [p \in 1..MaxProcs |-> 0]
    /\ tries' = [p \in 1..MaxProcs |-> 0] /\ todo' = [p \in 1..MaxProcs |-> 1000000]
    /\ pc' = [p \in 1..MaxProcs |-> "enter"]

TraceInit ==
    /\ HWInit /\ l = 1 /\ chunk = 1 /\ got = {} /\ hi = 0 /\ nres = 0 /\ conf = FALSE
    /\ S!Init /\ size = 0

TrReset == IsEvent("Reset") /\ UNCHANGED <<chunk, got, hi, nres, conf, svars>>

TrStart ==
    /\ IsEvent("Start")
    /\ Ev.chunk >= 1
    /\ chunk' = Ev.chunk /\ got' = {} /\ hi' = 0 /\ nres' = 0
    /\ conf' = (Conform /\ Ev.mode = "gated" /\ Ev.chunk = Log[1].chunk /\ Ev.procs <= MaxProcs)
    /\ IF conf' THEN ModelInit(Ev.init) ELSE UNCHANGED svars

\* one gate release = one atomic operation of goroutine p
TrStep ==
    /\ IsEvent("Step")
    /\ UNCHANGED <<chunk, got, hi, nres, conf>>
    /\ IF ~conf THEN UNCHANGED svars
       ELSE /\ pc[Ev.p] = Ev.at                       \* parked exactly where the model is
            /\ IF Ev.at = "enter" /\ Ev.n = 0
               THEN UNCHANGED svars                    \* the goroutine has no more work
               ELSE /\ S!a(Ev.p)
                    /\ (Ev.at = "enter" => n'[Ev.p] = Ev.n)

RangeOK(off, len, sizeThen) ==
    /\ len >= 1
    /\ ~S!Straddles(off, len, chunk)
    /\ S!Within(off, len, sizeThen)

\* gated scenarios: results in execution order, compared with all earlier ones
TrAlloc ==
    /\ IsEvent("Alloc")
    /\ Ev.len = Ev.n
    /\ RangeOK(Ev.off, Ev.len, Ev.size)
    /\ \A g \in got : ~S!Overlap(Ev.off, Ev.len, g.off, g.n)
    /\ got' = got \cup {[off |-> Ev.off, n |-> Ev.len]}
    /\ nres' = nres + 1
    /\ conf =>
         /\ nres' = Cardinality(allocs) + Cardinality(fails)
         /\ \E x \in allocs : x.p = Ev.p /\ x.off = Ev.off /\ x.n = Ev.n
         /\ Ev.size = size
    /\ UNCHANGED <<chunk, hi, conf, svars>>

\* loud failure (panic): allowed by the property
TrFail ==
    /\ IsEvent("Fail")
    /\ nres' = nres + 1
    /\ conf =>
         /\ nres' = Cardinality(allocs) + Cardinality(fails)
         /\ \E f \in fails : f.p = Ev.p /\ f.why = "retries"
    /\ UNCHANGED <<chunk, got, hi, conf, svars>>

\* free-running stress: results sorted by offset, so disjointness from ALL other
\* ranges is "starts at or after the highest end so far"
TrRet ==
    /\ IsEvent("Ret")
    /\ Ev.len = Ev.n
    /\ RangeOK(Ev.off, Ev.len, Ev.size)
    /\ Ev.off >= hi
    /\ hi' = Ev.off + Ev.len
    /\ UNCHANGED <<chunk, got, nres, conf, svars>>

TrDone ==
    /\ IsEvent("Done")
    /\ \A g \in got : S!Within(g.off, g.n, Ev.size)
    /\ hi <= Ev.size
    /\ Ev.bad = 0                                  \* every returned slice intact and = Data(off)
    /\ conf => Ev.size = size
    /\ UNCHANGED <<chunk, got, hi, nres, conf, svars>>

\* "Stall" (an Alloc that neither returned nor failed, reproduced) has no action

TraceNext == TrReset \/ TrStart \/ TrStep \/ TrAlloc \/ TrFail \/ TrRet \/ TrDone
TraceSpec == TraceInit /\ [][TraceNext]_tvars
HW == HWMark(l)
=============================================================================
