SPECIFICATION TraceSpec
CONSTANT Conform = FALSE
CONSTRAINT HW
POSTCONDITION Accepted
CHECK_DEADLOCK FALSE
