--------------------------- MODULE TraceTimestamp ---------------------------
(* Trace validation for C34, traces written by harness/cmd/timestamp.        *)
(*                                                                            *)
(* The trace has two parts. Part 1: hook events in linearisation order (Srv = *)
(* db19.Timestamp under the server's tsLock, Tick = ticker under the same     *)
(* lock, Cl = Thread.Timestamp's batch state under the client's tsLock, ClNew *)
(* = the harness installed a fresh client state). Part 2 (after Sorted):      *)
(* every value (ms, extra) every caller received from the REAL functions,     *)
(* sorted by value, with the caller's own sequence number k and the result    *)
(* cmp of the real Compare(previous value of that caller, this value).        *)
(*                                                                            *)
(* Property level (Conform = FALSE, the verdict), part 2 only:                *)
(*   - all values handed out during the server's lifetime are distinct: in    *)
(*     sorted order each value is strictly above the previous one;            *)
(*   - each caller's values strictly increase: in ascending value order the   *)
(*     caller's sequence numbers ascend, and the real Compare agreed (-1).    *)
(* Model conformance (Conform = TRUE; a rejection is NOT a verdict about the  *)
(* property): part 1 is replayed through Timestamp.tla's server/client        *)
(* operators (Tick events are explicit; client expiry is a silent step that   *)
(* only ever forces the slow path).                                           *)
EXTENDS TraceBase, Integers, FiniteSets

CONSTANT Conform

VARIABLES l,
          prev,       \* part 2: previous value in sorted order
          lastK,      \* part 2: caller -> last sequence number seen
          ngot,
          unclaimed,  \* part 1: server values not yet attributed to a client fetch
          ts, cl, issued, lastOf, dup, nonmono, nops      \* Timestamp.tla

MaxSlot == 16
T == INSTANCE Timestamp WITH Clients <- 0..MaxSlot, Directs <- {}, Batch <- Log[1].batch,
                             Threshold <- Log[1].threshold, ExtraLimit <- 256, ByteMod <- 256,
                             StartSet <- {0}, TickTargets <- {}, MaxOps <- 0, Dev <- "none"

mvars == <<ts, cl, issued, lastOf, dup, nonmono, nops>>
hvars == <<issued, lastOf, dup, nonmono, nops>>
tvars == <<l, prev, lastK, ngot, unclaimed, mvars>>

Ev == Log[l]
IsEvent(e) == l <= NLog /\ Ev.e = e /\ l' = l + 1

ZeroClient == [last |-> 0, count |-> 0, limit |-> 0]

TraceInit ==
    /\ HWInit /\ l = 1
    /\ prev = T!None /\ lastK = <<>> /\ ngot = 0 /\ unclaimed = {}
    /\ ts = -1 /\ cl = [c \in 0..MaxSlot |-> ZeroClient]
    /\ issued = {} /\ lastOf = <<>> /\ dup = FALSE /\ nonmono = FALSE /\ nops = 0

\* a new server lifetime
TrStart ==
    /\ IsEvent("Start")
    /\ prev' = T!None /\ lastK' = <<>> /\ ngot' = 0 /\ unclaimed' = {}
    /\ ts' = -1 /\ cl' = [c \in 0..MaxSlot |-> ZeroClient]
    /\ UNCHANGED hvars
TrReset == IsEvent("Reset") /\ UNCHANGED <<prev, lastK, ngot, unclaimed, mvars>>

\* ---- part 1 (model conformance only)
TrSrv ==
    /\ IsEvent("Srv")
    /\ UNCHANGED <<prev, lastK, ngot, cl, hvars>>
    /\ IF ~Conform THEN UNCHANGED <<ts, unclaimed>>
       ELSE /\ (ts = -1 \/ Ev.ms = ts)               \* the first one fixes the start value
            /\ Ev.next = T!SrvNext(Ev.ms)
            /\ ts' = Ev.next
            /\ unclaimed' = unclaimed \cup {Ev.ms}

TrTick ==
    /\ IsEvent("Tick")
    /\ UNCHANGED <<prev, lastK, ngot, cl, unclaimed, hvars>>
    /\ IF ~Conform \/ ts = -1 THEN UNCHANGED ts
       ELSE /\ Ev.t % 1000 = 0
            /\ ts' = (IF Ev.t > ts THEN Ev.t ELSE ts)   \* = Timestamp!Tick(Ev.t)
            /\ ts' = Ev.ms

TrClNew ==
    /\ IsEvent("ClNew")
    /\ UNCHANGED <<prev, lastK, ngot, ts, unclaimed, hvars>>
    /\ cl' = [cl EXCEPT ![Ev.c] = ZeroClient]

TrCl ==
    /\ IsEvent("Cl")
    /\ UNCHANGED <<prev, lastK, ngot, ts, hvars>>
    /\ IF ~Conform THEN UNCHANGED <<cl, unclaimed>>
       ELSE LET s == cl[Ev.c]
                new == [last |-> Ev.last, count |-> Ev.count, limit |-> Ev.limit] IN
            \/ /\ T!ClFast(s)                          \* fast path within the batch
               /\ new = T!ClFastState(s)
               /\ cl' = [cl EXCEPT ![Ev.c] = new]
               /\ UNCHANGED unclaimed
            \/ /\ Ev.last \in unclaimed                \* slow path (always allowed: expiry)
               /\ new = T!ClSlowState(Ev.last)
               /\ cl' = [cl EXCEPT ![Ev.c] = new]
               /\ unclaimed' = {v \in unclaimed : v > Ev.last}

\* ---- part 2 (the property)
TrSorted ==
    /\ IsEvent("Sorted")
    /\ prev' = T!None /\ lastK' = <<>> /\ ngot' = 0
    /\ UNCHANGED <<unclaimed, mvars>>

TrGot ==
    /\ IsEvent("Got")
    /\ LET v == <<Ev.ms, Ev.x>> IN
        /\ Ev.ms >= 0 /\ Ev.x >= 0
        /\ T!Less(prev, v)                              \* distinct from every other value
        /\ prev' = v
    /\ IF Ev.c \in DOMAIN lastK
       THEN Ev.k > lastK[Ev.c] /\ Ev.cmp = -1           \* this caller's values increase
       ELSE TRUE
    /\ lastK' = (Ev.c :> Ev.k) @@ lastK
    /\ ngot' = ngot + 1
    /\ UNCHANGED <<unclaimed, mvars>>

TrDone ==
    /\ IsEvent("Done")
    /\ Ev.n = ngot
    /\ UNCHANGED <<prev, lastK, ngot, unclaimed, mvars>>

TraceNext == TrStart \/ TrReset \/ TrSrv \/ TrTick \/ TrClNew \/ TrCl \/ TrSorted \/ TrGot \/ TrDone
TraceSpec == TraceInit /\ [][TraceNext]_tvars
HW == HWMark(l)
=============================================================================
