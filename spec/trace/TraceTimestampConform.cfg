SPECIFICATION TraceSpec
CONSTANT Conform = TRUE
CONSTRAINT HW
POSTCONDITION Accepted
CHECK_DEADLOCK FALSE
