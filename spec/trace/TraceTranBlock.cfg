SPECIFICATION TraceSpec
CONSTANTS
  Keys = {0}
  MaxSteps = 0
  MaxProgs = 0
  Dev = "none"
CONSTRAINT HW
POSTCONDITION Accepted
CHECK_DEADLOCK FALSE
