--------------------------- MODULE TraceTranBlock ---------------------------
(* Trace validation for C42. harness/cmd/tranblock renders block bodies to    *)
(* Suneido source, runs them in the real interpreter against a heap database  *)
(* and logs per program:                                                      *)
(*   Begin                      the program (source text for the reader)      *)
(*   Step kind k ok             each step that was executed; ok = 0: the step *)
(*                              threw (it is then the last one)               *)
(*   End term reached exc ret db  terminator, whether it was reached, class   *)
(*                              of the exception that came out of the         *)
(*                              function, its result, table contents          *)
(* The model is advanced by the actions of TranBlock.tla. It decides whether  *)
(* a step throws (use of an explicitly ended transaction) and what the        *)
(* database contains afterwards; both must agree with the log, as must the    *)
(* exception class. "Seed" sets the initial table contents of a database.     *)
EXTENDS TraceBase, Integers, FiniteSets

CONSTANTS Keys, MaxSteps, MaxProgs, Dev
VARIABLES l, db, status, pend, thrown, explicit, nsteps, nprogs, out

T == INSTANCE TranBlock

tvars == <<l, db, status, pend, thrown, explicit, nsteps, nprogs, out>>
Ev == Log[l]

TraceInit == HWInit /\ l = 1 /\ T!Init
IsEvent(e) == l <= NLog /\ Ev.e = e /\ l' = l + 1
SeqToSet(s) == {s[i] : i \in 1..Len(s)}

TrReset == /\ IsEvent("Reset")
           /\ db' = {} /\ status' = "idle" /\ pend' = {} /\ thrown' = "none" /\ explicit' = "none"
           /\ nsteps' = 0 /\ nprogs' = 0 /\ out' = [exc |-> "none", db |-> {}, term |-> "-"]

TrSeed == /\ IsEvent("Seed") /\ status = "idle"
          /\ db' = SeqToSet(Ev.db)
          /\ UNCHANGED <<status, pend, thrown, explicit, nsteps, nprogs, out>>

TrBegin == IsEvent("Begin") /\ T!Begin

\* the model and the real execution agree on whether the step threw
StepOK == (Ev.ok = 1) = (thrown' = "none")

TrStep == /\ IsEvent("Step")
          /\ \/ Ev.kind = "W" /\ T!StepW(Ev.k)
             \/ Ev.kind = "D" /\ T!StepD(Ev.k)
             \/ Ev.kind = "C" /\ T!StepC
             \/ Ev.kind = "R" /\ T!StepR
          /\ StepOK

TrEnd == /\ IsEvent("End")
         /\ \/ Ev.reached = 1 /\ Ev.term \in T!Terms /\ T!End(Ev.term)
            \/ Ev.reached = 0 /\ T!Abandon
         /\ Ev.exc = out'.exc                          \* the exception propagates (or none)
         /\ SeqToSet(Ev.db) = db'                      \* committed exactly when the rule says
         /\ Cardinality(SeqToSet(Ev.db)) = Len(Ev.db)
         \* returning from the enclosing function really returns from it
         /\ (Ev.exc = "none" /\ Ev.term \in {"return", "returnNested"}) => Ev.ret = 5
         /\ (Ev.exc = "none" /\ Ev.term = "end") => Ev.ret = 177

TraceNext == TrReset \/ TrSeed \/ TrBegin \/ TrStep \/ TrEnd
TraceSpec == TraceInit /\ [][TraceNext]_tvars
HW == HWMark(l)
=============================================================================
