SPECIFICATION TraceSpec
CONSTANTS
  NoLib = "-"
  Tables = {"t1", "t2", "t3"}
  Libs = {"stdlib", "applib", "extlib"}
  StdLib = "stdlib"
  MaxKey = 4
CONSTRAINT HW
POSTCONDITION Accepted
CHECK_DEADLOCK FALSE
