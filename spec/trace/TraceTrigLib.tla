---------------------------- MODULE TraceTrigLib ----------------------------
(* Trace validation for C44, library-defined triggers: replays the ndjson     *)
(* log of harness/cmd/triglib (REAL db19 / core.Global / dbms library lookup  *)
(* / Use / Unuse / Unload) through the rules of TrigLibRules.tla, the same    *)
(* operators the design model TrigLib.tla is checked against.                 *)
(* The model keeps what is observable from outside: the library records, the  *)
(* libraries in use, the disable counts, the table contents, and `held` =     *)
(* which definitions may legitimately still be cached.  The cache of the      *)
(* implementation itself is NOT assumed: every Row event must carry exactly   *)
(* the trigger calls the rules allow (RowOK), with the row change's own       *)
(* table, key, old and new value, made inside the changing transaction.       *)
EXTENDS TraceBase, TrigLibRules

CONSTANTS Tables, Libs, StdLib, MaxKey

VARIABLES l, recs, libs, disabled, held, rows, maxver

tvars == <<l, recs, libs, disabled, held, rows, maxver>>

Ev == Log[l]

Init0 == /\ recs = [p \in Libs \X Tables |-> 0]
         /\ libs = <<StdLib>>
         /\ disabled = [t \in Tables |-> 0]
         /\ held = NoHeld(Tables)
         /\ rows = [t \in Tables |-> [k \in 1..MaxKey |-> 0]]

TraceInit == HWInit /\ l = 1 /\ maxver = 0 /\ Init0

IsEvent(e) == l <= NLog /\ Ev.e = e /\ l' = l + 1

TrReset == /\ IsEvent("Reset")
           /\ recs' = [p \in Libs \X Tables |-> 0]
           /\ libs' = <<StdLib>>
           /\ disabled' = [t \in Tables |-> 0]
           /\ held' = NoHeld(Tables)
           /\ rows' = [t \in Tables |-> [k \in 1..MaxKey |-> 0]]
           /\ UNCHANGED maxver

AfterEdit(t, unload) == IF unload = 1 THEN Invalidate(held, t) ELSE held

TrAddRec == /\ IsEvent("AddRec")
            /\ Ev.lib \in Libs /\ Ev.t \in Tables
            /\ recs[Ev.lib, Ev.t] = 0
            /\ Ev.ver > maxver /\ maxver' = Ev.ver        \* versions identify definitions: never reused
            /\ recs' = [recs EXCEPT ![Ev.lib, Ev.t] = Ev.ver]
            /\ held' = AfterEdit(Ev.t, Ev.unload)
            /\ UNCHANGED <<libs, disabled, rows>>

TrUpdRec == /\ IsEvent("UpdRec")
            /\ Ev.lib \in Libs /\ Ev.t \in Tables
            /\ recs[Ev.lib, Ev.t] # 0
            /\ Ev.ver > maxver /\ maxver' = Ev.ver
            /\ recs' = [recs EXCEPT ![Ev.lib, Ev.t] = Ev.ver]
            /\ held' = AfterEdit(Ev.t, Ev.unload)
            /\ UNCHANGED <<libs, disabled, rows>>

TrDelRec == /\ IsEvent("DelRec")
            /\ Ev.lib \in Libs /\ Ev.t \in Tables
            /\ recs[Ev.lib, Ev.t] # 0
            /\ recs' = [recs EXCEPT ![Ev.lib, Ev.t] = 0]
            /\ held' = AfterEdit(Ev.t, Ev.unload)
            /\ UNCHANGED <<libs, disabled, rows, maxver>>

TrUnload == /\ IsEvent("Unload")
            /\ Ev.t \in Tables
            /\ held' = Invalidate(held, Ev.t)
            /\ UNCHANGED <<recs, libs, disabled, rows, maxver>>

TrUnloadAll == /\ IsEvent("UnloadAll")
               /\ held' = NoHeld(Tables)
               /\ UNCHANGED <<recs, libs, disabled, rows, maxver>>

\* Use: true and appended iff not in use yet; only a successful Use promises fresh lookups
TrUse == /\ IsEvent("Use")
         /\ Ev.lib \in Libs
         /\ Ev.ok = (IF UseOK(libs, Ev.lib) THEN 1 ELSE 0)
         /\ libs' = AfterUse(libs, Ev.lib)
         /\ Ev.libs = libs'
         /\ held' = IF Ev.ok = 1 THEN NoHeld(Tables) ELSE held
         /\ UNCHANGED <<recs, disabled, rows, maxver>>

TrUnuse == /\ IsEvent("Unuse")
           /\ Ev.lib \in Libs
           /\ Ev.ok = (IF UnuseOK(libs, Ev.lib, StdLib) THEN 1 ELSE 0)
           /\ libs' = AfterUnuse(libs, Ev.lib, StdLib)
           /\ Ev.libs = libs'
           /\ held' = IF Ev.ok = 1 THEN NoHeld(Tables) ELSE held
           /\ UNCHANGED <<recs, disabled, rows, maxver>>

TrLoadOther == /\ IsEvent("LoadOther")
               /\ UNCHANGED <<recs, libs, disabled, held, rows, maxver>>

TrDisable == /\ IsEvent("Disable")
             /\ Ev.t \in Tables
             /\ disabled' = [disabled EXCEPT ![Ev.t] = @ + 1]
             /\ UNCHANGED <<recs, libs, held, rows, maxver>>

TrEnable == /\ IsEvent("Enable")
            /\ Ev.t \in Tables /\ disabled[Ev.t] > 0
            /\ disabled' = [disabled EXCEPT ![Ev.t] = @ - 1]
            /\ UNCHANGED <<recs, libs, held, rows, maxver>>

ObsDefs(cs) == [i \in 1..Len(cs) |-> DefOf(cs[i].lib, cs[i].ver)]

\* one row inserted / updated to a different value / deleted
TrRow ==
    /\ IsEvent("Row")
    /\ Ev.t \in Tables /\ Ev.k \in 1..MaxKey
    /\ rows[Ev.t][Ev.k] = Ev.ov
    /\ \/ Ev.op = "ins" /\ Ev.ov = 0 /\ Ev.nv > 0
       \/ Ev.op = "upd" /\ Ev.ov > 0 /\ Ev.nv > 0 /\ Ev.nv # Ev.ov
       \/ Ev.op = "del" /\ Ev.ov > 0 /\ Ev.nv = 0
    /\ LET en == disabled[Ev.t] = 0
           cur == Resolve(recs, libs, Ev.t)
           obs == ObsDefs(Ev.calls)
       IN /\ RowOK(held[Ev.t], cur, en, obs)                \* the promised definition, once; or none
          /\ \A i \in 1..Len(Ev.calls) :                     \* with this change, inside its transaction
                /\ Ev.calls[i].t = Ev.t /\ Ev.calls[i].k = Ev.k
                /\ Ev.calls[i].ov = Ev.ov /\ Ev.calls[i].nv = Ev.nv
                /\ Ev.calls[i].intran = 1
          /\ held' = [held EXCEPT ![Ev.t] = HeldAfterRow(held[Ev.t], cur, en, obs)]
    /\ Ev.committed \in {0, 1}
    /\ rows' = IF Ev.committed = 1 THEN [rows EXCEPT ![Ev.t][Ev.k] = Ev.nv] ELSE rows
    /\ UNCHANGED <<recs, libs, disabled, maxver>>

TraceNext == \/ TrReset \/ TrAddRec \/ TrUpdRec \/ TrDelRec \/ TrUnload \/ TrUnloadAll
             \/ TrUse \/ TrUnuse \/ TrLoadOther \/ TrDisable \/ TrEnable \/ TrRow

TraceSpec == TraceInit /\ [][TraceNext]_tvars

HW == HWMark(l)
=============================================================================
