SPECIFICATION TraceSpec
CONSTRAINT HW
INVARIANT LzAbsStable
POSTCONDITION AcceptedV
CHECK_DEADLOCK FALSE
