SPECIFICATION TraceSpec
CONSTRAINT HW
POSTCONDITION AcceptedV
CHECK_DEADLOCK FALSE
