----------------------------- MODULE TraceValues -----------------------------
(* Trace validation for C28.  The driver (harness/cmd/values) instantiates     *)
(* abstract values in every concrete representation of core and records what  *)
(* the REAL code answers for all ordered pairs.                                *)
(*   Val  id, cls (class index: instances with the identical abstract value    *)
(*        form one class, numbered in order of appearance), gotype,            *)
(*        a (abstract value), h (Hash of the instance as three 21-bit chunks)  *)
(*        - the Val events of a scenario are contiguous, ids 1..nv             *)
(*   Row  a, and per instance b = 1..nv:                                       *)
(*        cmp[b]    sign of a.Compare(b)                                       *)
(*        ops[b]    order according to OpLt/OpLte/OpGt/OpGte (-1, 0, 1)        *)
(*        eq[b]     a.Equal(b)          is[b]   OpIs / OpIsnt                  *)
(*        found[b]  SuObject: Put under key a, Get under key b finds it        *)
(*        has[b]    SuObject.HasKey(b)  rfound[b]  same on a SuRecord          *)
(*   Pair a b ...   one pair (used to pin-point a rejected Row)                *)
(*   Map  puts (ids put as keys, in order, value = id), gets[b] = value found  *)
(*        under key b or -1                                                    *)
(*   LzNew of, ep, ra   a brand new copy of instance `of' (a lazily            *)
(*        materialised record / sequence, or a container holding one; nothing  *)
(*        read or unpacked yet) and an empty container; ra = abstract value of *)
(*        the lazy value inside                                                *)
(*   Lz   of, op, b, k, r, h   one read-only operation on that copy:           *)
(*        get / has (member k of the lazy value; r: found), str (display it),  *)
(*        hash (h), eq / cmp (against instance b; r), put (store a member      *)
(*        under the copy as key), look (r: member found under key b),          *)
(*        look0 (r: member found under the very same key)                      *)
(*        The lazy value is modelled by ValuesLazy (row / ob / userow); its    *)
(*        value must stay ra, and every answer must be the one the VALUE       *)
(*        gives, whatever has been materialised so far.                        *)
(* Required (property C28, with Cmp / Eq of Values.tla as the reference):      *)
(*   sign(Compare) = Cmp, operators agree with it, Equal <=> Eq,               *)
(*   Eq => same Hash, member found <=> keys Eq, lookup returns the value of    *)
(*   the last Eq key put.                                                      *)
(*                                                                            *)
(* Named relaxations model recorded (unrepaired) findings exactly; each is off *)
(* unless the environment variable is "1" (set by checks/C28.py only for keys  *)
(* listed in known-findings.txt).  Their use is reported (RELAX-USED).         *)
(*   VERIF_RELAX_HASH_INT_DNUM  integer-valued decimal beyond the int16 range  *)
(*        hashes differently from the equal SuInt64 (F14)                      *)
(*   VERIF_RELAX_INT17  integers >= 10^16 against decimals: comparison goes     *)
(*        through a conversion that rounds to 16 digits                        *)
(*   VERIF_RELAX_OBJ_HASH_ORDER  hash of an object with 2..4 named members     *)
(*        depends on their insertion order                                     *)
EXTENDS TraceBase, ValuesLazy

VARIABLES l, base, nv,
          clsv, hv,     \* clsv[k], hv[k]: class index and hash of instance k (from the Val events)
          crep,         \* crep[c]: first instance of class c (a class = one abstract value)
          ctri, etri,   \* ctri[c][d], etri[c][d] for d < c: Cmp / Eq of the class representatives,
                        \* evaluated once when class c appears
          lz            \* current lazy episode: [of, x (ValuesLazy record), ra, put], of = 0: none

tvars == <<l, base, nv, clsv, hv, crep, ctri, etri, lz>>
NoLz == [of |-> 0, x |-> LazyNew(<<>>), ra |-> <<>>, put |-> FALSE]

Ev == Log[l]

Relax(name) == name \in DOMAIN IOEnv /\ IOEnv[name] = "1"
RelaxHashIntDnum == Relax("VERIF_RELAX_HASH_INT_DNUM")
RelaxInt17       == Relax("VERIF_RELAX_INT17")
RelaxObjHashOrder == Relax("VERIF_RELAX_OBJ_HASH_ORDER")
\* registers 2..4 count how often each relaxation excused a deviation
Used(r) == TLCSet(r, TLCGet(r) + 1)

TraceInit == HWInit /\ TLCSet(2, 0) /\ TLCSet(3, 0) /\ TLCSet(4, 0)
             /\ l = 1 /\ base = 0 /\ nv = 0 /\ clsv = <<>> /\ hv = <<>>
             /\ crep = <<>> /\ ctri = <<>> /\ etri = <<>> /\ lz = NoLz

IsEvent(e) == l <= NLog /\ Ev.e = e /\ l' = l + 1

\* the k-th instance of the current scenario
InstEv(k) == Log[base + k]
A(k) == InstEv(k).a

TrReset == /\ IsEvent("Reset")
           /\ base' = l /\ nv' = 0 /\ clsv' = <<>> /\ hv' = <<>>
           /\ crep' = <<>> /\ ctri' = <<>> /\ etri' = <<>> /\ lz' = NoLz

TrVal == /\ IsEvent("Val")
         /\ l = base + nv + 1              \* contiguous
         /\ Ev.id = nv + 1
         /\ LET C == Len(crep) IN
              \/ /\ Ev.cls \in 1..C           \* known class: identical abstract value
                 /\ A(crep[Ev.cls]) = Ev.a
                 /\ UNCHANGED <<crep, ctri, etri>>
              \/ /\ Ev.cls = C + 1            \* new class: compare with all earlier classes
                 /\ crep' = Append(crep, Ev.id)
                 /\ ctri' = Append(ctri, [d \in 1..C |-> Cmp(Ev.a, A(crep[d]))])
                 /\ etri' = Append(etri, [d \in 1..C |-> Eq(Ev.a, A(crep[d]))])
         /\ nv' = nv + 1 /\ clsv' = Append(clsv, Ev.cls) /\ hv' = Append(hv, Ev.h)
         /\ UNCHANGED <<base, lz>>

\* Cmp / Eq of the abstract values of classes c, d (antisymmetry / symmetry of the
\* reference operators is established by MC_Values)
CmpC(c, d) == IF c = d THEN 0 ELSE IF d < c THEN ctri[c][d] ELSE -ctri[d][c]
EqC(c, d)  == c = d \/ (IF d < c THEN etri[c][d] ELSE etri[d][c])

----------------------------------------------------------------------------
(* predicates used by the relaxations *)
IsIntV(v) == v.t = "num" /\ v.ns \in {-1, 1} /\ Len(v.nd) <= v.nx
\* integer outside -32768..32767
BeyondInt16(v) ==
    /\ IsIntV(v)
    /\ \/ v.nx > 5
       \/ /\ v.nx = 5
          /\ LET d == [i \in 1..5 |-> IF i <= Len(v.nd) THEN v.nd[i] ELSE 0]
             IN LexCmp(d, IF v.ns = 1 THEN <<3, 2, 7, 6, 7>> ELSE <<3, 2, 7, 6, 8>>) > 0
\* integers of 10^16 and more (conversion to a decimal rounds to 16 digits; also the
\* int64 boundary 9223372036854775000 that Dnum.ToInt64 rejects)
Int17(v) == IsIntV(v) /\ v.nx > 16

RECURSIVE DeepB16(_), DeepI17(_)
\* does v (or any member, deeply) satisfy BeyondInt16 / Int17
DeepB16(v) ==
    \/ BeyondInt16(v)
    \/ /\ v.t = "obj"
       /\ \/ \E i \in 1..Len(v.l) : DeepB16(v.l[i])
          \/ \E i \in 1..Len(v.n) : DeepB16(v.n[i][1]) \/ DeepB16(v.n[i][2])
DeepI17(v) ==
    \/ Int17(v)
    \/ /\ v.t = "obj"
       /\ \/ \E i \in 1..Len(v.l) : DeepI17(v.l[i])
          \/ \E i \in 1..Len(v.n) : DeepI17(v.n[i][1]) \/ DeepI17(v.n[i][2])

IsDnum(k) == InstEv(k).gotype = "core.SuDnum"
\* F14: scalar pair, or anything containing such a number as a (hashed) member key
HashIntDnumPair(a, b) ==
    \/ /\ A(a).t = "num" /\ BeyondInt16(A(a)) /\ A(b).t = "num" /\ IsDnum(a) # IsDnum(b)
    \/ /\ A(a).t = "obj" /\ A(b).t = "obj"
       /\ DeepB16(A(a)) /\ DeepB16(A(b))
Int17Pair(a, b) ==
    \/ /\ A(a).t = "num" /\ A(b).t = "num" /\ (Int17(A(a)) \/ Int17(A(b)))
    \/ /\ A(a).t = "obj" /\ A(b).t = "obj" /\ (DeepI17(A(a)) \/ DeepI17(A(b)))
ObjHashOrderPair(a, b) ==
    /\ A(a).t = "obj" /\ A(b).t = "obj"
    /\ Len(A(a).n) \in 2..4 /\ Len(A(b).n) \in 2..4

----------------------------------------------------------------------------
\* what the property demands of one ordered pair of instances; c = Cmp, e = Eq of the
\* abstract values
PairOK(a, b, c, e, cmp, ops, eq, is, found, rfound, has) ==
    LET ei == IF e THEN 1 ELSE 0
        strictOrder == cmp = c /\ ops = c /\ eq = ei /\ is = ei /\ (e => c = 0)
        strictHash  == /\ e => InstEv(a).h = InstEv(b).h        \* equal => hash equal
                       /\ found = ei /\ has = ei /\ rfound = ei  \* found by exactly the equal keys
    IN /\ \/ strictOrder
          \/ RelaxInt17 /\ Int17Pair(a, b) /\ Used(3)
          \/ RelaxHashIntDnum /\ A(a).t = "obj" /\ HashIntDnumPair(a, b)   \* deepEqual looks named keys up by hash
                /\ cmp = c /\ ops = c /\ Used(2)
       /\ \/ strictHash
          \/ RelaxHashIntDnum /\ HashIntDnumPair(a, b) /\ Used(2)
          \/ RelaxInt17 /\ Int17Pair(a, b) /\ Used(3)
          \/ RelaxObjHashOrder /\ ObjHashOrderPair(a, b) /\ Used(4)

AnyRelax == RelaxHashIntDnum \/ RelaxInt17 \/ RelaxObjHashOrder

TrRow == /\ IsEvent("Row")
         /\ Ev.a \in 1..nv
         /\ Len(Ev.cmp) = nv
         \* the expected answer vectors are compared with the recorded ones as a whole
         /\ LET a  == Ev.a
                ca == clsv[a]
                expC == [b \in 1..nv |-> CmpC(ca, clsv[b])]
                expE == [b \in 1..nv |-> IF EqC(ca, clsv[b]) THEN 1 ELSE 0]
                strict == /\ Ev.cmp = expC /\ Ev.ops = expC
                          /\ Ev.eq = expE /\ Ev.is = expE
                          /\ Ev.found = expE /\ Ev.has = expE /\ Ev.rfound = expE
                          /\ \A b \in 1..nv : expE[b] = 1 => (expC[b] = 0 /\ hv[b] = hv[a])
            IN \* ("= TRUE": evaluate as an expression, not as an action - stack depth)
               (\/ strict
                \/ /\ AnyRelax
                   /\ \A b \in 1..nv :
                        PairOK(a, b, expC[b], expE[b] = 1, Ev.cmp[b], Ev.ops[b], Ev.eq[b], Ev.is[b],
                               Ev.found[b], Ev.rfound[b], Ev.has[b])) = TRUE
         /\ UNCHANGED <<base, nv, clsv, hv, crep, ctri, etri, lz>>

TrPair == /\ IsEvent("Pair")
          /\ Ev.a \in 1..nv /\ Ev.b \in 1..nv
          /\ PairOK(Ev.a, Ev.b, CmpC(clsv[Ev.a], clsv[Ev.b]), EqC(clsv[Ev.a], clsv[Ev.b]),
                    Ev.cmp, Ev.ops, Ev.eq, Ev.is, Ev.found, Ev.rfound, Ev.has) = TRUE
          /\ UNCHANGED <<base, nv, clsv, hv, crep, ctri, etri, lz>>

\* index of the last key in puts that is Eq to instance b, or 0
LastEq(puts, b) ==
    LET S == {i \in 1..Len(puts) : EqC(clsv[puts[i]], clsv[b])}
    IN IF S = {} THEN 0 ELSE CHOOSE i \in S : \A j \in S : j <= i

MapAffected(puts, b) ==
    \/ RelaxHashIntDnum /\ (\E i \in 1..Len(puts) : HashIntDnumPair(puts[i], b)) /\ Used(2)
    \/ RelaxInt17 /\ (\E i \in 1..Len(puts) : Int17Pair(puts[i], b)) /\ Used(3)
    \/ RelaxObjHashOrder /\ (\E i \in 1..Len(puts) : ObjHashOrderPair(puts[i], b)) /\ Used(4)

TrMap == /\ IsEvent("Map")
         /\ Len(Ev.gets) = nv
         /\ (\A b \in 1..nv :
               LET i == LastEq(Ev.puts, b)
               IN \/ Ev.gets[b] = (IF i = 0 THEN -1 ELSE Ev.puts[i])
                  \/ MapAffected(Ev.puts, b)) = TRUE
         /\ UNCHANGED <<base, nv, clsv, hv, crep, ctri, etri, lz>>

----------------------------------------------------------------------------
(* lazy episodes *)
TrLzNew == /\ IsEvent("LzNew")
           /\ Ev.of \in 1..nv
           /\ Ev.ra.t = "obj"
           /\ lz' = [of |-> Ev.of, x |-> LazyNew(Ev.ra.n), ra |-> Ev.ra.n, put |-> FALSE]
           /\ UNCHANGED <<base, nv, clsv, hv, crep, ctri, etri>>

\* a recorded finding may excuse the pair (same shapes as in PairOK)
LzExcused(a, b) ==
    \/ RelaxHashIntDnum /\ HashIntDnumPair(a, b) /\ Used(2)
    \/ RelaxInt17 /\ Int17Pair(a, b) /\ Used(3)
    \/ RelaxObjHashOrder /\ ObjHashOrderPair(a, b) /\ Used(4)

IsMember(x, k) == InOb(x, k) \/ (x.userow /\ InRow(x, k))
B01(p) == IF p THEN 1 ELSE 0

TrLz == /\ IsEvent("Lz")
        /\ lz.of # 0 /\ Ev.of = lz.of
        /\ Ev.b \in 0..nv
        /\ LET a == lz.of
               b == Ev.b
               ca == clsv[a]
           IN CASE Ev.op = "get" ->      \* reading a field caches it; it is found iff it is a member
                     /\ Ev.r = B01(IsMember(lz.x, Ev.k))
                     /\ lz' = [lz EXCEPT !.x = LazyGet(@, Ev.k)]
                [] Ev.op = "has" ->
                     /\ Ev.r = B01(IsMember(lz.x, Ev.k))
                     /\ UNCHANGED lz
                [] Ev.op = "str" ->      \* display unpacks
                     /\ lz' = [lz EXCEPT !.x = LazyUnpack(@)]
                [] Ev.op = "hash" ->     \* equal values hash equally: the hash of the shared instance
                     /\ (Ev.h = hv[a] \/ LzExcused(a, a))
                     /\ lz' = [lz EXCEPT !.x = LazyHash2(@, FALSE)[2]]
                [] Ev.op = "eq" ->
                     /\ b > 0
                     /\ (Ev.r = B01(EqC(ca, clsv[b])) \/ LzExcused(a, b))
                     /\ lz' = [lz EXCEPT !.x = LazyUnpack(@)]
                [] Ev.op = "cmp" ->
                     /\ b > 0
                     /\ (Ev.r = CmpC(ca, clsv[b]) \/ LzExcused(a, b))
                     /\ lz' = [lz EXCEPT !.x = LazyUnpack(@)]
                [] Ev.op = "put" ->      \* the container hashes the key
                     /\ Ev.r = 0
                     /\ lz' = [lz EXCEPT !.put = TRUE, !.x = LazyHash2(@, FALSE)[2]]
                [] Ev.op = "look" ->     \* found by exactly the keys equal to the one used to store it
                     /\ b > 0
                     /\ (Ev.r = B01(lz.put /\ EqC(ca, clsv[b])) \/ LzExcused(a, b))
                     /\ UNCHANGED lz
                [] Ev.op = "look0" ->    \* the very same key
                     /\ (Ev.r = B01(lz.put) \/ LzExcused(a, a))
                     /\ lz' = [lz EXCEPT !.x = LazyHash2(@, FALSE)[2]]
                [] OTHER -> FALSE
        /\ UNCHANGED <<base, nv, clsv, hv, crep, ctri, etri>>

\* no read-only operation changes the value of the lazy record (ValuesLazy)
LzAbsStable == lz.of # 0 => Eq(AbsOf(lz.x), Obj(<<>>, lz.ra))

TraceNext == TrReset \/ TrVal \/ TrRow \/ TrPair \/ TrMap \/ TrLzNew \/ TrLz

TraceSpec == TraceInit /\ [][TraceNext]_tvars

HW == HWMark(l)

AcceptedV == PrintT(<<"RELAX-USED", TLCGet(2), TLCGet(3), TLCGet(4)>>) /\ Accepted
=============================================================================
